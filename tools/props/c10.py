"""C10: plugging satisfies every matchable socket import and re-exports the socket."""
import json
import os
import re
import vlib

PID = "C10"

CLAIM = dict(
    text="Coq theorems over an executable model of wac_graph::plug (model/Plug.v, on top of the validated graph model "
         "Graph.v and the semver-compatibility model Names.v): under the stated hypothesis (the socket imports no two "
         "names on one semver track) the export-first algorithm of plug.rs (with its per-import dedupe, exact name "
         "preferred) realises the property read import-first: after a successful plug every socket import with a supplier is an "
         "argument of the socket instantiation fed by the alias of that plug's export, every other import is still "
         "listed as an import, every socket export is exported under its own name through an alias of the socket "
         "instantiation, idle plugs have no node, the only failure is ArgumentAlreadyPassed and it happens exactly when "
         "two plugs offer for one import, NoPlugHappened exactly when nothing can be supplied, never a panic. The "
         "hypothesis has machine-checked counterexamples (_refuted), replayed on the real code. The model is tied to the "
         "code by comparing, for every generated socket/plug-list case, outcome class + underlying error variant and the "
         "full graph dump; the specification verdict is evaluated on the implementation's own observation, including the "
         "encoded component (validity, import and export names).",
    design_ref="DESIGN.md §5 C10, §8 (import-first reading)",
    note="Trusted: Coq kernel, extraction, OCaml driver, Rust harness. Types enter through a per-case universe (package "
         "worlds, instance exports, subtype table computed by the real SubtypeChecker, name validity) — oracles here. "
         "Encoding is not modelled: validity and import/export names of the encoded result are checked on the "
         "implementation only (by wasmparser).",
    technique="Coq proof (state invariant over the graph operations + list reasoning on the matching) + "
              "extracted-model correspondence + specification predicate on implementation observations")

# Findings proposed to the main session (see the final report); consulted locally so that the check exits 0 on the
# unchanged tree while still printing the KNOWN-FINDING lines.  Signature letters: what the driver prints in R=
# (A: the pairs kept by the export-first loop differ from the import-first offers -- needs two socket imports on one
# semver track, PlugProofs.pair_iff_offer) and C (encode: unsupplied same-track socket imports with unmergeable types).
# The former finding B (`one-plug-two-exports-on-one-track`: one plug colliding with itself) was repaired by /repo commit
# 7db12e7 and is recorded as fixed: its witness `C 2 5` stays in the corpus and a regression is a VIOLATION.
W_HEAD = ("U reset\nU lib 0 imports=5:F0,6:F0 exports=20:F0\nU lib 1 imports=5:F1,6:F0 exports=20:F0\n"
          "U lib 2 imports=5:F0 exports=20:F0\nU lib 3 imports= exports=6:F0\nU lib 4 imports= exports=5:F0\n"
          "U lib 5 imports= exports=5:F0,6:F0\nU lib 6 imports= exports=25:F0\n"
          "U lib 7 imports=0:F0,5:F0,6:I0 exports=20:F0\nU lib 8 imports=19:F0 exports=0:F0\n")
PROPOSED_KNOWN = [
    dict(property=PID, id="same-track-sibling-import-not-supplied", status="known", letter="A",
         signature="plug(): socket imports two names on one semver track; a plug export that the import-first reading offers "
                   "to an import is routed by the export-first loop to the sibling (exact name, or first compatible) only",
         witness=W_HEAD + "C 0 3\nC 1 4\nC 0 4 3\n",
         text="socket imports a:b/c@0.2.0 and a:b/c@0.2.1: a plug exporting only a:b/c@0.2.1 leaves a:b/c@0.2.0 imported "
              "(C 0 3); an exact-name import of incompatible type shadows the compatible sibling -> NoPlugHappened (C 1 4); "
              "two plugs exporting one each are both wired by exact name although each also offers for the sibling (C 0 4 3)"),
    dict(property=PID, id="unsupplied-same-track-imports-unmergeable", status="known", letter="C",
         signature="encode after a successful plug(): two unsupplied socket imports on one semver track with types the encoder "
                   "cannot merge -> EncodeError::ImportTypeMergeConflict",
         witness=W_HEAD + "C 7 8\n",
         text="socket (a valid component) imports a:b/c@0.2.0: func and a:b/c@0.2.1: instance; plug supplies `f`: plug() "
              "returns Ok but the graph does not encode (implicit imports on one track are merged by the encoder)"),
]


MERGED = [0]   # encoded results in which an unsupplied import is represented by its merged same-track sibling


def sections(dump):
    out = {}
    for m in re.finditer(r"([A-Z])\[([^\]]*)\]", dump):
        out[m.group(1)] = m.group(2)
    return out


def parse_obs(dump):
    sec = sections(dump)
    nodes = {}
    for e in filter(None, sec.get("N", "").split(",")):
        p = e.split(":")
        nodes[p[0]] = dict(tag=p[1], pk=p[2], kid=p[3], export=p[4])
    args = {}
    for m in re.finditer(r"(\d+):\(([^)]*)\)", sec.get("A", "")):
        args[m.group(1)] = dict(a.split("=") for a in m.group(2).split(",") if a)
    alias = {}
    for e in filter(None, sec.get("L", "").split(",")):
        a, src = e.split(":")
        n, x = src.split(".")
        alias[a] = (n, x)
    imports = [tuple(t.split(",")) for t in re.findall(r"\(([^)]*)\)", sec.get("I", ""))]
    exports = dict(e.split("=") for e in sec.get("E", "").split(",") if e)
    return nodes, args, alias, imports, exports, sec


def fields(line):
    out = {}
    for f in line.split("|")[2:]:
        k, _, v = f.partition("=")
        out[k] = v
    return out


def spec_on_impl(case, impl, model, pkg_imports):
    """Evaluate the specification verdict (printed by the driver from the extracted PlugSpec) on the implementation's
    own observation.  Returns a list of (kind, why): kind 'verdict' (graph-level clauses) or 'encode' (last clause)."""
    bad = []
    ip = impl.split("|")
    outcome, dump = ip[0], ip[1]
    enc = ip[2] if len(ip) > 2 else ""
    eimp = [x for x in (ip[3].partition("=")[2] if len(ip) > 3 else "").split(",") if x]
    eexp = [x for x in (ip[4].partition("=")[2] if len(ip) > 4 else "").split(",") if x]
    mf = fields(model)
    verdict = mf.get("V", "nodata")
    plugs = case.split(" ")[2:]
    simps = [x.split(":") for x in mf.get("S", "").split(",") if x]
    sexps = [x.split(":")[0] for x in mf.get("X", "").split(",") if x]
    if outcome.startswith("PANIC"):
        return [("verdict", "plug panicked: " + outcome[:200])]
    if dump == "DUMP-PANIC":
        return [("verdict", "a query panicked after plug")]
    nodes, args, alias, imports, exports, sec = parse_obs(dump)
    if sec.get("V"):
        bad.append(("verdict", "internal invariant violated: " + sec["V"][:200]))
    if verdict == "nodata":
        return bad + [("verdict", "case data unavailable")]
    socks = [n for n, d in nodes.items() if d["tag"] == "S" and d["pk"] == "0.0"]
    enc_bad = []
    if outcome == "Ok" and len(socks) == 1:
        tpairs = [tuple(pr.split("~")) for pr in mf.get("T", "").split(",") if pr]
        enc_bad = encode_check(enc, eimp, eexp, nodes, args.get(socks[0], {}), simps, sexps, plugs, pkg_imports, tpairs)
    if verdict == "fail":
        if not outcome.startswith("GraphError"):
            bad.append(("verdict", f"two plugs offer for one socket import but plug returned {outcome}"))
        return bad + enc_bad
    if verdict == "noplug":
        if outcome != "NoPlugHappened":
            bad.append(("verdict", f"no socket import can be supplied but plug returned {outcome}"))
        return bad + enc_bad
    # success expected
    if outcome != "Ok":
        bad.append(("verdict", f"every import has at most one supplier and some import has one, but plug returned {outcome}"))
        return bad
    if len(socks) != 1:
        return bad + [("verdict", f"expected one socket instantiation, found {socks}")]
    sock = socks[0]
    sargs = args.get(sock, {})
    used = set()
    for w in verdict[3:].split(","):
        m, _, tgt = w.partition("=")
        kind = next((k for n, k in simps if n == m), None)
        if tgt == "-":
            if m in sargs:
                bad.append(("verdict", f"socket import {m} has no supplier but is an argument"))
            if (m, kind, "-") not in imports:
                bad.append(("verdict", f"socket import {m} has no supplier but is not listed as an import of the graph"))
        else:
            k, e = tgt.split(".")
            used.add(int(k))
            a = sargs.get(m)
            if a is None:
                bad.append(("verdict", f"socket import {m} is offered export {e} by plug #{k} but is not an argument"))
                continue
            src = alias.get(a)
            if src is None or src[1] != e or nodes.get(src[0], {}).get("tag") != "S" or nodes[src[0]]["pk"] != f"{int(k) + 1}.0":
                bad.append(("verdict", f"socket import {m} should be supplied by export {e} of plug #{k}; argument node {a} is {src}"))
    for k in range(len(plugs)):
        if k not in used and any(d["pk"] == f"{k + 1}.0" for d in nodes.values()):
            bad.append(("verdict", f"plug #{k} supplies nothing but has nodes in the graph"))
    for x in sexps:
        a = exports.get(x)
        if a is None or alias.get(a) != (sock, x):
            bad.append(("verdict", f"socket export {x} is not exported under its own name (export -> {a}, alias source {alias.get(a)})"))
    if set(exports) != set(sexps):
        bad.append(("verdict", f"graph exports {sorted(exports)} differ from the socket's exports {sorted(sexps)}"))
    return bad + enc_bad


def encode_check(enc, eimp, eexp, nodes, sargs, simps, sexps, plugs, pkg_imports, tpairs=()):
    """last clause: a successful plug encodes to a valid component whose imports are the unsupplied socket imports
    (plus the imports of the instantiated plugs) and whose exports are the socket's exports"""
    bad = []
    if enc != "enc:ok":
        return [("encode", "successful plug does not encode to a valid component: " + enc[:300])]
    expect = [n for n, _ in simps if n not in sargs]
    for k, p in enumerate(plugs):
        if any(d["pk"] == f"{k + 1}.0" and d["tag"] == "S" for d in nodes.values()):
            expect += [x for x in pkg_imports.get(p, []) if x not in expect]
    # The encoder merges implicit imports that lie on one semver track into the highest version (C09's subject): an
    # unsupplied socket import may therefore be represented by its same-track sibling.  Interpretation: "remains an
    # import of the result" = present under its own name, or covered by an unsupplied same-track socket import that is.
    def covered(m):
        if m not in eimp:
            MERGED[0] += 1
        return m in eimp or any(m in pr and (set(pr) - {m}) <= set(eimp) and (set(pr) - {m}) <= set(expect) for pr in tpairs)
    if not (set(eimp) <= set(expect) and all(covered(m) for m in expect) and len(eimp) == len(set(eimp))):
        bad.append(("encode", f"imports of the encoded component {eimp} != unsupplied socket imports (+ plug imports) {expect}"))
    if sorted(eexp) != sorted(sexps):
        bad.append(("encode", f"exports of the encoded component {eexp} != socket exports {sexps}"))
    return bad


def run_files(tier, seed, rd, tag, src):
    c, i, m = (os.path.join(rd, f"{tag}.{x}.txt") for x in ("cases", "impl", "model"))
    rc, out = vlib.sh(f"{vlib.hbin('c10')} {tier} {seed} {c} {i}" + (f" {src}" if src else ""), timeout=3000)
    if rc != 0:
        return None, out
    rc, out = vlib.sh(f"{os.path.join(vlib.BUILD, 'c10', 'driver')} < {c} > {m}", timeout=3000)
    if rc != 0:
        return None, out
    rd_ = lambda p: open(p).read().split("\n")[:-1]
    return (rd_(c), rd_(i), rd_(m)), ""


def evaluate(cases, impl, model, known_letters):
    """-> dict(results=[...], counters)"""
    pkg_imports, libs = {}, {}
    res = []
    for c, i, m in zip(cases, impl, model):
        if c == "U reset":
            pkg_imports, libs = {}, {}
            continue
        if c.startswith("U bad"):
            res.append(dict(case=c, lib="", corr=False, fails=[("verdict", "library rejected by the front end: " + c)], known=False, model=m, impl=i, letters=""))
            continue
        if c.startswith("U pkg "):
            f = c.split(" ")
            pkg_imports[f[2]] = [x.split("=")[0] for x in f[4].split("=", 1)[1].split(",") if x]
            continue
        if c.startswith("U lib "):
            libs[c.split(" ")[2]] = c.split(" ", 3)[3]
            continue
        if not c.startswith("C "):
            continue
        ids = c.split(" ")[1:]
        lib = " ; ".join(libs.get(x, "?") for x in ids)
        corr = i.split("|")[:2] == m.split("|")[:2]
        fails = spec_on_impl(c, i, m, pkg_imports)
        mf = fields(m)
        letters = "" if mf.get("R", "-") == "-" else mf.get("R", "")
        if not mf.get("T", ""):
            letters = ""   # finding A needs two SOCKET imports on one semver track: never with a single one
        known = False
        if fails:
            need = set()
            ok = True
            for kind, why in fails:
                if kind == "verdict":
                    if letters and corr:
                        need |= set(letters)
                    else:
                        ok = False
                elif kind == "encode":
                    if "failed to merge the type definition for implicit import" in why and mf.get("T", "") and corr:
                        # both names of a compatible pair are unsupplied in the implementation's graph
                        nodes, args, _, _, _, _ = parse_obs(i.split("|")[1])
                        sock = next((n for n, d in nodes.items() if d["tag"] == "S" and d["pk"] == "0.0"), None)
                        sargs = args.get(sock, {})
                        if any(all(x not in sargs for x in pr.split("~")) for pr in mf["T"].split(",")):
                            need.add("C")
                        else:
                            ok = False
                    else:
                        ok = False
            known = ok and need <= known_letters
            letters = "".join(sorted(need)) if known else letters
        res.append(dict(case=c, lib=lib, corr=corr, fails=fails, known=known, model=m, impl=i, letters=letters))
    return res


def nontrivial(r):
    """a case is non-trivial when it exercises more than an exact-name single match: a semver-fallback supply, an
    ambiguity, an idle plug beside a supplying one, a type-incompatible same-track candidate, or a reading divergence"""
    mf = fields(r["model"])
    v = mf.get("V", "")
    if v == "fail" or mf.get("R", "-") != "-":
        return True
    if v.startswith("ok:"):
        ws = [w.partition("=") for w in v[3:].split(",")]
        sup = [(m, t) for m, _, t in ws if t != "-"]
        if any(t.split(".")[1] != m for m, t in sup):
            return True
        nplugs = len(r["case"].split(" ")) - 2
        if len({t.split(".")[0] for _, t in sup}) < nplugs:
            return True
    if v == "noplug":
        parts = r["lib"].split(" ; ")
        simp = {x.split(":")[0] for x in parts[0].split(" ")[0].partition("=")[2].split(",") if x}
        for pl in parts[1:]:
            if simp & {x.split(":")[0] for x in pl.split(" ")[1].partition("=")[2].split(",") if x}:
                return True   # a same-named but type-incompatible candidate existed
    return False


FAMILIES = [{"5", "6", "7"}, {"9", "10", "24"}, {"16", "17"}]


def nonexact_first(r):
    """a socket importing exactly one version of a family, and a plug exporting that version AFTER another version of
    the family (the per-import dedupe must prefer the exact name over the first pair)"""
    parts = r["lib"].split(" ; ")
    if not parts or "=" not in parts[0]:
        return False
    simp = [x.split(":")[0] for x in parts[0].split(" ")[0].partition("=")[2].split(",") if x]
    for pl in parts[1:]:
        ex = [x.split(":")[0] for x in pl.split(" ")[1].partition("=")[2].split(",") if x]
        for fam in FAMILIES:
            fe = [x for x in ex if x in fam]; fi = [x for x in simp if x in fam]
            if len(fe) >= 2 and len(fi) == 1 and fi[0] in fe and fe[0] != fi[0]:
                return True
    return False


def run(res, tier, seed, replay):
    pr = vlib.proof_stage(res, PID)
    ok, log = vlib.ensure_extraction("c10", "theories/extract/ExtractC10.v")
    if not ok:
        res.violation(dict(kind="machinery-error", what="extraction/driver build failed", log=log[-3000:]), no_input=True)
        return
    ok, log = vlib.cargo_build(["c10"])
    if not ok:
        res.violation(dict(kind="broken-tie", what="harness does not build against the repository", log=log[-3000:]), no_input=True)
        return
    rd = os.path.join(vlib.BUILD, "c10", "run"); os.makedirs(rd, exist_ok=True)
    known_entries = [e for e in vlib.load_known(PID) if e.get("status") == "known"]
    have = {e.get("id") for e in vlib.load_known(PID)}
    known_entries += [e for e in PROPOSED_KNOWN if e["id"] not in have]
    letter_of = {e["id"]: e["letter"] for e in PROPOSED_KNOWN}
    for e in known_entries:
        e.setdefault("letter", letter_of.get(e.get("id")))
        if "witness" not in e or not str(e["witness"]).startswith("U reset"):
            e["witness"] = next((p["witness"] for p in PROPOSED_KNOWN if p["id"] == e.get("id")), None)
    known_entries = [e for e in known_entries if e.get("letter")]
    known_letters = {e["letter"] for e in known_entries}
    runs = []
    if replay:
        rp = json.load(open(replay))
        rin = os.path.join(rd, "replay_in.txt")
        open(rin, "w").write("\n".join(rp.get("cases", [rp.get("case", "")])) + "\n")
        runs.append(("replay", rin))
    else:
        runs.append(("corpus", os.path.join(vlib.ROOT, "corpus", PID, "cases.txt")))
        runs.append(("generated", None))
    results = []
    for tag, src in runs:
        got, out = run_files(tier, seed, rd, tag, src)
        if got is None:
            res.violation(dict(kind="machinery-error", what="harness/driver run failed", log=out[-3000:]), no_input=True)
            return
        cases, impl, model = got
        if not (len(cases) == len(impl) == len(model)):
            res.violation(dict(kind="machinery-error", what="line counts differ", n=[len(cases), len(impl), len(model)]), no_input=True)
            return
        results += evaluate(cases, impl, model, known_letters)
    # known witnesses: replayed on every run, reported only while they still fail
    if not replay:
        for e in known_entries:
            if not e.get("witness"):
                continue
            wp = os.path.join(rd, f"known_{e['id']}.txt"); open(wp, "w").write(e["witness"])
            got, out = run_files(tier, seed, rd, "known_" + e["id"], wp)
            if got is None:
                res.violation(dict(kind="machinery-error", what="known-witness replay failed", log=out[-2000:]), no_input=True)
                continue
            wr = evaluate(*got, known_letters)
            still = [r for r in wr if r["fails"] and r["known"] and e["letter"] in r["letters"]]
            if still:
                res.known.append(f"{e['id']}: {e['text']} [{len(still)}/{len(wr)} witness cases still diverge]")
            for r in wr:
                if r["fails"] and not r["known"]:
                    results.append(r)
    ncase = len(results)
    disagree = [r for r in results if not r["corr"]]
    failing = [r for r in results if r["fails"] and not r["known"]]
    # cases outside every known divergence class first
    failing.sort(key=lambda r: fields(r["model"]).get("R", "-") != "-")
    known_hits = {}
    for r in results:
        if r["known"]:
            known_hits[r["letters"]] = known_hits.get(r["letters"], 0) + 1
    outcomes, verdicts = {}, {}
    for r in results:
        o = r["impl"].split("|")[0]; outcomes[o] = outcomes.get(o, 0) + 1
        v = fields(r["model"]).get("V", "")[:2]; verdicts[v] = verdicts.get(v, 0) + 1
    distinct = {r["lib"] for r in results if nontrivial(r)}
    lens = {}
    for r in results:
        n = len(r["case"].split(" ")) - 2; lens[n] = lens.get(n, 0) + 1
    samples = []
    for r in results[:2] + results[-3:]:
        samples.append(dict(case=r["case"], socket_and_plugs=r["lib"], implementation=r["impl"].split("|")[0],
                            spec=fields(r["model"]).get("V", "")))
    res.coverage.update(dict(
        evaluations=ncase, correspondence_cases=ncase, disagreements=len(disagree),
        spec_failures_on_impl=len(failing), known_finding_cases=known_hits,
        single_version_import_nonexact_export_first=len([r for r in results if nonexact_first(r)]), merged_import_observations=MERGED[0],
        distinct_nontrivial=len(distinct), outcome_distribution=outcomes, spec_verdict_distribution=verdicts,
        plug_list_lengths=lens, samples=samples,
        rule="cases: regression corpus (the four refutation witnesses and neighbours) + generated libraries: per block 3-6 sockets "
             "(1-4 imports, 1-2 exports) and 6-11 plugs (1-4 exports, some with an import, some with no matching export) as WAT "
             "components over a pool of 27 names (labels and a:b/c@{0.2.0,0.2.1,0.2.2,0.3.0,1.0.0,1.1.0,1.0.0-rc.1,1.0.0+b7,0.0.x,2.0.0}, "
             "x:y/z@2.x) and 9 item kinds (4 func signatures, 5 instance shapes incl. more/fewer/reordered exports); ordered plug "
             "lists of length 1..4 without repetition. Compared per case: outcome class + underlying error variant and the full "
             "graph dump (c06 format) with the extracted model; then the extracted PlugSpec verdict is checked on the "
             "implementation's observation incl. validity and import/export names of the encoded component. "
             "distinct_nontrivial = distinct (socket, plug list) CONTENTS among cases with a semver-fallback supply, an ambiguity, "
             "an idle plug beside a supplying one, a non-matching same-track/same-name candidate, or a reading divergence",
        trusted_base=vlib.TRUSTED_COMMON + [
            "models Plug.v / Graph.v / Names.v are hand-written and validated by correspondence (Graph.v by C06, Names.v by C15)",
            "type-level facts (package worlds, instance exports = world exports (checked per package by the harness), subtype table, "
            "name validity) are per-case oracles computed by the real implementation",
            "encoding is not modelled: validity (wasmparser Validator) and import/export names (wasmparser section parser) of the "
            "encoded result are observed on the implementation only",
            "guarded hook CompositionGraph::verif_dump/verif_invariants (add-only, cfg(wac_verif))",
            "wat crate (text -> binary for the generated libraries)"]))
    res.assumptions = ["blank CompositionGraph with the socket registered first and the plugs next (as src/commands/plug.rs does)",
                       "resource-free item kinds; plug imports use one name (`p-dep`) that no socket imports",
                       "known divergences between the import-first reading and plug.rs are classified by the driver (R=) and "
                       "suppressed only when the implementation equals the validated export-first model on that case"]
    for r in failing[:5]:
        res.violation(dict(kind="property-fails-on-implementation",
                           what="; ".join(w for _, w in r["fails"])[:600], case=r["case"], socket_and_plugs=r["lib"],
                           names={i: n for i, n in enumerate(NAMES)}, implementation=r["impl"][:2000], model_and_spec=r["model"][:2000],
                           correspondence_holds=r["corr"], cases=block_of(r)))
    if not failing:
        if disagree:
            r = disagree[0]
            res.violation(dict(kind="correspondence-broken", what="model Plug.v and plug.rs differ; the specification predicate still holds "
                               "on every implementation observation", correspondence="Plug.v vs crates/wac-graph/src/plug.rs",
                               case=r["case"], socket_and_plugs=r["lib"], implementation=r["impl"][:2000], model=r["model"][:2000],
                               n=len(disagree), cases=block_of(r)), no_input=True)
        if res.proof_broken:
            res.violation(res.proof_broken, no_input=True)


NAMES = ["f", "g", "h", "run", "get-x", "a:b/c@0.2.0", "a:b/c@0.2.1", "a:b/c@0.2.2", "a:b/c@0.3.0", "a:b/c@1.0.0", "a:b/c@1.1.0",
         "a:b/c@1.0.0-rc.1", "a:b/c", "a:b/d@0.2.0", "a:b/c@0.0.1", "a:b/c@0.0.2", "x:y/z@2.0.0", "x:y/z@2.3.1", "a:b/c@2.0.0",
         "p-dep", "out", "a:b/e@1.0.0", "x", "y", "a:b/c@1.0.0+b7", "zz", "a:b/q@3.0.0"]


def block_of(r):
    """a self-contained replay input for one case: its library renumbered from 0"""
    if not r["case"].startswith("C "):
        return [r["case"]]
    ids = r["case"].split(" ")[1:]
    libs = r["lib"].split(" ; ")
    uniq = []
    for x in ids:
        if x not in uniq:
            uniq.append(x)
    lines = ["U reset"]
    for j, x in enumerate(uniq):
        lines.append(f"U lib {j} {libs[ids.index(x)]}")
    lines.append("C " + " ".join(str(uniq.index(x)) for x in ids))
    return lines
