"""C15: semver-compatible name matching; highest wins."""
import os
import vlib

PID = "C15"

CLAIM = dict(
    text="Machine-checked Coq theorems over an executable model of names.rs and of the semver crate's parser and "
         "ordering: the compatibility function is exactly the semver-track relation (iff), it is an equivalence, "
         "the version order is total and version texts are injective, and after ANY insertion history the map "
         "returns the exact entry else the highest on the track, independent of insertion order. The model is tied "
         "to the code on every run by a 370k-case correspondence (all pairs of the property's universe).",
    design_ref="DESIGN.md §5 C15",
    note="Trusted: Coq kernel; extraction (ExtrOcamlBasic); OCaml driver; Rust harness; the models Semver.v/Names.v "
         "are hand-written and validated by correspondence, not derived from the Rust source.",
    technique="Coq proof (induction over insertion histories, Permutation) + extracted-model correspondence")


def dec(s):
    return "" if s in ("-", "") else "".join(chr(int(x)) for x in s.split(","))


def pretty(case):
    f = case.split("\t")
    out = [f[0]]
    for x in f[1:]:
        out.append([dec(y) for y in x.split(";")] if ";" in x or f[0] == "nm" else dec(x))
    return out


def run(res, tier, seed, replay):
    pr = vlib.proof_stage(res, PID)
    ok, log = vlib.ensure_extraction("c15", "theories/extract/ExtractC15.v")
    if not ok:
        res.violation(dict(kind="machinery-error", what="extraction/driver build failed", log=log[-3000:]), no_input=True)
        return
    ok, log = vlib.cargo_build(["c15"])
    if not ok:
        res.violation(dict(kind="broken-tie", what="harness does not build against /repo", log=log[-3000:]), no_input=True)
        return
    rd = os.path.join(vlib.BUILD, "c15", "run"); os.makedirs(rd, exist_ok=True)
    cases_p, impl_p, model_p = (os.path.join(rd, x) for x in ("cases.txt", "impl.txt", "model.txt"))
    corpus = os.path.join(vlib.ROOT, "corpus", PID, "cases.txt")
    extra = ""
    if replay:
        import json
        rp = json.load(open(replay))
        open(os.path.join(rd, "replay_in.txt"), "w").write("\n".join(rp.get("cases", [rp.get("case", "")])) + "\n")
        extra = " " + os.path.join(rd, "replay_in.txt")
    rc, out = vlib.sh(f"{vlib.hbin('c15')} {tier} {seed} {cases_p} {impl_p}{extra}", timeout=3000)
    if rc != 0:
        res.violation(dict(kind="machinery-error", what="harness run failed", log=out[-3000:]), no_input=True)
        return
    if os.path.exists(corpus) and not replay:
        # corpus cases run first: prepend by re-running the harness in replay mode
        rc, out = vlib.sh(f"{vlib.hbin('c15')} {tier} {seed} {cases_p}.c {impl_p}.c {corpus}")
        for a, b in ((cases_p, cases_p + ".c"), (impl_p, impl_p + ".c")):
            body = open(b).read() + open(a).read(); open(a, "w").write(body)
    rc, out = vlib.sh(f"{os.path.join(vlib.BUILD, 'c15', 'driver')} < {cases_p} > {model_p}", timeout=3000)
    cases = open(cases_p).read().split("\n")[:-1]
    impl = open(impl_p).read().split("\n")[:-1]
    model = open(model_p).read().split("\n")[:-1]
    assert len(cases) == len(impl) == len(model), (len(cases), len(impl), len(model))
    kinds = {}
    disagreements = []   # impl vs model
    prop_fail = []       # impl vs specification predicate
    nontrivial = set()
    for c, i, m in zip(cases, impl, model):
        k = c.split("\t", 1)[0]
        kinds[k] = kinds.get(k, 0) + 1
        mf = m.split("\t")
        if k == "compat":
            if i != mf[0]:
                disagreements.append((c, i, m))
            if i != mf[1]:
                prop_fail.append((c, i, m, "compatibility verdict differs from the track relation"))
            f = c.split("\t")
            if f[1] != f[2] and i == "1":
                nontrivial.add(c)
        elif k == "nm":
            fi = i.split("\t")
            if len(fi) != 2 or fi[0] != mf[0] or fi[1] != mf[1]:
                disagreements.append((c, i, m))
            if len(fi) != 2 or fi[1] != mf[2]:
                prop_fail.append((c, i, m, "lookup result differs from exact-else-highest-on-track"))
            # non-trivial: some lookup answered through the semver track (not exact)
            if len(fi) == 2:
                names = c.split("\t")[1].split(";"); qs = c.split("\t")[2].split(";")
                for q, g in zip(qs, fi[1].split(",")):
                    if g != "none" and q not in names:
                        nontrivial.add(c); break
        else:
            if i != m:
                disagreements.append((c, i, m))
            if k == "cmp" and i in ("lt", "gt"):
                nontrivial.add(c)
    res.coverage.update(dict(
        correspondence_cases=len(cases), case_kinds=kinds, disagreements=len(disagreements),
        spec_failures_on_impl=len(prop_fail), distinct_nontrivial=len(nontrivial), evaluations=len(cases),
        rule="cases: all ordered pairs of the 578-name universe (2 bases x 0..3^3 x pre x build + unversioned + malformed), "
             "random version texts (u64 boundary, leading zeros, stray characters), name-map insertion histories "
             "(quick: all of length<=2 over 24 names + random 3..6; thorough: all of length<=4) each followed by 24 lookups. "
             "non-trivial = compatible pair of different names / lookup answered through the track / strict version order",
        samples=[pretty(c) for c in (sorted(nontrivial)[:3] + cases[-2:])],
        trusted_base=vlib.TRUSTED_COMMON + [
            "models Semver.v (semver 1.0.22 parse.rs/impls.rs) and Names.v (names.rs) are hand-written; tied by this correspondence",
            "the `semver` crate itself is modelled, not verified; its agreement with Semver.v is checked on every run"]))
    res.assumptions = ["name strings compared at Unicode-scalar level (slicing positions are ASCII)",
                       "NameMap used with NameMapNoIntern (String keys)"]
    # outcome
    for c, i, m, why in prop_fail[:5]:
        res.violation(dict(kind="property-fails-on-implementation", what=why, case=c, pretty=pretty(c),
                           implementation=i, model_and_spec=m))
    if not prop_fail:
        if disagreements:
            c, i, m = disagreements[0]
            res.violation(dict(kind="correspondence-broken", what="model and implementation differ; the specification "
                               "predicate still holds on every implementation observation of this run",
                               correspondence="Names.v/Semver.v vs names.rs/semver", case=c, pretty=pretty(c),
                               implementation=i, model=m, n=len(disagreements)), no_input=True)
        if res.proof_broken:
            res.violation(res.proof_broken, no_input=True)
    elif res.proof_broken:
        pass  # already reported with a failing input
