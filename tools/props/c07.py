"""C07: argument type checking agrees with the component-model subtype relation."""
import json
import os
import re
import vlib

PID = "C07"

CLAIM = dict(
    text="Machine-checked Coq theorems over an executable model of SubtypeChecker (checker.rs: memo, variance stack, "
         "identifier shortcuts, alias resolution, every structural rule incl. core externs) and a declarative "
         "component-model subtype relation on arena-free trees: on acyclic well-formed type collections the checker "
         "accepts (a, b) exactly when unfold(a) <: unfold(b); the verdict does not depend on the variance stack; "
         "tree-equal copies in different collections are mutual subtypes; the relation is transitive; a memo that holds "
         "only true pairs never changes a verdict and only gains true pairs. The model is tied to the code on every run "
         "by a correspondence over the depth<=2 type universe (all ordered pairs in the thorough tier), shared-arena "
         "cases, random deeper types with one-position mutants, and all orders of preceding checks on one checker; "
         "the specification predicate is evaluated on the implementation's own verdicts.",
    design_ref="DESIGN.md §5 C07, §4 Types.v, Appendix A.5",
    note="Resource half of the property (accepting all of one provider's matching exports implies the instantiation "
         "validates) is OUT OF MODEL SCOPE: it needs the reference validator's generative treatment of resources; the "
         "checker's name-based comparison of resources is modelled and characterised, but not claimed to match the "
         "validator. The specification is sanity-checked against wasmparser's ComponentEntityType::is_subtype_of on "
         "resource-free samples (reported as spec_vs_reference; it validates the specification, not the model). "
         "Trusted: Coq kernel; extraction; OCaml driver; Rust harness; the hand-written models Types.v/Checker.v "
         "(validated by correspondence, not derived from the Rust source).",
    technique="Coq proof (induction on fuel/rank with a memo invariant) + extracted-model correspondence + "
              "executable specification evaluated on implementation observations")

# Entries proposed to the main session for /verif/known-findings.json (none for the verdict itself).
PROPOSED_KNOWN = []

ITEM_DESCS = {"function", "instance", "component", "module", "value", "resource", "function_type", "interface",
              "world", "module_type"}


def split_obs(s):
    return re.findall(r"(?:[^,(]|\([^)]*\))+", s)


def top_level_mismatch(o):
    m = re.match(r"E:expfound\(([^,]*),([^)]*)\)$", o)
    return bool(m) and m.group(1) in ITEM_DESCS and m.group(2) in ITEM_DESCS


def sides(c):
    f = c.split("\t")
    if f[0] == "pair":
        return (f[1], f[2]), (f[3], f[4])
    if f[0] == "same":
        return (f[1], f[2]), (f[1], f[3])
    return None, None


def run(res, tier, seed, replay):
    pr = vlib.proof_stage(res, PID)
    ok, log = vlib.ensure_extraction("c07", "theories/extract/ExtractC07.v")
    if not ok:
        res.violation(dict(kind="machinery-error", what="extraction/driver build failed", log=log[-3000:]), no_input=True)
        return
    ok, log = vlib.cargo_build(["c07"])
    if not ok:
        res.violation(dict(kind="broken-tie", what="harness does not build against the repository", log=log[-3000:]),
                      no_input=True)
        return
    rd = os.path.join(vlib.BUILD, "c07", "run"); os.makedirs(rd, exist_ok=True)
    cases_p, impl_p, model_p = (os.path.join(rd, x) for x in ("cases.txt", "impl.txt", "model.txt"))
    extra = ""
    if replay:
        rp = json.load(open(replay))
        lines = rp.get("cases") or [rp.get("case", "")]
        open(os.path.join(rd, "replay_in.txt"), "w").write("\n".join(lines) + "\n")
        extra = " " + os.path.join(rd, "replay_in.txt")
    rc, out = vlib.sh(f"{vlib.hbin('c07')} {tier} {seed} {cases_p} {impl_p}{extra}", timeout=3000)
    if rc != 0:
        res.violation(dict(kind="machinery-error", what="harness run failed", log=out[-3000:]), no_input=True)
        return
    corpus = os.path.join(vlib.ROOT, "corpus", PID, "cases.txt")
    if os.path.exists(corpus) and not replay:
        rc, out = vlib.sh(f"{vlib.hbin('c07')} {tier} {seed} {cases_p}.c {impl_p}.c {corpus}")
        for a, b in ((cases_p, cases_p + ".c"), (impl_p, impl_p + ".c")):
            body = open(b).read() + open(a).read(); open(a, "w").write(body)
    rc, out = vlib.sh(f"{os.path.join(vlib.BUILD, 'c07', 'driver')} < {cases_p} > {model_p}", timeout=3000)
    cases = open(cases_p).read().split("\n")[:-1]
    impl = open(impl_p).read().split("\n")[:-1]
    model = open(model_p).read().split("\n")[:-1]
    assert len(cases) == len(impl) == len(model), (len(cases), len(impl), len(model))

    kinds = {}
    disagreements = []       # implementation vs model (observation incl. error class)
    prop_fail = []           # implementation vs specification predicate
    nontrivial = set()
    verdict = {}             # (side a, side b) -> accepted?   for pair cases (separate collections)
    spec_defined = 0
    diag_changed = 0
    accepted_nonidentical = []
    for c, i, m in zip(cases, impl, model):
        k = c.split("\t", 1)[0]
        kinds[k] = kinds.get(k, 0) + 1
        mf = m.split("\t")
        if k in ("pair", "same"):
            if i != mf[0]:
                disagreements.append((c, i, m))
            a, b = sides(c)
            acc = i == "ok"
            if mf[1] in ("0", "1"):
                spec_defined += 1
                if acc != (mf[1] == "1"):
                    prop_fail.append((c, i, m, "verdict differs from the component-model subtype relation "
                                               "(resource-free kinds): checker %s, specification %s"
                                      % ("accepts" if acc else "rejects", "accepts" if mf[1] == "1" else "rejects")))
            if k == "pair":
                verdict[(a, b)] = acc
                if a == b and not acc:
                    prop_fail.append((c, i, m, "not reflexive across independently built copies of the same type"))
            if a != b and (acc or not top_level_mismatch(i)):
                nontrivial.add(c)
                if acc and len(accepted_nonidentical) < 2:
                    accepted_nonidentical.append(c)
        elif k == "memo":
            fi = i.split("\t")
            if len(fi) != 2 or fi[0] != mf[0] or fi[1] != mf[1]:
                disagreements.append((c, i, m))
            if len(fi) == 2:
                seq = split_obs(fi[0])
                last, fresh = seq[-1], fi[1]
                if (last == "ok") != (fresh == "ok"):
                    prop_fail.append((c, i, m, "verdict changed by earlier checks sharing the memo: %s after the "
                                               "history, %s on a fresh checker" % (last, fresh)))
                elif last != fresh:
                    diag_changed += 1
                if mf[2] in ("0", "1"):
                    spec_defined += 1
                    if (fresh == "ok") != (mf[2] == "1"):
                        prop_fail.append((c, i, m, "verdict differs from the component-model subtype relation"))
                if len(seq) > 1:
                    nontrivial.add(c)
        else:
            disagreements.append((c, i, m))

    # transitivity on the implementation's own verdicts (all triples whose three pairs were explored)
    succ = {}
    for (a, b), acc in verdict.items():
        if acc:
            succ.setdefault(a, []).append(b)
    triples = 0
    for a, bs in succ.items():
        for b in bs:
            for c2 in succ.get(b, ()):
                if (a, c2) in verdict:
                    triples += 1
                    if not verdict[(a, c2)]:
                        prop_fail.append(("pair\t%s\t%s\t%s\t%s" % (a + c2), "rejected", "",
                                          "not transitive: a<:b and b<:c accepted, a<:c rejected; b = %s %s" % b))

    samples = [c.split("\t") for c in accepted_nonidentical] + [c.split("\t") for c in sorted(nontrivial)[:2]]
    samples = [[x if len(x) < 300 else x[:300] + "..." for x in s] for s in samples] or [cases[0].split("\t")]
    n_univ = len({a for (a, b) in verdict if a == b})
    res.coverage.update(dict(
        correspondence_cases=len(cases), case_kinds=kinds, disagreements=len(disagreements),
        spec_failures_on_impl=len(prop_fail), spec_evaluated_on=spec_defined, transitivity_triples=triples,
        diagnostic_class_changed_after_failed_check=diag_changed,
        distinct_nontrivial=len(nontrivial), evaluations=len(cases), universe_kinds=n_univ,
        exhaustive=(tier == "thorough"),
        rule="pair: ordered pairs of the depth<=2 universe (%d kinds: all primitives, list/option/fixed list/tuple/"
             "result arms/record/variant/enum/flags/stream/future/alias chains/own/borrow, functions with renames, "
             "arity, async, results; instances and components with width/depth variations; core modules with limit/flag "
             "variations), each side built in its own Types (quick: diagonal + all pairs differing in one position + "
             "15k seeded; thorough: all); same: both kinds in one Types with shared identifiers; random deeper types "
             "with one-position mutants in both directions; memo: every order of <=2 (thorough <=3) preceding checks "
             "from 16 over 12 kinds on ONE checker, then 52 probes, plus longer random histories. "
             "non-trivial = distinct case whose two sides differ and whose verdict is accept or a rejection below "
             "the top-level item-kind mismatch; memo case with at least one preceding check" % n_univ,
        samples=samples,
        trusted_base=vlib.TRUSTED_COMMON + [
            "models Types.v (component.rs/core.rs arenas) and Checker.v (checker.rs) are hand-written; tied by this correspondence "
            "(observation = Ok / error class of the root cause, classified from the fixed words of the format strings)",
            "SubSpec.v is the specification (declarative rules + decision procedure sub_b proved equivalent); "
            "its agreement with wasmparser's is_subtype_of is sampled, not proved",
            "id_arena / indexmap semantics (identifier equality includes the arena; IndexMap keeps insertion order, unique keys) are modelled"]))
    res.assumptions = [
        "type collections are acyclic and closed (always true when built through add_*; IndexMut can break it)",
        "two collections with the same arena tag are the same collection (no diverged Clone)",
        "resource half of the property is out of model scope (see CLAIM.note)"]

    for c, i, m, why in prop_fail[:5]:
        res.violation(dict(kind="property-fails-on-implementation", what=why, case=c, fields=c.split("\t"),
                           implementation=i, model_and_spec=m))
    if not prop_fail:
        if disagreements:
            c, i, m = disagreements[0]
            res.violation(dict(kind="correspondence-broken",
                               what="model and implementation differ; the specification predicate still holds on every "
                                    "implementation observation of this run",
                               correspondence="Checker.v/Types.v vs checker.rs", case=c, fields=c.split("\t"),
                               implementation=i, model=m, n=len(disagreements)), no_input=True)
        if res.proof_broken:
            res.violation(res.proof_broken, no_input=True)
