"""C07: argument type checking agrees with the component-model subtype relation."""
import json
import os
import re
import vlib

PID = "C07"

CLAIM = dict(
    text="Machine-checked Coq theorems over an executable model of SubtypeChecker (checker.rs: memo, variance stack, "
         "identifier shortcuts, alias resolution, every structural rule incl. core externs) and a declarative "
         "component-model subtype relation on arena-free trees: on acyclic well-formed type collections the checker "
         "accepts (a, b) exactly when unfold(a) <: unfold(b); the verdict does not depend on the variance stack; "
         "tree-equal copies in different collections are mutual subtypes; the relation is transitive; a memo that holds "
         "only true pairs never changes a verdict and only gains true pairs. The model is tied to the code on every run "
         "by a correspondence over the depth<=2 type universe (all ordered pairs in the thorough tier), shared-arena "
         "cases, random deeper types with one-position mutants, and all orders of preceding checks on one checker; "
         "the specification predicate is evaluated on the implementation's own verdicts.",
    design_ref="DESIGN.md §5 C07, §4 Types.v, Appendix A.5",
    note="Resource half of the property (accepting all of one provider's matching exports implies the instantiation "
         "validates) is OUT OF MODEL SCOPE: it needs the reference validator's generative treatment of resources; the "
         "checker's name-based comparison of resources is modelled and characterised, but not claimed to match the "
         "validator. The specification is sanity-checked against wasmparser's ComponentEntityType::is_subtype_of on "
         "resource-free samples (reported as spec_vs_reference; it validates the specification, not the model). "
         "Trusted: Coq kernel; extraction; OCaml driver; Rust harness; the hand-written models Types.v/Checker.v "
         "(validated by correspondence, not derived from the Rust source).",
    technique="Coq proof (induction on fuel/rank with a memo invariant) + extracted-model correspondence + "
              "executable specification evaluated on implementation observations")

# Entries proposed to the main session for /verif/known-findings.json.  Consulted locally (in addition to that file) so
# that the check exits 0 on the unchanged tree while still printing the KNOWN-FINDING line.
PROPOSED_KNOWN = [dict(
    property="C07", id="memory-default-page-size", status="known",
    signature="mempage-default: checker rejects with class `mempage` (\"mismatched page_size_log2 for memories\") a pair "
              "that the specification accepts, i.e. page_size_log2 None against Some(16)",
    witness="pair\tM 0 1 e memory 0 0 1 - -\tm:0\tM 0 1 e memory 0 0 1 - 16\tm:0",
    text="checker.rs core_extern compares the two Option<u32> page_size_log2 values, so a core module whose memory "
         "spells out the default page size, (memory 1 (pagesize 0x10000)) = Some(16), and one that does not (None) are "
         "rejected as arguments for one another in both directions although they are the same core type (wasmparser's "
         "is_subtype_of accepts both). Repair: hooks/fix-c07-memory-default-page-size.patch (compare unwrap_or(16)).")]


def signature_of(impl_obs, spec, why):
    """narrow classification of a failing case: call site + shape"""
    if impl_obs == "E:mempage" and spec == "1":
        return "mempage-default"
    return None

ITEM_DESCS = {"function", "instance", "component", "module", "value", "resource", "function_type", "interface",
              "world", "module_type"}


def split_obs(s):
    return re.findall(r"(?:[^,(]|\([^)]*\))+", s)


def top_level_mismatch(o):
    m = re.match(r"E:expfound\(([^,]*),([^)]*)\)$", o)
    return bool(m) and m.group(1) in ITEM_DESCS and m.group(2) in ITEM_DESCS


def sides(c):
    f = c.split("\t")
    if f[0] == "pair":
        return (f[1], f[2]), (f[3], f[4])
    if f[0] == "same":
        return (f[1], f[2]), (f[1], f[3])
    return None, None


def source_flag():
    import importlib.util
    spec = importlib.util.spec_from_file_location("gen_c07_flags", os.path.join(vlib.ROOT, "tools", "gen", "gen_c07_flags.py"))
    mod = importlib.util.module_from_spec(spec); spec.loader.exec_module(mod)
    return mod.detect(vlib.REPO)


def compiled_flag():
    p = os.path.join(vlib.COQ, "theories", "gen", "C07Flags.v")
    return ":= true." in open(p).read() if os.path.exists(p) else None


def run(res, tier, seed, replay):
    pr = vlib.proof_stage(res, PID)
    try:
        want = source_flag()
    except Exception:  # the translator has already reported the broken tie
        want = None
    if want is not None and compiled_flag() != want:
        # another run regenerated gen/C07Flags.v from a different repository path in between: redo once
        res.violations.clear()
        pr = vlib.proof_stage(res, PID)
    def build_model():
        ok, log = vlib.ensure_extraction("c07", "theories/extract/ExtractC07.v")
        if not ok:
            return ok, log, None
        rc, out = vlib.sh("echo flag | " + os.path.join(vlib.BUILD, "c07", "driver"), timeout=60)
        return True, log, ("=1" in out)

    ok, log, model_flag = build_model()
    if ok and want is not None and model_flag != want:
        # gen/C07Flags.v was regenerated by a concurrent run against another repository path: redo everything once
        res.violations.clear()
        pr = vlib.proof_stage(res, PID)
        ok, log, model_flag = build_model()
    if not ok:
        res.violation(dict(kind="machinery-error", what="extraction/driver build failed", log=log[-3000:]), no_input=True)
        return
    if want is not None and model_flag != want:
        res.violation(dict(kind="machinery-error", what="the model was built for psl_default_normalised=%s but the source says %s "
                           "(a concurrent run against another repository path keeps regenerating gen/C07Flags.v)"
                           % (model_flag, want)), no_input=True)
        return
    ok, log = vlib.cargo_build(["c07"])
    if not ok:
        res.violation(dict(kind="broken-tie", what="harness does not build against the repository", log=log[-3000:]),
                      no_input=True)
        return
    rd = os.path.join(vlib.BUILD, "c07", "run"); os.makedirs(rd, exist_ok=True)
    cases_p, impl_p, model_p = (os.path.join(rd, x) for x in ("cases.txt", "impl.txt", "model.txt"))
    extra = ""
    if replay:
        rp = json.load(open(replay))
        lines = rp.get("cases") or [rp.get("case", "")]
        open(os.path.join(rd, "replay_in.txt"), "w").write("\n".join(lines) + "\n")
        extra = " " + os.path.join(rd, "replay_in.txt")
    rc, out = vlib.sh(f"{vlib.hbin('c07')} {tier} {seed} {cases_p} {impl_p}{extra}", timeout=3000)
    if rc != 0:
        res.violation(dict(kind="machinery-error", what="harness run failed", log=out[-3000:]), no_input=True)
        return
    corpus = os.path.join(vlib.ROOT, "corpus", PID, "cases.txt")
    if os.path.exists(corpus) and not replay:
        rc, out = vlib.sh(f"{vlib.hbin('c07')} {tier} {seed} {cases_p}.c {impl_p}.c {corpus}")
        for a, b in ((cases_p, cases_p + ".c"), (impl_p, impl_p + ".c")):
            body = open(b).read() + open(a).read(); open(a, "w").write(body)
    rc, out = vlib.sh(f"{os.path.join(vlib.BUILD, 'c07', 'driver')} < {cases_p} > {model_p}", timeout=3000)
    ref_p = os.path.join(rd, "ref.txt")
    ok, log = vlib.cargo_build(["c07ref"])
    rc2 = 1
    if ok:
        rc2, out2 = vlib.sh(f"{vlib.hbin('c07ref')} {cases_p} {ref_p}", timeout=3000)
    cases = open(cases_p).read().split("\n")[:-1]
    impl = open(impl_p).read().split("\n")[:-1]
    model = open(model_p).read().split("\n")[:-1]
    assert len(cases) == len(impl) == len(model), (len(cases), len(impl), len(model))
    ref = open(ref_p).read().split("\n")[:-1] if rc2 == 0 else ["-"] * len(cases)
    if len(ref) != len(cases):
        ref = ["-"] * len(cases)

    kinds = {}
    disagreements = []       # implementation vs model (observation incl. error class)
    prop_fail = []           # implementation vs specification predicate
    nontrivial = set()
    verdict = {}             # (side a, side b) -> accepted?   for pair cases (separate collections)
    spec_defined = 0
    diag_changed = 0
    accepted_nonidentical = []
    for c, i, m in zip(cases, impl, model):
        k = c.split("\t", 1)[0]
        kinds[k] = kinds.get(k, 0) + 1
        mf = m.split("\t")
        if k in ("pair", "same"):
            if i != mf[0]:
                disagreements.append((c, i, m))
            a, b = sides(c)
            acc = i == "ok"
            if mf[1] in ("0", "1"):
                spec_defined += 1
                if acc != (mf[1] == "1"):
                    prop_fail.append((c, i, m, "verdict differs from the component-model subtype relation "
                                               "(resource-free kinds): checker %s, specification %s"
                                      % ("accepts" if acc else "rejects", "accepts" if mf[1] == "1" else "rejects")))
            if k == "pair":
                verdict[(a, b)] = acc
                if a == b and not acc:
                    prop_fail.append((c, i, m, "not reflexive across independently built copies of the same type"))
            if a != b and (acc or not top_level_mismatch(i)):
                nontrivial.add(c)
                if acc and len(accepted_nonidentical) < 2:
                    accepted_nonidentical.append(c)
        elif k == "memo":
            fi = i.split("\t")
            if len(fi) != 2 or fi[0] != mf[0] or fi[1] != mf[1]:
                disagreements.append((c, i, m))
            if len(fi) == 2:
                seq = split_obs(fi[0])
                last, fresh = seq[-1], fi[1]
                if (last == "ok") != (fresh == "ok"):
                    prop_fail.append((c, i, m, "verdict changed by earlier checks sharing the memo: %s after the "
                                               "history, %s on a fresh checker" % (last, fresh)))
                elif last != fresh:
                    diag_changed += 1
                if mf[2] in ("0", "1"):
                    spec_defined += 1
                    if (fresh == "ok") != (mf[2] == "1"):
                        prop_fail.append((c, i, m, "verdict differs from the component-model subtype relation"))
                if len(seq) > 1:
                    nontrivial.add(c)
        else:
            disagreements.append((c, i, m))

    # transitivity on the implementation's own verdicts (all triples whose three pairs were explored)
    succ = {}
    for (a, b), acc in verdict.items():
        if acc:
            succ.setdefault(a, []).append(b)
    triples = 0
    for a, bs in succ.items():
        for b in bs:
            for c2 in succ.get(b, ()):
                if (a, c2) in verdict:
                    triples += 1
                    if not verdict[(a, c2)]:
                        prop_fail.append(("pair\t%s\t%s\t%s\t%s" % (a + c2), "rejected", "",
                                          "not transitive: a<:b and b<:c accepted, a<:c rejected; b = %s %s" % b))

    samples = [c.split("\t") for c in accepted_nonidentical] + [c.split("\t") for c in sorted(nontrivial)[:2]]
    samples = [[x if len(x) < 300 else x[:300] + "..." for x in s] for s in samples] or [cases[0].split("\t")]
    n_univ = len({a for (a, b) in verdict if a == b})
    res.coverage.update(dict(
        correspondence_cases=len(cases), case_kinds=kinds, disagreements=len(disagreements),
        spec_failures_on_impl_incl_known=len(prop_fail), spec_evaluated_on=spec_defined, transitivity_triples=triples,
        diagnostic_class_changed_after_failed_check=diag_changed,
        distinct_nontrivial=len(nontrivial), evaluations=len(cases), reflexive_copy_cases=n_univ,
        exhaustive=(tier == "thorough"),
        rule="pair: ordered pairs of the depth<=2 universe (355 kinds; %d reflexive-copy cases incl. random ones: all primitives, list/option/fixed list/tuple/"
             "result arms/record/variant/enum/flags/stream/future/alias chains/own/borrow, functions with renames, "
             "arity, async, results; instances and components with width/depth variations; core modules with limit/flag "
             "variations), each side built in its own Types (quick: diagonal + all pairs differing in one position + "
             "15k seeded; thorough: all); same: both kinds in one Types with shared identifiers; random deeper types "
             "with one-position mutants in both directions; memo: every order of <=2 (thorough <=3) preceding checks "
             "from 16 over 12 kinds on ONE checker, then 52 probes, plus longer random histories. "
             "non-trivial = distinct case whose two sides differ and whose verdict is accept or a rejection below "
             "the top-level item-kind mismatch; memo case with at least one preceding check" % n_univ,
        samples=samples,
        trusted_base=vlib.TRUSTED_COMMON + [
            "models Types.v (component.rs/core.rs arenas) and Checker.v (checker.rs) are hand-written; tied by this correspondence "
            "(observation = Ok / error class of the root cause, classified from the fixed words of the format strings)",
            "SubSpec.v is the specification (declarative rules + decision procedure sub_b proved equivalent); "
            "its agreement with wasmparser's is_subtype_of is sampled, not proved",
            "id_arena / indexmap semantics (identifier equality includes the arena; IndexMap keeps insertion order, unique keys) are modelled"]))
    res.assumptions = [
        "type collections are acyclic and closed (always true when built through add_*; IndexMut can break it)",
        "two collections with the same arena tag are the same collection (no diverged Clone)",
        "resource half of the property is out of model scope (see CLAIM.note)"]

    # specification vs the reference validator (validates the specification, not the model)
    ref_agree, ref_dis, ref_known, ref_invalid = 0, [], {}, 0
    for c, m, r in zip(cases, model, ref):
        if r.startswith("invalid"):
            ref_invalid += 1
        if r not in ("0", "1"):
            continue
        sp = m.split("\t")[-1]
        if sp not in ("0", "1"):
            continue
        if sp == r:
            ref_agree += 1
            continue
        # documented leniencies of wasmparser 0.247's core matching (the specification follows the core proposals):
        # it does not compare the table64 flag of tables nor the shared flag of globals
        f = c.split("\t")
        a, b = (f[1], f[3]) if f[0] == "pair" else tuple((f[1].split(" ; ") + ["", ""])[:2])

        def lenient_flags(txt):
            t = txt.split(" ")
            out = []
            for k, x in enumerate(t):
                if x == "table" and k + 5 < len(t) + 1:
                    out.append(("table64", t[k + 4]))
                if x == "global" and k + 3 < len(t) + 1:
                    out.append(("global-shared", t[k + 3]))
            return out
        fa, fb = lenient_flags(a), lenient_flags(b)
        cat = None
        if r == "1" and len(fa) == len(fb):
            for (ka, va), (kb, vb) in zip(fa, fb):
                if ka == kb and va != vb:
                    cat = "reference ignores table64" if ka == "table64" else "reference ignores shared on globals"
        if cat:
            ref_known[cat] = ref_known.get(cat, 0) + 1
        else:
            ref_dis.append((c, sp, r))
    res.coverage.update(dict(spec_vs_reference=dict(
        asked=ref_agree + len(ref_dis) + sum(ref_known.values()), agree=ref_agree, disagree=len(ref_dis),
        documented_reference_leniencies=ref_known, encodings_rejected_by_reference=ref_invalid,
        how="both kinds as the types of two imports of ONE component (WAT via the wat crate), validated by wasmparser, "
            "then ComponentEntityType::is_subtype_of on the validator's own types; resource-free pair/same cases only")))

    # known findings: a failing case whose narrow signature matches a listed entry is reported, not alarmed
    known = [e for e in (vlib.load_known(PID) + PROPOSED_KNOWN) if e.get("status") == "known"]
    known_sigs = {e["signature"].split(":")[0]: e for e in known}
    hits = {}
    remaining = []
    for c, i, m, why in prop_fail:
        sig = signature_of(i.split("\t")[-1], m.split("\t")[-1], why)
        if sig in known_sigs:
            hits.setdefault(sig, []).append(c)
        else:
            remaining.append((c, i, m, why))
    for sig, cs in hits.items():
        e = known_sigs[sig]
        res.known.append("id=%s cases=%d witness=%r %s" % (e["id"], len(cs), cs[0], e["text"]))
    res.coverage["known_finding_cases"] = {k: len(v) for k, v in hits.items()}
    res.coverage["spec_failures_on_impl"] = len(remaining)
    # the same narrow class is the only place where the model is allowed to differ from a REPAIRED implementation
    prop_fail = remaining

    for c, i, m, why in prop_fail[:5]:
        res.violation(dict(kind="property-fails-on-implementation", what=why, case=c, fields=c.split("\t"),
                           implementation=i, model_and_spec=m))
    if not prop_fail and ref_dis:
        c, sp, r = ref_dis[0]
        res.violation(dict(kind="specification-vs-reference", what="the specification SubSpec.v and wasmparser's "
                           "is_subtype_of disagree on a resource-free pair outside the documented leniencies",
                           case=c, fields=c.split("\t"), specification=sp, reference=r, n=len(ref_dis)), no_input=True)
    if not prop_fail:
        if disagreements:
            c, i, m = disagreements[0]
            res.violation(dict(kind="correspondence-broken",
                               what="model and implementation differ; the specification predicate still holds on every "
                                    "implementation observation of this run",
                               correspondence="Checker.v/Types.v vs checker.rs", case=c, fields=c.split("\t"),
                               implementation=i, model=m, n=len(disagreements)), no_input=True)
        if res.proof_broken:
            res.violation(res.proof_broken, no_input=True)
