"""C11: a `targets` verdict means the output really conforms to the world."""
import json
import os
import vlib

PID = "C11"

CLAIM = dict(
    text="Machine-checked Coq theorems (16) over executable models of both target checks (resolution.rs "
         "AstResolver::validate_target; targets.rs validate_target: semver-aware NameMap with shadowing, three-set "
         "report): each verdict and each diagnostic is characterised by a declarative conformance relation (imports "
         "within world imports + used interfaces at satisfying types, every world export provided at a conforming "
         "type; exact or semver name discipline); the stand-alone check never panics; the two verdicts provably "
         "coincide on every well-formed pair for the repaired (semver-aware) resolution check and provably differed "
         "before the repair (refuted with a witness; fixed in the repository). With the subtype oracle INSTANTIATED by "
         "the checker model of C07 (one collection, ItemKind::promote, one checker threaded through both loops with "
         "its memo, invert/revert and the import_spans index sites): the threaded model never panics under the "
         "resolver's span invariant and equals the abstract model; for resource-free pairs the resolution verdict is Ok "
         "iff the composition's component type is a component-model subtype (SubCM) of the world's with names matched "
         "up to the semver discipline, and literally SubCM of the two component types when no two names share a track. "
         "Every executable specification function evaluated on implementation observations (conforms_b, spec_first, "
         "the set printers) is proved equal to its declarative form. Tied to the code on every run by generated "
         "(world, composition) pairs with three real verdicts per pair (Document::resolve, validate_target on the "
         "encoded output, wasmparser component subtyping through wit_component::targets) plus the import/export names "
         "read back from the binary, by synthetic worlds through the public validate_target API, and by a "
         "source-text tie for the span bookkeeping.",
    design_ref="DESIGN.md §5 C11, §7 item 9",
    note="Trusted: Coq kernel; extraction; OCaml driver; Rust harness (WIT/WAC generators, abstract-description "
         "dump, subtype table computed with the real SubtypeChecker per pair); models in Targets.v/TargetsChecker.v "
         "hand-written; Targets.v validated by correspondence, TargetsChecker.v (threaded checker) related to it by "
         "proof and to the code through C07's correspondence of Checker.v. Remaining hypotheses of the component-"
         "subtyping theorem: wf_types (C07), pages_ok (C07's known memory-default-page-size scope), one kind per "
         "name, no dangling identifiers (fuel then exists: fuel_suffices), resource-free kinds. The invariant "
         "spans_cover (every explicit import node has a span) is not derived from a resolver model (C04's Resolver.v "
         "leaves spans out); it is tied to the source text on every run. Interpretation: the reference validator "
         "compares names literally, so its verdict is compared with the target verdicts up to semver-compatible names.",
    technique="Coq proof (first-failure scans, NameMap invariant under shadowing inserts, trichotomy of failure "
              "classes, transport along unfold to SubSpec trees, C07 memo/variance theorems) + extracted-model "
              "correspondence on generated WIT worlds / WAC compositions")

# Findings proposed by this check; the main session moves them to /verif/known-findings.json.
PROPOSED_KNOWN = [dict(
    property="C11", id="targets-resolution-exact-names", status="known",
    signature="resolution-time check uses exact names, stand-alone check is semver-aware: verdicts differ only when "
              "composition and world name the same interface at different versions on one track",
    witness="world t:w/w { import x:y/z@0.2.1; export run: func(); } ; package c:d targets t:w/w; "
            "let i0 = new p:a { ... }; export i0...;  with p:a importing x:y/z@0.2.0 (same interface body)",
    text="a composition importing x:y/z@0.2.0 against a world importing x:y/z@0.2.1 is rejected during resolution "
         "(ImportNotInTarget / MissingTargetExport on the export side) while `wac targets` on the encoded output "
         "accepts it: AstResolver::validate_target looks names up exactly, wac_types::validate_target through the "
         "semver-aware NameMap")]

PROPOSED_KNOWN.append(dict(
    property="C11", id="targets-local-world-exported-uses", status="known",
    signature="world declared in the WAC document exports an interface that uses a type of another interface: "
              "World::implicit_imported_interfaces walks only the world's own uses and those of its IMPORTED interfaces, "
              "so the used interface is not an import of the world and resolution rejects the (unavoidable) import "
              "with ImportNotInTarget; the same world written in WIT has that import and both the stand-alone check "
              "and the reference validator accept",
    witness="package c:d targets c:d/w; world w { export x:y/out; } let i0 = new p:a { ... }; export i0...;  with "
            "x:y/out = interface { use types.{rec}; run: func() -> u32; mk: func() -> rec; } and p:a exporting x:y/out",
    text="a world declared in the document that exports an interface using types of another interface cannot be "
         "targeted: the composition has to import the used interface (x:y/types) and resolution reports "
         "ImportNotInTarget, while `wac targets` against the same world written in WIT accepts the output"))

# id -> indexes of the fixed witnesses in the harness's case list
KNOWN_CLASSES = {"targets-resolution-exact-names": (0, 1), "targets-local-world-exported-uses": (2,)}


def resolution_variant():
    """Which lookups does AstResolver::validate_target of the tree under test use?  (ties the model variant to the
    source: 'exact' = resolve_target, 'semver' = resolve_target_sv, the code after fix-c11-semver-targets.patch)"""
    src = open(os.path.join(vlib.REPO, "crates", "wac-parser", "src", "resolution.rs")).read()
    body = src[src.rindex("fn validate_target("):]
    if "implicit_imported_interfaces" in body and ".get_export(name)" in body and "NameMapNoIntern" not in body:
        return "exact"
    if "all_imports" in body and "NameMapNoIntern" in body and ".get_export(name)" not in body:
        return "semver"
    return "unknown"


def span_bookkeeping_tie():
    """Source-text tie for the invariant [spans_cover] of resolve_target_full_never_panics: explicit import nodes
    are created at one place of resolution.rs, which records the span right away; nodes are never removed by the
    resolver; CompositionGraph::imports() attaches a node only to NodeKind::Import entries.  Returns a list of
    problems (empty = tie holds)."""
    import re
    bad = []
    src = open(os.path.join(vlib.REPO, "crates", "wac-parser", "src", "resolution.rs")).read()
    calls = [m.start() for m in re.finditer(r"\.\s*import\(", src)]
    if len(calls) != 1:
        bad.append("expected exactly one graph.import(..) call in resolution.rs, found %d" % len(calls))
    else:
        tail = src[calls[0]:calls[0] + 400]
        if "state.import_spans.insert(node, span);" not in tail:
            bad.append("the graph.import(..) call is not followed by state.import_spans.insert(node, span)")
    for needle in ("remove_node(", "import_spans.remove", "unregister_package("):
        if needle in src:
            bad.append("resolution.rs mentions %s" % needle)
    body = src[src.rindex("fn validate_target("):]
    if body.count("state.import_spans[&n]") != 2 or "export_spans[" in body:
        bad.append("validate_target indexes the span maps at other places than the two modelled ones")
    g = open(os.path.join(vlib.REPO, "crates", "wac-graph", "src", "graph.rs")).read()
    i = g.index("pub fn imports(&self)")
    gb = g[i:i + 1600]
    if gb.count("Some(n)") != 1 or "NodeKind::Import(name) = &node.kind" not in gb:
        bad.append("CompositionGraph::imports() no longer attaches nodes to NodeKind::Import entries only")
    return bad


def dec(s):
    return "" if s in ("-", "") else "".join(chr(int(x)) for x in s.split(","))


def names(s):
    return [dec(x) for x in s.split(";")] if s else []


def parse_model(m):
    if m in ("NA", "SKIP") or m.startswith("BAD") or m.startswith("DRIVER-EXN"):
        return None
    d = {}
    for f in m.split("&"):
        k, v = f.split("=", 1)
        d[k] = v
    return d


def parse_report(v):
    """-> None (not a report) | dict(ok, nit:set, miss:set, mm:dict name->I/E)"""
    if v == "OK":
        return dict(ok=True, nit=set(), miss=set(), mm={})
    if not v.startswith("ERR "):
        return None
    parts = dict(p.split("=", 1) for p in v[4:].split("|"))
    mm = {}
    for e in (parts["mm"].split(";") if parts["mm"] else []):
        n, k = e.rsplit("/", 1)
        mm[dec(n)] = k
    return dict(ok=False, nit=set(names(parts["nit"])), miss=set(names(parts["miss"])), mm=mm)


def parse_sets(v):
    parts = dict(p.split("=", 1) for p in v.split("|"))
    return set(names(parts["nit"])), set(names(parts["miss"])), set(names(parts["mm"]))


def parse_first(v):
    """-> ('OK', None) | (class, name) | None"""
    if v == "OK":
        return ("OK", None)
    for c in ("INT", "MTE", "TMI", "TME"):
        if v.startswith(c + ":"):
            return (c, dec(v[4:]))
    return None


def desc_names(fields):
    """names in an abstract description (7 fields)"""
    def nm(f):
        return [dec(e.split(":")[0]) for e in f.split(";")] if f else []
    return dict(implicit=nm(fields[0]), wimports=nm(fields[1]), wexports=nm(fields[2]), cimports=nm(fields[3]),
                cexports=nm(fields[4]))


def agree(first, rep, compat):
    """same verdict: both accept, or the diagnostic's class contains its name in the report -- the name up to
    semver compatibility, because the encoder merges semver-compatible imports of several instantiations into one
    import carrying the highest version (C09), so the output may know the graph's `x:y/q@0.2.0` as `x:y/q@0.2.1`"""
    cls, n = first
    if cls == "OK":
        return rep["ok"]
    pool = rep["nit"] if cls == "INT" else rep["miss"] if cls == "MTE" else rep["mm"]
    return any(x == n or compat[(n, x)] for x in pool)


def pretty_case(recipe, src):
    out = dict(recipe=recipe)
    if src:
        out["sources"] = src
    return out


def run(res, tier, seed, replay):
    pr = vlib.proof_stage(res, PID)
    ok, log = vlib.ensure_extraction("c11", "theories/extract/ExtractC11.v")
    if not ok:
        res.violation(dict(kind="machinery-error", what="extraction/driver build failed", log=log[-3000:]), no_input=True)
        return
    ok, log = vlib.cargo_build(["c11"])
    if not ok:
        res.violation(dict(kind="broken-tie", what="harness does not build against the repository", log=log[-3000:]),
                      no_input=True)
        return
    # a private scratch directory per invocation: concurrent ./check C11 runs must not clobber each other's files
    import atexit
    import shutil
    rd = os.path.join(vlib.BUILD, "c11", "run", str(os.getpid()))
    os.makedirs(rd, exist_ok=True)
    atexit.register(shutil.rmtree, rd, True)
    cases_p, impl_p, model_p = (os.path.join(rd, x) for x in ("cases.txt", "impl.txt", "model.txt"))
    extra = ""
    if replay:
        rp = json.load(open(replay))
        rcs = rp.get("recipes") or ([rp["case"]["recipe"]] if "case" in rp else [])
        with open(os.path.join(rd, "replay_in.jsonl"), "w") as f:
            for r in rcs:
                f.write(json.dumps(r) + "\n")
        extra = " " + os.path.join(rd, "replay_in.jsonl")
    corpus = os.path.join(vlib.ROOT, "corpus", PID, "recipes.jsonl")
    if not replay and os.path.exists(corpus):
        extra = " - " + corpus     # regression recipes run right after the built-in witnesses
    rc, out = vlib.sh(f"{vlib.hbin('c11')} {tier} {seed} {cases_p} {impl_p}{extra}", timeout=3000)
    if rc != 0:
        res.violation(dict(kind="machinery-error", what="harness run failed", log=out[-3000:]), no_input=True)
        return
    driver = os.path.join(vlib.BUILD, "c11", "driver")
    rc, out = vlib.sh(f"{driver} < {cases_p} > {model_p}", timeout=3000)
    cases = open(cases_p).read().split("\n")[:-1]
    impl = open(impl_p).read().split("\n")[:-1]
    model = open(model_p).read().split("\n")[:-1]
    recipes = open(cases_p + ".recipes").read().split("\n")[:-1]
    srcs = open(cases_p + ".src").read().split("\n")[:-1]
    assert len(cases) == len(impl) == len(model) == len(recipes) == len(srcs), (len(cases), len(impl), len(model))

    variant = resolution_variant()
    akey = dict(exact="A", semver="A2").get(variant)
    if akey is None:
        res.violation(dict(kind="broken-tie", what="AstResolver::validate_target has a shape neither model variant "
                           "(resolve_target / resolve_target_sv) was written for"), no_input=True)
        akey = "A"
    tie = span_bookkeeping_tie()
    if tie:
        res.violation(dict(kind="broken-tie", what="the span bookkeeping assumed by resolve_target_full_never_panics "
                           "(spans_cover) is no longer visible in the source", problems=tie), no_input=True)
    disagreements = []     # model vs implementation
    prop_fail = []         # specification predicate fails on an implementation observation
    stats = dict(pairs=0, api=0, skipped=0, no_output=0, verdict_i={}, verdict_ii={}, perturbation={},
                 ref_subtyping_checked=0, ref_semver_relaxed=0, binary_checked=0, descriptions_equal=0,
                 wf_failures=0, semver_answered=0)
    nontrivial = set()
    samples = []

    def case_of(idx):
        return pretty_case(json.loads(recipes[idx]), json.loads(srcs[idx]))

    # pass 1: every pair of names whose semver compatibility the predicates below may ask about, answered by the
    # extracted [compat] (Names.v, proved equal to the track relation in C15)
    queries = set()
    for c, i in zip(cases, impl):
        cf = c.split("\t")
        if cf[0] != "pair":
            continue
        dn = desc_names(cf[1:8])
        for n in dn["cimports"]:
            for x in dn["implicit"] + dn["wimports"]:
                queries.add((n, x))
        for n in dn["wexports"]:
            for x in dn["cexports"]:
                queries.add((n, x))
        f = i.split("\t")
        if len(f) == 5:
            queries |= {(n, x) for n in dn["cimports"] for x in names(f[4].split("|")[0])}
            fst, rp = parse_first(f[0]), parse_report(f[1])
            if fst and rp and fst[1] is not None:
                queries |= {(fst[1], x) for x in rp["nit"] | rp["miss"] | set(rp["mm"])}
        if len(f) == 5 and "|" in f[3] and not f[3].startswith("NOENC"):
            bi, be = (names(x) for x in f[3].split("|"))
            wi, we = (names(x) for x in f[4].split("|"))
            queries |= {(n, x) for n in bi for x in wi} | {(n, x) for n in we for x in be}
    compat = {}
    if queries:
        def enc(s):
            return ",".join(str(ord(ch)) for ch in s) or "-"
        qs = sorted(queries)
        qin = "".join("compat\t%s\t%s\n" % (enc(a), enc(b)) for a, b in qs)
        rc, out = vlib.sh(driver, stdin=qin.encode())
        outs = out.split("\n")
        assert len(outs) >= len(qs), "compat driver output short"
        for q, o in zip(qs, outs):
            compat[q] = (o == "1")

    def only_by_semver(n, table):
        """n has no identical counterpart in table but a different, semver-compatible one"""
        return n not in table and any(x != n and compat[(n, x)] for x in table)

    known_hits = {}
    known_witness_fails = set()
    for idx, (c, i, m) in enumerate(zip(cases, impl, model)):
        cf = c.split("\t")
        fam = cf[0]
        if fam == "skip":
            stats["skipped"] += 1
            continue
        if fam == "api":
            stats["api"] += 1
            M = parse_model(m)
            rep = parse_report(i)
            if M is None or rep is None:
                disagreements.append((idx, "api: unreadable observation", i, m))
                continue
            if parse_report(M["B"]) != rep:
                disagreements.append((idx, "stand-alone model (Targets.v standalone_target) vs wac_types::validate_target", i, m))
            if M["WF"] == "1":
                nit, miss, mm = parse_sets(M["SS"])
                if (rep["nit"], rep["miss"], set(rep["mm"])) != (nit, miss, mm) or rep["ok"] != (M["CS"] == "1"):
                    prop_fail.append((idx, "stand-alone report differs from the three failure classes of "
                                           "semver conformance", i, m))
            else:
                stats["wf_failures"] += 1
            dn = desc_names(cf[1:8])
            if (dn["wimports"] or dn["wexports"] or dn["implicit"]) and (dn["cimports"] or dn["cexports"]):
                nontrivial.add(c)
            if M["CS"] != M["CE"]:
                stats["semver_answered"] += 1
            continue
        # pair
        stats["pairs"] += 1
        f = i.split("\t")
        v1, v2, v3, binobs, wnames = f
        rcp = json.loads(recipes[idx])["Pair"]
        stats["perturbation"][rcp["perturbation"]] = stats["perturbation"].get(rcp["perturbation"], 0) + 1
        mm_ = m.split("\t")
        M1, M2 = parse_model(mm_[0]), (parse_model(mm_[1]) if len(mm_) > 1 else None)
        first = parse_first(v1)
        k1 = v1.split(":")[0]
        stats["verdict_i"][k1] = stats["verdict_i"].get(k1, 0) + 1
        k2 = v2.split(" ")[0].split(":")[0]
        stats["verdict_ii"][k2] = stats["verdict_ii"].get(k2, 0) + 1
        if M1 is None or first is None:
            disagreements.append((idx, "resolution verdict is not a target verdict (or description missing)", i, m))
            continue
        d1n = desc_names(cf[1:8])
        if (d1n["wimports"] or d1n["wexports"]) and (d1n["cimports"] or d1n["cexports"]):
            nontrivial.add(c)
        wtable = d1n["implicit"] + d1n["wimports"]
        # names of the pair that match only through semver compatibility
        sem_imports = [n for n in d1n["cimports"] if only_by_semver(n, wtable)]
        sem_exports = [n for n in d1n["wexports"] if only_by_semver(n, d1n["cexports"])]
        # (a) correspondence of the resolution-time model
        if M1[akey] != v1:
            disagreements.append((idx, "resolution model (Targets.v %s) vs Document::resolve"
                                  % ("resolve_target" if akey == "A" else "resolve_target_sv"), i, m))
        # (i) Ok => the encoded output really imports within the world and exports every world export
        # (names up to semver compatibility, which is what either check may accept)
        if v1 == "OK" and binobs != "-" and not binobs.startswith("NOENC"):
            bi, be = (names(x) for x in binobs.split("|"))
            wi, we = (names(x) for x in wnames.split("|"))
            stats["binary_checked"] += 1
            bad_i = [n for n in bi if n not in wi and not any(compat[(n, x)] for x in wi)]
            bad_e = [n for n in we if n not in be and not any(compat[(n, x)] for x in be)]
            if bad_i or bad_e:
                prop_fail.append((idx, "resolution accepted the document but the encoded component imports %s outside "
                                       "the world / lacks exports %s" % (bad_i, bad_e), i, m))
        rep = parse_report(v2)
        # (i) against the specification.  The resolution-time verdict must be the exact-name conformance, except on
        # the semver class where it may be the semver conformance instead (the stand-alone reading); which of the
        # two it is decides below whether the two implementations agree.
        if M1["WF"] == "1":
            exact_ok = (M1["SE"] == v1 and (v1 == "OK") == (M1["CE"] == "1"))
            semver_ok = (M1["SF"] == v1 and (v1 == "OK") == (M1["CS"] == "1"))
            if not exact_ok and not (semver_ok and (sem_imports or sem_exports)):
                prop_fail.append((idx, "resolution verdict is neither the exact-name nor the semver conformance verdict "
                                       "(exact specification: %s, conforms exact/semver: %s/%s)"
                                  % (M1["SE"], M1["CE"], M1["CS"]), i, m))
        else:
            stats["wf_failures"] += 1
        if rep is None:
            stats["no_output"] += 1      # composition does not encode (import conflicts etc.): nothing to compare
            continue
        if M2 is None:
            disagreements.append((idx, "description of the encoded output missing", i, m))
            continue
        # (b) correspondence of the stand-alone model on the encoded output
        if parse_report(M2["B"]) != rep:
            disagreements.append((idx, "stand-alone model (Targets.v standalone_target) vs wac_types::validate_target "
                                       "on the encoded output", i, m))
        if M2["WF"] == "1":
            nit, miss, mmn = parse_sets(M2["SS"])
            if (rep["nit"], rep["miss"], set(rep["mm"])) != (nit, miss, mmn) or rep["ok"] != (M2["CS"] == "1"):
                prop_fail.append((idx, "stand-alone report differs from the three failure classes of semver "
                                       "conformance", i, m))
        if cf[1:8] == cf[8:15]:
            stats["descriptions_equal"] += 1
        # (iii) reference validator (all generated worlds are resource-free).  The component-model relation compares
        # names literally: literal subtyping implies acceptance by both checks; acceptance implies literal subtyping
        # unless a name of the pair matches only through semver compatibility.
        if v3 in ("0", "1"):
            stats["ref_subtyping_checked"] += 1
            if v3 == "1" and not rep["ok"]:
                prop_fail.append((idx, "the reference validator accepts output <: world but the stand-alone check "
                                       "rejects (%s)" % v2[:200], i, m))
            if v3 == "1" and v1 != "OK" and rep["ok"]:
                pass    # (i) differs from (ii) as well: classified below
            elif v3 == "1" and v1 != "OK":
                prop_fail.append((idx, "the reference validator accepts output <: world but resolution rejects (%s)"
                                  % v1, i, m))
            if v3 == "0" and v1 == "OK":
                if sem_imports or sem_exports:
                    stats["ref_semver_relaxed"] += 1
                else:
                    prop_fail.append((idx, "resolution accepts but the reference validator rejects output <: world, and "
                                           "no name of the pair matches only through semver compatibility", i, m))
        elif v3 == "PANIC":
            disagreements.append((idx, "wit_component::targets panicked", i, m))
        # (i) against (ii)
        if not agree(first, rep, compat):
            cls, n = first
            wit_imports = names(wnames.split("|")[0])
            kid = None
            if (cls == "INT" and n in sem_imports) or (cls == "MTE" and n in sem_exports):
                # narrow signature 1: resolution reports a name as absent although a different version on the same
                # track is present on the other side; the stand-alone check does not report the name in that class
                kid = "targets-resolution-exact-names"
            elif (cls == "INT" and rcp.get("local_world") and n not in wtable
                  and not any(compat[(n, x)] for x in wtable)
                  and any(x == n or compat[(n, x)] for x in wit_imports)):
                # narrow signature 2: the world is declared in the document; wit-parser's reading of the same world
                # imports the name or a semver-compatible one (an interface used by an exported interface), wac's
                # reading has no such import at all
                kid = "targets-local-world-exported-uses"
            if kid:
                known_hits.setdefault(kid, []).append(idx)
                if idx in KNOWN_CLASSES[kid] and not replay:
                    known_witness_fails.add(kid)
            else:
                prop_fail.append((idx, "resolution-time and stand-alone verdicts differ (resolution: %s, stand-alone: "
                                       "%s) and the difference is not a known class" % (v1, v2[:200]), i, m))
        if len(samples) < 4 and rcp["perturbation"] != "none" and idx > 30:
            samples.append(dict(perturbation=rcp["perturbation"], document=json.loads(srcs[idx])["document"],
                                world=json.loads(srcs[idx])["world_wit"][-1][1], resolution=v1,
                                standalone=v2 if v2 == "OK" else "ERR", reference_subtype=v3))

    listed = {e.get("id"): e for e in vlib.load_known(PID)}
    proposed = {e["id"]: e for e in PROPOSED_KNOWN}
    for kid, hits in known_hits.items():
        entry = listed.get(kid) or proposed[kid]
        idx = hits[0]
        if entry.get("status") == "known":
            if kid in known_witness_fails or replay:
                res.known.append("%s: %s [witness replayed: still fails; %d generated pairs of this class in this run]"
                                 % (entry["id"], entry["text"], len(hits)))
            else:
                # the fixed witnesses pass but other members of the class fail: not covered by the entry
                prop_fail.append((idx, "verdicts differ in the class of finding %s although its witness passes" % kid,
                                  impl[idx], model[idx]))
        else:
            prop_fail.append((idx, "resolution-time and stand-alone verdicts differ (class of finding %s, which is "
                                   "marked %s)" % (kid, entry.get("status")), impl[idx], model[idx]))

    fail_tags = {}
    for idx, _w, _i, _m in prop_fail:
        rj = json.loads(recipes[idx])
        t = rj["Pair"]["perturbation"] if "Pair" in rj else "api"
        fail_tags[t] = fail_tags.get(t, 0) + 1
    res.coverage.update(dict(
        spec_failure_tags=fail_tags,
        correspondence_cases=len(cases) - stats["skipped"], disagreements=len(disagreements),
        spec_failures_on_impl=len(prop_fail), evaluations=len(cases), distinct_nontrivial=len(nontrivial),
        known_class_pairs={k: len(v) for k, v in known_hits.items()}, stats=stats,
        resolution_model_variant=variant,
        rule="pair family: random WIT world (0-3 imports among versioned interfaces x:y/z, x:y/q, a:b/c with four "
             "bodies each, plain functions, `use x:y/types.{rec}`; 0-2 exports) encoded with wit_component::encode; "
             "composition = WAC document `package c:d targets t:w/w; let iN = new p:x {...}; export iN...;` over one or "
             "two components built from WIT worlds (dummy module + ComponentEncoder), conforming or perturbed by 0-2 of: "
             "extra import (unused explicit import / extra function / extra interface), missing export, body or signature "
             "change of an import / export, version change of an import / export on the same or another track; some "
             "imports passed as explicit `import` statements. Three verdicts: Document::resolve with the clause, "
             "validate_target on the encoding of the same document without the clause, wit_component::targets "
             "(wasmparser subtyping). api family: worlds built in a Types value (used interfaces absent from the explicit "
             "imports, several versions per track, pre-release and 0.0.x names, type-level items that promote) through "
             "wac_types::validate_target. non-trivial = distinct abstract description with a non-empty world side and a "
             "non-empty composition side",
        samples=samples[:4] + [dict(api_case=json.loads(recipes[-1]), observation=impl[-1][:300])],
        trusted_base=vlib.TRUSTED_COMMON + [
            "model Targets.v (resolution.rs validate_target, targets.rs validate_target/all_imports) hand-written; tied by this correspondence",
            "subtype oracle: SubtypeChecker::is_subtype evaluated by the harness on every ordered pair of kinds of a case "
            "(fresh checker per query); promote table from ItemKind::promote (property C07 is about the checker)",
            "abstract description of the composition read through CompositionGraph::imports()/get_export (graph) and "
            "Package::from_bytes (encoded output); World::implicit_imported_interfaces is called, not modelled",
            "wit-parser / wit-component (WIT encoding, dummy modules, wit_component::targets) and wasmparser as reference",
            "C07's development (Checker.v model of SubtypeChecker, SubSpec.v, CheckerTheorems.v) is imported by the "
            "oracle-free theorems; its tie to checker.rs is C07's correspondence",
            "span bookkeeping invariant (spans_cover) tied to resolution.rs / graph.rs by a source-text check, not by a "
            "resolver model"]))
    res.assumptions = [
        "tables are consistent (one kind per name); measured: %d descriptions violated it and were excluded from the "
        "specification predicate (correspondence still checked)" % stats["wf_failures"],
        "all generated WIT worlds are resource-free",
        "checker invert()/revert() affect message wording only (argument order carries the variance)"]

    def payload(idx, why, i, m, kind):
        return dict(kind=kind, what=why, case=case_of(idx), recipes=[json.loads(recipes[idx])],
                    abstract_description=cases[idx][:4000], implementation=i[:2000], model_and_spec=m[:2000])

    for idx, why, i, m in prop_fail[:5]:
        res.violation(payload(idx, why, i, m, "property-fails-on-implementation"))
    if not prop_fail:
        if disagreements:
            idx, why, i, m = disagreements[0]
            p = payload(idx, "model and implementation differ (%s); the specification predicate still holds on every "
                             "implementation observation of this run" % why, i, m, "correspondence-broken")
            p["n"] = len(disagreements)
            res.violation(p, no_input=True)
        if res.proof_broken:
            res.violation(res.proof_broken, no_input=True)
