"""C13: printing a parsed document and re-parsing it gives the same document; formatting is idempotent."""
import json
import os
import re
import vlib

PID = "C13"

CLAIM = dict(
    text="Machine-checked Coq theorems over an executable model of DocumentPrinter (every print method transcribed as "
         "its sequence of writes, source(span) copies, indent()/newline()/inc()/dec() calls; an interpreter carrying "
         "the indent state and the `indented` flag and performing the byte-offset slicing with an explicit panic "
         "outcome; doc-comment line splitting and trimming) composed with the C12 lexer/parser models. Proved at FULL "
         "strength for EVERY document the parser model accepts and the printer with the three repairs (now in "
         "/repo): print_roundtrip -- Document::parse of the printed text returns a tree equal to the original up to "
         "source positions and doc-comment line splitting, and printing that tree reproduces the text byte for byte; "
         "through parse_wf, print_no_panic, print_tokens_roundtrip (all node classes, via the C12 completeness "
         "theorem), print_screen, and render_lex (lexing the printed text gives exactly the token stream -- kinds, "
         "texts, byte spans, doc comments -- the printer meant: layout, what follows each token for all trees, "
         "stability of every scanner of the lexer model under replacement of the following text incl. %-escapes, "
         "dangling dashes, versions, and the keyword-before-colon lexer artefact handled by a token-stream invariant "
         "threaded through the grammar). nothing_dropped as corollary. The three defects of the unrepaired printer "
         "are refuted by vm_compute witnesses. The model is tied to the code by a byte-for-byte correspondence of "
         "the printed text on ~4.5k documents per run (grammar-generated with randomised layout and comments, every "
         ".wac file and re-laid-out copies, a probe per construct), and the specification predicate (re-parse "
         "succeeds, normalised trees equal, second print identical) is evaluated on the real parser/printer.",
    design_ref="DESIGN.md §5 C13, §7 items 4, 5, 13, §8",
    note="Trusted: Coq kernel; extraction (ExtrOcamlBasic); OCaml driver; Rust harness (incl. its span-stripping/"
         "doc-normalising canonicaliser, cross-checked against the extracted `sn` on every case); Printer.v is "
         "hand-written from printer.rs and validated by correspondence; Lexer.v/Parser.v as in C12 (the theorems "
         "are about these models: e.g. the logos automaton is modelled by Lexer.v's rules and artefact flags).",
    technique="Coq proof (printer commands vs tree-indexed grammar via the C12 soundness/completeness theorems; "
              "lexer tiling, scan-origin and stream-invariant lemmas; scanner stability; syntactic adjacency of "
              "printed tokens) + extracted-model correspondence + specification predicate evaluated on the "
              "implementation")

# The three printer defects known at design time, each confirmed on the real code. Until the main session moves them
# into /verif/known-findings.json (or applies hooks/fix-c13-*.patch) they are consulted from here (BUILDING.md).
# `signature` = the feature of the document (computed by the harness from the parsed tree) that triggers the defect.
FEATURES = ["targets", "fill-nonlast", "doc-blank-line"]
PROPOSED_KNOWN = [
    dict(property=PID, id="C13-targets-keyword", status="known", signature="targets",
         signature_text="document has a targets clause",
         witness="package a:b targets c:d/e;",
         fix="hooks/fix-c13-targets-keyword.patch",
         text="the printer omits the keyword `targets` of the package directive (`package a:b targets c:d/e;` is "
              "printed as `package a:b c:d/e;`), so the printed text does not parse"),
    dict(property=PID, id="C13-fill-comma", status="known", signature="fill-nonlast",
         signature_text="fill argument `...` not in last position",
         witness="package a:b; let x = new c:d { ..., a };",
         fix="hooks/fix-c13-fill-comma.patch",
         text="a fill argument `...` that is not the last argument is printed without its comma, so `..., a` is "
              "re-parsed as the spread `...a` (or the text does not parse when a named argument follows)"),
    dict(property=PID, id="C13-doc-blank-line", status="known", signature="doc-blank-line",
         signature_text="block doc comment with an interior blank line",
         witness="/** a\n\n b */ package a:b;",
         fix="hooks/fix-c13-doc-blank-line.patch",
         text="an interior blank line of a block doc comment is printed as an empty `/// ` comment which the next "
              "print drops: formatting is not idempotent"),
]


def known_entries():
    """PROPOSED_KNOWN overridden by /verif/known-findings.json (an entry with status 'fixed' suppresses nothing)."""
    ents = {e["signature"]: e for e in PROPOSED_KNOWN}
    for e in vlib.load_known(PID):
        sig = e.get("signature")
        for p in PROPOSED_KNOWN:
            if sig in (p["signature"], p["signature_text"]) or e.get("id") == p["id"]:
                if e.get("status") == "known":
                    ents[p["signature"]] = dict(p, **{k: v for k, v in e.items() if k not in ("signature",)})
                else:
                    ents.pop(p["signature"], None)
    return ents


def dec(s):
    return "" if s in ("-", "") else "".join(chr(int(x)) for x in s.split(","))


def enc(s):
    return ",".join(str(ord(c)) for c in s) or "-"


def short(s, n=400):
    return s if len(s) <= n else s[:n] + "...(%d chars)" % len(s)


class Obs:
    """One implementation observation line of the harness."""

    def __init__(self, line):
        f = line.split("\t")
        self.raw = line
        self.status = f[0].split(" ")[0]
        if self.status != "OK":
            return
        self.feats = [] if f[1] == "-" else f[1].split(",")
        self.tree1 = f[2]
        self.text1 = None if f[3] == "-" else dec(f[3])
        self.reparse = f[4]
        self.tree2 = self.tree1 if f[5] == "=" else f[5]
        self.text2 = self.text1 if f[6] == "=" else (None if f[6].startswith("PRINT-") or f[6] == "-" else dec(f[6]))
        self.text2_raw = f[6]

    def failure(self):
        """None if the specification predicate holds on this observation, else a description."""
        if self.text1 is None:
            return "the printer failed: " + self.reparse
        if self.reparse != "OK":
            return "the printed text does not parse: " + self.reparse[4:]
        if self.tree2 != self.tree1:
            return "the printed text parses to a different document"
        if self.text2 is None:
            return "printing the re-parsed document failed: " + self.text2_raw
        if self.text2 != self.text1:
            return "printing the re-parsed document gives a different text (formatting is not idempotent)"
        return None


def run(res, tier, seed, replay):
    pr = vlib.proof_stage(res, PID)
    ok, log = vlib.ensure_extraction("c13", "theories/extract/ExtractC13.v")
    if not ok:
        res.violation(dict(kind="machinery-error", what="extraction/driver build failed", log=log[-3000:]), no_input=True)
        return
    ok, log = vlib.cargo_build(["c13"])
    if not ok:
        res.violation(dict(kind="broken-tie", what="harness does not build against the repository", log=log[-3000:]),
                      no_input=True)
        return
    rd = os.path.join(vlib.BUILD, "c13", "run")
    os.makedirs(rd, exist_ok=True)
    P = lambda x: os.path.join(rd, x)
    hb, drv = vlib.hbin("c13"), os.path.join(vlib.BUILD, "c13", "driver")
    known = known_entries()

    def harness(cases_out, impl_out, replay_file=None):
        rc, out = vlib.sh(f"{hb} {tier} {seed} {cases_out} {impl_out}" + (f" {replay_file}" if replay_file else ""),
                          timeout=3000)
        if rc != 0:
            raise RuntimeError("harness run failed: " + out[-2000:])
        return open(cases_out).read().split("\n")[:-1], open(impl_out).read().split("\n")[:-1]

    def driver(lines, bits):
        open(P("drv_in.txt"), "w").write("".join(l + "\n" for l in lines))
        rc, out = vlib.sh(f"{drv} {bits} < {P('drv_in.txt')} > {P('drv_out.txt')}", timeout=3000)
        if rc != 0:
            raise RuntimeError("driver failed: " + out[-2000:])
        o = open(P("drv_out.txt")).read().split("\n")[:-1]
        assert len(o) == len(lines), (len(o), len(lines))
        return o

    # ---- 1. the three witnesses decide which repairs the implementation under test has
    wit_lines = ["doc\t%d\twitness:%s\t%s" % (n, e["signature"], enc(e["witness"])) for n, e in enumerate(PROPOSED_KNOWN)]
    open(P("wit_in.txt"), "w").write("".join(l + "\n" for l in wit_lines))
    wcases, wimpl = harness(P("wit_cases.txt"), P("wit_impl.txt"), P("wit_in.txt"))
    wobs = [Obs(l) for l in wimpl]
    repaired_in_impl = {}
    for e, o in zip(PROPOSED_KNOWN, wobs):
        repaired_in_impl[e["signature"]] = (o.status == "OK" and o.failure() is None)
    bits = "".join("1" if repaired_in_impl[f] else "0" for f in FEATURES)

    # ---- 2. cases
    corpus = os.path.join(vlib.ROOT, "corpus", PID, "cases.txt")
    if replay:
        rp = json.load(open(replay))
        open(P("replay_in.txt"), "w").write("\n".join(rp.get("cases", [rp.get("case", "")])) + "\n")
        c2, i2 = harness(P("cases.txt"), P("impl.txt"), P("replay_in.txt"))
    else:
        c2, i2 = harness(P("cases.txt"), P("impl.txt"))
        if os.path.exists(corpus):
            c3, i3 = harness(P("corpus_cases.txt"), P("corpus_impl.txt"), corpus)
            c2, i2 = c3 + c2, i3 + i2
    cases, impl = wcases + c2, wimpl + i2
    model = driver(cases, bits)

    # ---- 3. evaluation
    kinds, accepted, rejected, nontrivial = {}, 0, 0, 0
    prop_fail, disagreements, excused = [], [], {f: 0 for f in FEATURES}
    side_false = []
    feature_counts = {f: 0 for f in FEATURES}
    repaired_model_fail = []
    seen_trees = set()
    constructs = {}
    CONSTRUCT_KEYS = ["targets", "version\":\"", "named", "spread", "fill", "inferred", "isStatic\":true", "constructor",
                      "asId\":{", "with\":[{", "namedAccess", "access", "nested", "rename", "interface", "world",
                      "resource", "variant", "record", "flags", "enum", "alias", "borrow", "tuple", "result", "option",
                      "list", "use", "include", "Import", "Let", "Export", "comment"]
    for n, (c, i, m) in enumerate(zip(cases, impl, model)):
        f = c.split("\t")
        origin = f[2]
        kind = origin.split(":")[0]
        kinds[kind] = kinds.get(kind, 0) + 1
        o = Obs(i)
        mf = m.split("\t")
        if o.status == "PANIC":
            prop_fail.append((c, i, m, "the parser or printer panicked: " + i, []))
            continue
        if o.status != "OK":
            rejected += 1
            if mf[0] != "REJECT":
                disagreements.append((c, i, m, "the parser rejects the document, the parser model accepts it (C12 tie)"))
            continue
        accepted += 1
        if mf[0] != "OK":
            if mf[1:2] == ["unmodelled"]:
                continue
            disagreements.append((c, i, m, "the parser accepts the document, the parser model does not (C12 tie): " + m[:80]))
            continue
        mtree, mt_rep, mv_rep, mt_cur, mv_cur = mf[1], dec(mf[2]), mf[3], mf[4], mf[5]
        mt_cur = mt_rep if mt_cur == "=" else dec(mt_cur)
        if len(mf) > 6 and mf[6] != "kwc=1":
            side_false.append((c, i, m, "side condition kwcb of render_lex_partial is false for this document"))
        if o.tree1 not in seen_trees:
            seen_trees.add(o.tree1)
            if '"statements":[{' in o.tree1:
                nontrivial += 1
            for k in CONSTRUCT_KEYS:
                if k in o.tree1:
                    constructs[k] = constructs.get(k, 0) + 1
        for ft in o.feats:
            feature_counts[ft] += 1
        if mv_rep != "ok":
            repaired_model_fail.append((c, i, m, "the repaired printer model fails its own specification: " + mv_rep))
        # (a) correspondence: normalised tree; printed text byte for byte
        corr = None
        if o.tree1 != mtree:
            corr = "normalised tree (harness strip_norm vs extracted sn)"
        elif o.text1 is not None and o.text1 != mt_cur:
            corr = "printed text"
        elif o.text1 is None and mv_cur != "print-panic":
            corr = "printer panic"
        # (b) the specification predicate on the implementation's own observation
        why = o.failure()
        if why is None:
            if corr:
                disagreements.append((c, i, m, corr))
            continue
        unrepaired_here = [ft for ft in o.feats if not repaired_in_impl[ft]]
        if (corr is None and unrepaired_here and all(ft in known for ft in unrepaired_here)
                and mv_cur != "ok" and mv_rep == "ok"):
            for ft in unrepaired_here:
                excused[ft] += 1
            continue
        prop_fail.append((c, i, m, why, unrepaired_here))

    # ---- 4. known findings: the witnesses, printed only while they still fail
    for e, o in zip(PROPOSED_KNOWN, wobs):
        sig = e["signature"]
        if sig in known and o.status == "OK" and o.failure() is not None:
            k = known[sig]
            res.known.append("%s signature=%r witness=%r: %s -- %s (repair: %s)" % (
                k.get("id", e["id"]), e["signature_text"], e["witness"], o.failure(), k.get("text", e["text"]), e["fix"]))

    def pretty(n):
        f = cases[n].split("\t")
        o = Obs(impl[n])
        return dict(origin=f[2], source=short(dec(f[3]), 300), printed=short(o.text1 or "", 300),
                    verdict=o.failure() or "round trip and second print identical")
    picks = [n for n, c in enumerate(cases) if "\tgen:" in c and impl[n].startswith("OK\t-\t") and len(c) > 600][:2] + \
            [n for n, c in enumerate(cases) if "\tfile:" in c and impl[n].startswith("OK")][:1] + \
            [n for n, c in enumerate(cases) if "\twitness:" in c][:3]
    res.coverage.update(dict(
        correspondence_cases=accepted, evaluations=len(cases), case_kinds=kinds, accepted_documents=accepted,
        rejected_documents=rejected, disagreements=len(disagreements), spec_failures_on_impl=len(prop_fail),
        excused_by_known_finding=excused, documents_with_feature=feature_counts,
        render_lex_side_condition_false=len(side_false),
        repairs_present_in_implementation=repaired_in_impl, known_signatures=sorted(known),
        distinct_nontrivial=nontrivial, distinct_trees_containing=constructs,
        rule="documents generated from the grammar (all productions the parser accepts, depth <= 6) with randomised "
             "layout (spaces, tabs, CR, LF, line/block/doc comments incl. multi-line block doc comments with blank "
             "lines, % escapes, non-ASCII text), every .wac file of the repository as it is and under two random "
             "re-layouts, and a probe per construct named by the property; texts are de-duplicated. For each accepted "
             "document: printed text compared byte for byte between DocumentPrinter and Printer.v; the harness's "
             "span-stripped doc-normalised tree compared with the extracted `sn`; and on the implementation alone: "
             "re-parse succeeds, normalised trees equal, second print identical. non-trivial = distinct normalised "
             "tree with at least one statement",
        samples=[pretty(n) for n in picks],
        trusted_base=vlib.TRUSTED_COMMON + [
            "Printer.v is hand-written from printer.rs (validated by the byte-for-byte correspondence); Lexer.v / "
            "Parser.v / Ast.v / AstJson.v as in C12 (validated there and again here on the re-parse)",
            "the harness's strip_norm (spans -> @0+0, docs -> non-empty trimmed lines) implements spec/PrintSpec.v `sn`; "
            "checked on every case against the extracted `sn` of the parser model's tree",
            "Rust str::lines / str::trim modelled by Printer.rust_lines / Lexer.trim (Unicode White_Space table)",
            "the theorems speak about the lexer/parser MODELS of C12; their agreement with lexer.rs/ast*.rs is the "
            "C12 correspondence, re-exercised here on every printed text (real and model re-parse)",
            "serde / serde_json serialisation of the AST and miette::SourceSpan (canonicalised by the harness)"]))
    res.assumptions = ["source texts are valid UTF-8 (Rust &str); the model works on Unicode scalar values",
                       "DocumentPrinter is used with space = None (four blanks), as everywhere in the repository",
                       "identical up to doc-comment line splitting = equal lists of non-empty trimmed doc lines per node "
                       "(DESIGN §8)"]
    # ---- 5. outcome
    prop_fail.sort(key=lambda t: len(t[0]))
    for c, i, m, why, feats in prop_fail[:5]:
        f = c.split("\t")
        o = Obs(i)
        res.violation(dict(kind="property-fails-on-implementation", what=why, case=c, origin=f[2], source=dec(f[3]),
                           printed=getattr(o, "text1", None), second_print=getattr(o, "text2", None),
                           reparse=getattr(o, "reparse", None),
                           tree_before=short(getattr(o, "tree1", ""), 3000),
                           tree_after=short(getattr(o, "tree2", ""), 3000),
                           unrepaired_known_features=feats, known_signatures=sorted(known)))
    if not prop_fail:
        if disagreements:
            disagreements.sort(key=lambda t: len(t[0]))
            c, i, m, what = disagreements[0]
            f = c.split("\t")
            mf = m.split("\t")
            res.violation(dict(kind="correspondence-broken",
                               what="model and implementation differ (%s); the round-trip property holds on the "
                                    "implementation for every document of this run" % what,
                               correspondence="Printer.v vs printer.rs (and Lexer.v/Parser.v vs lexer.rs/ast*.rs)",
                               case=c, origin=f[2], source=dec(f[3]),
                               implementation_text=getattr(Obs(i), "text1", None),
                               model_text=(dec(mf[2]) if len(mf) > 4 and mf[4] == "=" else dec(mf[4]) if len(mf) > 4 else m[:200]),
                               n=len(disagreements)), no_input=True)
        elif side_false:
            c, i, m, what = side_false[0]
            f = c.split("\t")
            res.violation(dict(kind="theorem-hypothesis-unmet", what=what, case=c, origin=f[2], source=dec(f[3])),
                          no_input=True)
        elif repaired_model_fail:
            c, i, m, what = repaired_model_fail[0]
            f = c.split("\t")
            res.violation(dict(kind="model-contradicts-theorem", what=what, case=c, origin=f[2], source=dec(f[3])),
                          no_input=True)
        if res.proof_broken:
            res.violation(res.proof_broken, no_input=True)
