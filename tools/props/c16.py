"""C16: composition is reproducible: same inputs, same bytes."""
import json
import os
import re
import vlib

PID = "C16"

CLAIM = dict(
    text="(1) A translator lists every HashMap/HashSet binding and every order-observing use of one in all crates and "
         "the CLI (for/iter/keys/values/values_mut/into_iter/drain/retain/extend-from/derive(Debug), with function and a "
         "position-independent fingerprint of the whole statement or loop body); Coq checks by reflection that this list "
         "is included in a hand-classified list (a new hash-ordered iteration anywhere breaks the obligation), that every "
         "site is typed, and that lexer/AST/parser/printer contain no hash container at all. (2) Each classification "
         "is proved on a model where the iteration order is an explicit argument: unregister_package's retains, "
         "define_type's sorted scan (unique sorted order), encode_imports' explicit_imports loop, name_redirects' "
         "pointwise update are order-independent; world_include's missing-name report, find_semver_compatible_interface "
         "and `wac plug` grouping (the code before the repairs) are refuted; on the current tree every site is "
         "order-irrelevant with a theorem or an explicit by-inspection label. (3) For EVERY graph-API history the model's full "
         "final state (incl. adjacency order, which feeds toposort) and all results are independent of order oracles "
         "for every hash-ordered iteration, via an invariant proved by induction over histories; the structural encoder "
         "model of C02/C03 is wrapped with iteration/representation oracles for explicit_imports, instantiations, encoded, "
         "node_indexes, packages and implicit_args: the item log, names section and error (incl. the merge-conflict "
         "payload) are independent of all of them, also composed with histories. The emission order is characterised: "
         "a node not reachable from a larger index precedes all larger nodes, sources come in index order, a forward "
         "graph is emitted in index order; the literal 'independent nodes in index order' is refuted (model and real "
         "encoder). (4) Search: generated "
         "histories (base types after dependants, many same-rank nodes, overlapping implicit imports, explicit imports) "
         "and all WAC fixtures are executed twice per process, on a cloned graph and in N fresh processes; SHA-256 of "
         "encoded bytes (both dependency modes), printed text, AST, dot rendering and rendered diagnostics must coincide.",
    design_ref="DESIGN.md §5 C16, §2.3 gen_hash_sites.py, §7 items 6 and 12",
    note="Trusted: Coq kernel; the translator's recognition rules (documented in its header; unrecognised forms become "
         "sites, unparseable input fails the check); Graph.v's correspondence with graph.rs is C06's differential check; "
         "the models of the encoder loop / aggregator / world_include are small hand-written loop models; classification "
         "reason DebugNotRendered (derived Debug of hash-bearing types reaches only log output) is by inspection. "
         "EncodeModel's correspondence with the real encoder is C02/C03's differential check (two emission-order "
         "predictions are also replayed here). The two findings of the first round were repaired (c407668, 02411ca).",
    technique="source-to-Coq translator + reflection (site coverage), Coq proofs with order oracles (Permutation), "
              "multi-process differential execution")

# Findings of this property that are not (yet) in known-findings.json; the main session decides about them.
# Both findings of the first round (world-include-missing-name-hash-order, aggregator-interface-track-hash-order)
# were repaired in the repository (c407668, 02411ca) and are recorded as "fixed" in known-findings.json: nothing is
# suppressed any more.  Their witnesses stay in the generated case list as regression cases.
PROPOSED_KNOWN = []

# emission order predicted by the model (props/C16.v section 9): case -> the items that must appear in this order
ORDER_PREDICTIONS = {
    # a dependant (node 0), an unrelated type (node 1), then the base type (node 2): toposort model gives [1; 2; 0]
    "H def 11 1;def 12 9;def 13 0": ["X:t-b=", "X:t-c=", "X:t-a="],
    # every edge from a smaller to a larger index: index order (imports are emitted first by encode_imports)
    "H imp 21 0;imp 22 1;def 11 0;def 12 1;reg 0;inst 0 0": ["I:imp-a", "I:imp-b", "X:t-a=", "X:t-b=", "S:c0("],
}

SITE_RE = re.compile(r'mk_site\s+("(?:[^"]|"")*")\s+("(?:[^"]|"")*")\s+("(?:[^"]|"")*")\s+("(?:[^"]|"")*")\s+(\w+)\s+'
                     r'("(?:[^"]|"")*")\s+("(?:[^"]|"")*")', re.S)


def sites_of(path):
    try:
        txt = open(path).read()
    except OSError:
        return []
    return [tuple(x.strip('"').replace('""', '"') if i != 4 else x for i, x in enumerate(m)) for m in SITE_RE.findall(txt)]


def site_report():
    """(found, modelled, unmodelled) read back from the Coq sources: human-readable companion of sites_all_modelled"""
    found = sites_of(os.path.join(vlib.COQ, "theories", "gen", "HashSites.v"))
    modelled = sites_of(os.path.join(vlib.COQ, "theories", "model", "Determinism.v"))
    ms = set(modelled)
    return found, modelled, [s for s in found if s not in ms]


def classify_diff(case, line):
    """narrow signature of a differing case -> id of a known finding, or None"""
    m = re.match(r"DIFF fields=(\S*)", line)
    fields = set(m.group(1).split(",")) if m else set()
    if case[:2] in ("D ", "W "):
        if fields and fields <= {"diag.resolve", "rerun"}:
            heads = re.findall(r"diag\.resolve=[0-9a-f]+:([^|\]]*)", line)
            if heads and all("does not have an import or export named" in h for h in heads):
                return "world-include-missing-name-hash-order"
    if case.startswith("H "):
        ops = [o.split(" ") for o in case[2:].split(";") if o]
        kinds = [int(o[2]) for o in ops if o[0] == "imp" and len(o) == 3 and o[2].isdigit()]
        track = [k for k in kinds if k in (7, 8, 9)]
        if 7 in track and len(set(track)) >= 2 and fields and \
                fields <= {"encA", "encB", "orderA", "orderB", "dot", "again", "clone", "rerun", "cloneA"}:
            return "aggregator-interface-track-hash-order"
    return None


def order_items(obs):
    m = re.search(r"orderA=([^|]*)", obs)
    return len([x for x in (m.group(1).split(" ") if m else []) if x and x[0] in "IXSA"])


def run(res, tier, seed, replay):
    # gen/HashSites.v is a shared file: a concurrent ./check of another property (possibly against another
    # VERIF_REPO) regenerates it too.  Make sure the version that was compiled is the one for OUR repository.
    gen_v = os.path.join(vlib.COQ, "theories", "gen", "HashSites.v")
    tmp_v = os.path.join(vlib.BUILD, "c16", "HashSites.expected.v")
    os.makedirs(os.path.dirname(tmp_v), exist_ok=True)
    for attempt in range(4):
        pr = vlib.proof_stage(res, PID)
        rc, out = vlib.sh(f"python3 {os.path.join(vlib.ROOT, 'tools', 'gen', 'gen_hash_sites.py')}",
                          env=dict(vlib.ENV, HASH_SITES_OUT=tmp_v), timeout=120)
        if rc != 0:
            break       # reported by proof_stage as a broken tie
        try:
            same = open(gen_v).read() == open(tmp_v).read()
        except OSError:
            same = False
        if same:
            break
        res.coverage["hash_sites_regenerated_after_race"] = attempt + 1
    found, modelled, unmodelled = site_report()
    res.coverage.update(dict(sites_found=len(found), sites_modelled=len(modelled), sites_unmodelled=len(unmodelled),
                             site_table=[dict(file=s[0], fn=s[1], receiver=s[2], observer=s[3], resolution=s[4]) for s in found]))
    if res.proof_broken and unmodelled:
        res.proof_broken = dict(res.proof_broken, theorem="sites_all_modelled",
                                what="hash-ordered iteration site(s) not in the classified list (sites_all_modelled fails): " +
                                     "; ".join(f"{s[0]} {s[1]} `{s[2]}` .{s[3]}" for s in unmodelled[:6]),
                                unmodelled_sites=[dict(file=s[0], fn=s[1], receiver=s[2], observer=s[3], resolution=s[4],
                                                       statement=s[5], hash=s[6]) for s in unmodelled])
    ok, log = vlib.cargo_build(["c16"])
    if not ok:
        res.violation(dict(kind="broken-tie", what="harness does not build against the repository", log=log[-3000:]), no_input=True)
        return
    procs = 8 if tier == "thorough" else 4
    rd = os.path.join(vlib.BUILD, "c16", "run"); os.makedirs(rd, exist_ok=True)
    cases_p, impl_p = os.path.join(rd, "cases.txt"), os.path.join(rd, "impl.txt")
    extra = ""
    if replay:
        rp = json.load(open(replay))
        rin = os.path.join(rd, "replay_in.txt")
        open(rin, "w").write("\n".join(rp.get("cases", [rp.get("case", "")])) + "\n")
        extra = " " + rin
    rc, out = vlib.sh(f"{vlib.hbin('c16')} run {tier} {seed} {procs} {cases_p} {impl_p}{extra}", timeout=3000)
    if rc != 0:
        res.violation(dict(kind="machinery-error", what="harness run failed", log=out[-3000:]), no_input=True)
        return
    cases = open(cases_p).read().split("\n")[:-1]
    impl = open(impl_p).read().split("\n")[:-1]
    assert len(cases) == len(impl), (len(cases), len(impl))
    known = {e["id"]: e for e in PROPOSED_KNOWN}
    for e in vlib.load_known(PID):
        if e.get("status") == "known":
            known[e["id"]] = e
    kinds, diffs, known_hits, nontrivial, aborts = {}, [], {}, set(), 0
    enc_ok = enc_err = diag_cases = 0
    order_mismatch = []
    for c, line in zip(cases, impl):
        if c in ORDER_PREDICTIONS and line.startswith("SAME "):
            m = re.search(r"orderA=([^|]*)", line)
            got = m.group(1) if m else ""
            pos = [got.find(x) for x in ORDER_PREDICTIONS[c]]
            if -1 in pos or pos != sorted(pos):
                order_mismatch.append((c, got))
        k = c[:1]
        kinds[k] = kinds.get(k, 0) + 1
        if line.startswith("SAME "):
            obs = line[5:]
            if obs == "ABORT":
                aborts += 1
            if "encA=ok" in obs:
                enc_ok += 1
            elif "encA=E" in obs or "diag.encA" in obs:
                enc_err += 1
            if "diag." in obs:
                diag_cases += 1
            # non-trivial: an encoding with at least two ordered top-level items, or a rendered diagnostic
            if order_items(obs) >= 2 or "diag." in obs:
                nontrivial.add(re.sub(r"\|(again|clone|rerun)=same", "", obs))
        else:
            fid = classify_diff(c, line)
            if fid in known:
                known_hits.setdefault(fid, []).append(c)
            else:
                diffs.append((c, line))
    per_case_exec = 2 * procs  # every process executes each case twice (plus clone and re-encode for histories)
    res.coverage.update(dict(
        correspondence_cases=len(cases), processes=procs, evaluations=len(cases) * per_case_exec,
        disagreements=len(diffs), known_differences=sum(len(v) for v in known_hits.values()),
        distinct_nontrivial=len(nontrivial), case_kinds=kinds, encodings_ok=enc_ok, encodings_failed=enc_err,
        cases_with_diagnostics=diag_cases, deterministic_aborts=aborts,
        rule="cases: H = graph-API histories over a universe of 12 definable types (a base type with 8 direct/indirect "
             "dependants), 10 importable kinds and 13 packages with overlapping implicit imports, incl. a socket with eight imports "
             "and plugs filling all / half / the rest of them through the library plug(), and a semver track of seven import "
             "names with compatible and incompatible instance kinds (explicit-import merge conflicts among 2-6 candidates; the "
             "error's import/first/second fields are part of the observation) (fixed shapes named in the "
             "property + generators base-after-dependants / same-rank / overlapping-implicit-imports / random adaptive); "
             "D = every .wac fixture under crates/wac-parser/tests/{parser,resolution,encoding}[/fail] and examples/script.wac "
             "(parse -> print + AST json; resolve -> dot; encode in both dependency modes; failures -> rendered miette "
             "diagnostics); W = inline documents aimed at the resolver's hash containers. Each case: executed twice in each "
             f"of {procs} fresh processes (std::process::Command on the same binary; per-process RandomState), histories "
             "also re-encoded and encoded on a clone(); all SHA-256 digests and extracted item orders must be identical. "
             "evaluations = cases x processes x 2. non-trivial = distinct observations whose encoding has >= 2 ordered "
             "top-level imports/instances/aliases/exports, or that carry a rendered diagnostic",
        samples=[cases[0], cases[min(7, len(cases) - 1)], cases[min(60, len(cases) - 1)][:300], cases[-1]],
        trusted_base=vlib.TRUSTED_COMMON + [
            "tools/gen/gen_hash_sites.py: a tokenizer-level analysis (receiver typing through field/parameter/local "
            "declarations and impl Index outputs; private fields resolved per module file); it does not see a hash "
            "container that is only ever named through type inference (e.g. returned by an external crate and never "
            "annotated), nor iteration hidden inside external generic functions other than extend/chain/zip/from_iter/append",
            "model Graph.v is tied to graph.rs by C06's differential check (every step of every history), not by C16",
            "loop models populate_node_indexes / redirect_visit / find_track+remap / missing_reported are hand-written "
            "abstractions of encode_imports / TypeAggregator / world_include; the refuted ones are replayed on the real code "
            "by this check (known findings), the order-independent ones are exercised by the multi-process search",
            "classification reason DebugNotRendered (derive(Debug) of State / NodeKind / TypeAggregator reaches only "
            "log::debug! output, never printed text, diagnostics or bytes) is by inspection",
            "hash seeds differ between processes and between HashMap instances by std's RandomState; the search is "
            "probabilistic in the seeds actually drawn"]))
    res.assumptions = ["packages are .wat/.wasm fixtures and 9 inline components; registry resolution is out of scope (C20)",
                       "`wac plug` CLI grouping order is checked under C19; here it is only classified"]
    # known findings: print only if the witness still fails in this run
    for fid, cs in known_hits.items():
        res.known.append(f"{fid}: {known[fid]['text']} [still differs on {len(cs)} case(s), e.g. {cs[0][:120]}]")
    # outcome
    for c, line in diffs[:5]:
        payload = dict(kind="property-fails-on-implementation",
                       what="observations of one input differ between executions (" + line.split(" ;; ")[0] + ")",
                       case=c, cases=[c], per_process=line.split(" ;; ")[1:], n_differing_cases=len(diffs))
        if res.proof_broken:
            payload["also_broken_obligation"] = res.proof_broken
        res.violation(payload)
    res.coverage["order_predictions_checked"] = len([c for c in cases if c in ORDER_PREDICTIONS])
    if not diffs and order_mismatch:
        c, got = order_mismatch[0]
        res.violation(dict(kind="correspondence-broken", correspondence="EncodeModel.toposort vs CompositionGraphEncoder::toposort",
                           what="the emission order of the real encoder is not the one the toposort model predicts "
                                "(props/C16.v section 9); observations are still identical across executions",
                           case=c, cases=[c], expected_order=ORDER_PREDICTIONS[c], observed=got), no_input=True)
    if not diffs and res.proof_broken:
        res.violation(res.proof_broken, no_input=True)
