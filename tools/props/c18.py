"""C18: file-system dependency lookup follows the documented layout and precedence."""
import json
import os
import vlib

PID = "C18"

CLAIM = dict(
    text="Machine-checked Coq theorems over an executable model of FileSystemPackageResolver::resolve (one key), "
         "quantified over every file-system state, key, override map, unknown-package mode, both settings of the "
         "`wat` feature and every behaviour of the WAT/WIT library oracles: the model of the CURRENT code (resolve_one_fixed, "
         "following the repair d297b59) equals the decision table written from README + property text for EVERY "
         "well-formed key (fs_resolve_table, full strength); the model of the code as found (resolve_one) equals it "
         "everywhere except one exactly characterised situation (a DIRECTORY at the suffixed candidate `B.wat`/`B.wasm`, "
         "proved to be loaded as a WIT package and refuting the full table; kept to recognise a return of the defect), "
         "and the repair is proved conservative outside that situation; for both models: extension appended never replaced; `.wat` preferred when enabled else `.wasm`; directory at B is a "
         "WIT package; overrides apply to unversioned keys only, are used exclusively, and must exist; returned "
         "bytes are the found file's bytes or the encoding/assembly of what was found; skipped/unknown exactly when "
         "nothing is there, by mode (for the repaired code as an equivalence: not found <-> no directory at B and no "
         "FILE at B.wat / B.wasm). The current-code model is tied to the real resolver on every run by building directory "
         "layouts in a temp dir for both feature builds (quick: seeded ~9k sample each; thorough: the exhaustive "
         "71,280-layout space each).",
    design_ref="DESIGN.md §5 C18",
    note="Trusted: Coq kernel; extraction (ExtrOcamlBasic); OCaml driver; Rust harness. FsResolve.v is hand-written "
         "and validated by correspondence. The file system, wat::parse_bytes, wit-parser push_dir/push_file and "
         "wit_component::encode are oracles (the harness computes them independently with the same crates). "
         "Correspondence runs against two builds of wac-resolver: features wit+wat (harness crate) and wit only "
         "(harness/c18nowat, the default CLI configuration).",
    technique="Coq proof (case analysis over file-system states; path algebra of append/set_extension) + "
              "extracted-model correspondence over enumerated temp-dir layouts")

# ---------------------------------------------------------------- case construction (readable -> wire format)


def enc(s):
    return "-" if s == "" else ",".join(str(ord(c)) for c in s)


def enc_path(p):
    return ";".join(enc(c) for c in p.split("/"))


def dec(s):
    return "" if s in ("-", "") else "".join(chr(int(x)) for x in s.split(","))


def dec_path(s):
    return "/".join(dec(c) for c in s.split(";")) if s else ""


VARIANTS = {"bin": (False, 0), "wat-text": (False, 1), "garbage": (False, 2), "wit-text": (False, 3),
            "wit-pkg-dir": (True, 5), "plain-dir": (True, 6), "wit-pkg-dir-vendoring-a-dependency": (True, 7)}
VNAME = {(d, v): n for n, (d, v) in VARIANTS.items()}


def mk_case(name, version, nodes, overrides=(), mode=1, wat=1, root="deps"):
    """nodes: list of (path, variant-name); parents are added as plain directories."""
    listed = [p for p, _ in nodes]
    full = list(nodes)
    for p in listed:
        parts = p.split("/")
        for i in range(1, len(parts)):
            par = "/".join(parts[:i])
            if par not in [q for q, _ in full]:
                full.append((par, "plain-dir"))
    ns = "|".join("%s:%d:%d:%s" % ("D" if VARIANTS[v][0] else "F", k, VARIANTS[v][1], enc_path(p))
                  for k, (p, v) in enumerate(full))
    ov = "|".join("%s=%s" % (enc(n), enc_path(p)) for n, p in overrides)
    return "\t".join(["c18", str(wat), str(mode), enc(name), enc(version) if version else "none", enc_path(root), ov, ns])


def pretty(case):
    f = case.split("\t")
    if len(f) == 7 and f[0] == "c18m":
        nodes = []
        for e in (f[5].split("|") if f[5] else []):
            kind, k, v, p = e.split(":", 3)
            nodes.append("%s = %s (content %d)" % (dec_path(p), VNAME.get((kind == "D", int(v)), v), 10 * int(k) + int(v)))
        keys = [dec(e.split("~")[0]) + ("@" + dec(e.split("~")[1]) if e.split("~")[1] != "none" else "") for e in f[6].split("|") if e]
        return dict(keys_in_one_call=keys, wat_feature=f[1] == "1", error_on_unknown=f[2] == "1", deps_dir=dec_path(f[3]),
                    overrides={dec(e.split("=")[0]): dec_path(e.split("=")[1]) for e in (f[4].split("|") if f[4] else [])},
                    layout=sorted(nodes))
    if len(f) != 8:
        return case
    nodes = []
    for e in (f[7].split("|") if f[7] else []):
        kind, k, v, p = e.split(":", 3)
        nodes.append("%s = %s (content %d)" % (dec_path(p), VNAME.get((kind == "D", int(v)), v), 10 * int(k) + int(v)))
    return dict(key=dec(f[3]) + ("@" + dec(f[4]) if f[4] != "none" else ""), wat_feature=f[1] == "1",
                error_on_unknown=f[2] == "1", deps_dir=dec_path(f[5]),
                overrides={dec(e.split("=")[0]): dec_path(e.split("=")[1]) for e in (f[6].split("|") if f[6] else [])},
                layout=sorted(nodes))


# Regression / witness cases, always run first (also stored in corpus/C18/cases.txt).
W_WAT_DIR_SHADOWS = mk_case("foo:bar", None, [("deps/foo/bar.wat", "wit-pkg-dir"), ("deps/foo/bar.wasm", "bin")])
W_WAT_DIR_BREAKS = mk_case("foo:bar", "1.2.3", [("deps/foo/bar/1.2.3.wat", "plain-dir"), ("deps/foo/bar/1.2.3.wasm", "bin")])
W_WASM_DIR_LOADED = mk_case("foo:bar", None, [("deps/foo/bar.wasm", "wit-pkg-dir")])
W_WASM_DIR_ERROR = mk_case("foo:bar", None, [("deps/foo/bar.wasm", "plain-dir")], mode=0)

SIG_WAT = "fs.rs resolve, default arm: B not a directory, text enabled, `B.wat` is a DIRECTORY -> loaded as WIT package"
SIG_WASM = "fs.rs resolve, default arm: B not a directory, no `B.wat` (or text disabled), `B.wasm` is a DIRECTORY -> loaded as WIT package"
SIGNATURE = {"wat-dir": SIG_WAT, "wasm-dir": SIG_WASM}

# Findings proposed to the main session (which owns /verif/known-findings.json). Consulted locally so that the
# check stays strict (the failing cases are still evaluated and reported) without alarming on the unchanged tree.
PROPOSED_KNOWN = [
    dict(property=PID, id="C18-F1", status="known", signature=SIG_WAT, witness=W_WAT_DIR_SHADOWS,
         witnesses=[W_WAT_DIR_SHADOWS, W_WAT_DIR_BREAKS],
         text="with the `wat` feature, a directory named `<pkg>.wat` (or `<version>.wat`) in the deps tree is selected by "
              "`path.exists()` and then loaded as a WIT package (or fails resolution) although a valid `<pkg>.wasm` file "
              "sits next to it; README/property: a `.wat` FILE is preferred, otherwise the `.wasm` file is used"),
    dict(property=PID, id="C18-F2", status="known", signature=SIG_WASM, witness=W_WASM_DIR_LOADED,
         witnesses=[W_WASM_DIR_LOADED, W_WASM_DIR_ERROR],
         text="a directory named `<pkg>.wasm` in the deps tree is loaded as a WIT package (or fails resolution with "
              "PackageResolutionFailure even in skip mode) instead of the package being treated as missing; only "
              "`<deps>/ns/name[/<version>]` itself is documented as a WIT package directory"),
]

CORPUS = [
    W_WAT_DIR_SHADOWS, W_WAT_DIR_BREAKS, W_WASM_DIR_LOADED, W_WASM_DIR_ERROR,
    # extension appended, not replaced: decoys at the names a replacing set_extension would produce
    mk_case("foo:bar", "1.2.3", [("deps/foo/bar/1.2.3.wasm", "bin"), ("deps/foo/bar/1.2.wasm", "bin"), ("deps/foo/bar/1.2.wat", "wat-text")]),
    mk_case("foo:bar", "1.2.3", [("deps/foo/bar/1.2.wasm", "bin"), ("deps/foo/bar/1.2.wat", "wat-text")], mode=1),
    mk_case("foo:bar", "2.0.0+build.7", [("deps/foo/bar/2.0.0+build.7.wat", "wat-text"), ("deps/foo/bar/2.0.0+build.wasm", "bin")]),
    # .wat preferred over .wasm; .wasm used without .wat
    mk_case("foo:bar", None, [("deps/foo/bar.wat", "wat-text"), ("deps/foo/bar.wasm", "bin")]),
    mk_case("ns:pkg:sub", "0.1.0-rc.1", [("deps/ns/pkg/sub/0.1.0-rc.1.wasm", "bin")]),
    # directory at B wins over both files
    mk_case("solo", None, [("deps/solo", "wit-pkg-dir"), ("deps/solo.wat", "wat-text"), ("deps/solo.wasm", "bin")]),
    # overrides: unversioned only, exclusive, must exist
    mk_case("foo:bar", None, [("ov/x.wasm", "bin"), ("deps/foo/bar.wasm", "bin")], overrides=[("foo:bar", "ov/x.wasm")]),
    mk_case("foo:bar", "1.2.3", [("ov/x.wasm", "bin"), ("deps/foo/bar/1.2.3.wasm", "bin")], overrides=[("foo:bar", "ov/x.wasm")]),
    mk_case("foo:bar", "1.2.3", [("ov/x.wasm", "bin")], overrides=[("foo:bar", "ov/x.wasm")], mode=0),
    mk_case("foo:bar", None, [("deps/foo/bar.wasm", "bin")], overrides=[("foo:bar", "ov/missing.wasm")], mode=0),
    mk_case("foo:bar", None, [("ov/d", "wit-pkg-dir")], overrides=[("foo:bar", "ov/d")]),
    mk_case("foo:bar", None, [("ov/x.wit", "wit-text")], overrides=[("foo:bar", "ov/x.wit")]),
    # missing, both modes
    mk_case("foo:bar", None, [("deps/foo/other.wasm", "bin")], mode=1),
    mk_case("foo:bar", None, [("deps/foo/other.wasm", "bin")], mode=0),
]


def with_wat(case, flag):
    f = case.split("\t"); f[1] = flag
    return "\t".join(f)


def harness_env(flag):
    """The harness builds its layouts under std::env::temp_dir(); point that at a RAM-backed directory when there
    is one (10x faster than the disk), otherwise leave the default."""
    env = dict(vlib.ENV, C18_WAT_FEATURE=flag)
    if "TMPDIR" not in os.environ and os.path.isdir("/dev/shm") and os.access("/dev/shm", os.W_OK):
        env["TMPDIR"] = "/dev/shm"
    return env


def build_nowat():
    """Build harness/c18nowat (same sources, wac-resolver without `wat`) into the shared target directory."""
    d = os.path.join(vlib.HARNESS, "c18nowat")
    with vlib.Lock("cargo"):
        if not os.path.exists(os.path.join(d, "Cargo.lock")):
            vlib.sh(f"cp {vlib.HARNESS}/Cargo.lock {d}/Cargo.lock")
        env = dict(vlib.ENV, CARGO_TARGET_DIR=os.path.join(vlib.HARNESS, "target"))
        rc, out = vlib.sh(f"cargo build --offline{vlib.cargo_paths_override()} --bin c18nowat", cwd=d, timeout=2400, env=env)
        return rc == 0, out


def nontrivial(case, impl):
    """A case is non-trivial when at least two of the locations the lookup may consult are occupied (B, B.wat,
    B.wasm, an override for the key's name), i.e. a precedence / applicability decision is exercised."""
    f = case.split("\t")
    name, ver = dec(f[3]), (None if f[4] == "none" else dec(f[4]))
    comps = name.split(":") + ([ver] if ver else [])
    b = dec_path(f[5]) + "/" + "/".join(comps)
    present = {dec_path(e.split(":", 3)[3]) for e in (f[7].split("|") if f[7] else [])}
    ovs = [dec(e.split("=")[0]) for e in (f[6].split("|") if f[6] else [])]
    return len({b, b + ".wat", b + ".wasm"} & present) + (1 if name in ovs else 0) >= 2


def run(res, tier, seed, replay):
    vlib.proof_stage(res, PID)
    ok, log = vlib.ensure_extraction("c18", "theories/extract/ExtractC18.v")
    if not ok:
        res.violation(dict(kind="machinery-error", what="extraction/driver build failed", log=log[-3000:]), no_input=True)
        return
    ok, log = vlib.cargo_build(["c18"])
    if ok:
        ok, log = build_nowat()
    if not ok:
        res.violation(dict(kind="broken-tie", what="harness does not build against the repository", log=log[-3000:]), no_input=True)
        return
    rd = os.path.join(vlib.BUILD, "c18", "run"); os.makedirs(rd, exist_ok=True)
    cases_p, impl_p, model_p = (os.path.join(rd, x) for x in ("cases.txt", "impl.txt", "model.txt"))
    listed_ids = {e.get("id") for e in vlib.load_known(PID)}
    known = [e for e in vlib.load_known(PID)] + [e for e in PROPOSED_KNOWN if e["id"] not in listed_ids]
    # fixed cases run first: corpus file, in-file regression list, witnesses of every known entry
    fixed = []
    corpus = os.path.join(vlib.ROOT, "corpus", PID, "cases.txt")
    if os.path.exists(corpus):
        fixed += [l for l in open(corpus).read().split("\n") if l.strip()]
    fixed += CORPUS
    for e in known:
        fixed += [w for w in ([e.get("witness")] + list(e.get("witnesses", []))) if w]
    seen = set(); fixed = [c for c in fixed if not (c in seen or seen.add(c))]
    if replay:
        rp = json.load(open(replay))
        fixed = rp.get("cases") or [rp.get("case", "")]
    cases, impl, n_fixed = [], [], 0
    # two builds of the same harness: wac-resolver with wit+wat (harness crate) and with wit only (c18nowat)
    for flag, binary in (("1", "c18"), ("0", "c18nowat")):
        if replay:
            mine = [c for c in fixed if c.split("\t")[1:2] == [flag]]
            if not mine:
                continue
        else:
            mine = [with_wat(c, flag) for c in fixed]
        env = harness_env(flag)
        fx, cs, im = (os.path.join(rd, f"{n}.{flag}") for n in ("fixed_in.txt", "cases.txt", "impl.txt"))
        open(fx, "w").write("\n".join(mine) + "\n")
        rc, out = vlib.sh(f"{vlib.hbin(binary)} {tier} {seed} {cs}.f {im}.f {fx}", timeout=3000, env=env)
        if rc != 0:
            res.violation(dict(kind="machinery-error", what=f"harness run (fixed cases, wat={flag}) failed", log=out[-3000:]), no_input=True)
            return
        cases += open(cs + ".f").read().split("\n")[:-1]; impl += open(im + ".f").read().split("\n")[:-1]
        n_fixed += len(mine)
    if not replay:
        for flag, binary in (("1", "c18"), ("0", "c18nowat")):
            env = harness_env(flag)
            cs, im = (os.path.join(rd, f"{n}.{flag}") for n in ("cases.txt", "impl.txt"))
            rc, out = vlib.sh(f"{vlib.hbin(binary)} {tier} {seed} {cs} {im}", timeout=3000, env=env)
            if rc != 0:
                res.violation(dict(kind="machinery-error", what=f"harness run (wat={flag}) failed", log=out[-3000:]), no_input=True)
                return
            cases += open(cs).read().split("\n")[:-1]; impl += open(im).read().split("\n")[:-1]
    open(cases_p, "w").write("\n".join(cases) + "\n"); open(impl_p, "w").write("\n".join(impl) + "\n")
    rc, out = vlib.sh(f"{os.path.join(vlib.BUILD, 'c18', 'driver')} < {cases_p} > {model_p}", timeout=3000)
    model = open(model_p).read().split("\n")[:-1]
    assert len(cases) == len(impl) == len(model), (len(cases), len(impl), len(model))

    disagreements = []      # impl vs the model of the current code (resolve_one_fixed), on every layout
    expect_fixed = not any(e.get("status") == "known" and e.get("signature") in SIGNATURE.values() for e in known)
    prop_fail = []          # impl vs specification table, not covered by a known entry
    known_hits = {}         # entry id -> [cases]
    nontriv = set()
    outcomes = {}
    n_multi = 0
    for c, i, m in zip(cases, impl, model):
        mf = m.split("\t")
        if c.startswith("c18m\t"):
            # several keys in one call: <model of the call (resolve_all)> \t <per-key table answers composed> \t <wf>
            n_multi += 1
            if len(mf) != 3 or mf[2] != "1":
                disagreements.append((c, i, m)); continue
            head = " ".join(i.split(" ")[:3]) if i.startswith("MULTI ERR") else " ".join(i.split(" ")[:2])
            outcomes[head] = outcomes.get(head, 0) + 1
            if i != mf[1]:
                prop_fail.append((c, i, m, "several keys in one resolve call: the answer differs from the documented "
                                  "per-key answers (each key must be resolved as if it were requested alone, the first "
                                  "failing key ends the call)"))
            if i != mf[0]:
                disagreements.append((c, i, m))
            continue
        if len(mf) < 4 or mf[3] != "1":
            disagreements.append((c, i, m)); continue
        m_obs, s_obs, dev = mf[0], mf[1], mf[2]
        # the model of the CURRENT code: resolve_one_fixed once the repair d297b59 is recorded as `fixed`
        # (no `known` entry with a deviation signature left), the as-found model resolve_one otherwise
        cur_obs = mf[5] if (expect_fixed and len(mf) > 5) else m_obs
        head = " ".join(i.split(" ")[:2]) if i.startswith("ERR") else i.split(" ")[0]
        outcomes[head] = outcomes.get(head, 0) + 1
        if nontrivial(c, i):
            nontriv.add(c)
        spec_ok = (i == s_obs)
        model_ok = (i == m_obs)          # behaves like the code AS FOUND (used to recognise the recorded defect)
        cur_ok = (i == cur_obs)          # behaves like the model of the current code
        if not spec_ok:
            sig = SIGNATURE.get(dev)
            ent = next((e for e in known if e.get("status") == "known" and e.get("signature") == sig), None) if sig else None
            if ent is not None and model_ok:
                known_hits.setdefault(ent["id"], []).append((c, i, s_obs))
            else:
                prop_fail.append((c, i, m, "observation differs from the documented decision table"
                                  + (" (deviation situation %s, but not the recorded behaviour)" % dev if sig else "")))
        if not cur_ok:
            disagreements.append((c, i, m))
    # KNOWN-FINDING lines: only for entries whose witness still fails
    for e in known:
        if e.get("status") != "known":
            continue
        ws = [w for w in ([e.get("witness")] + list(e.get("witnesses", []))) if w]
        hits = known_hits.get(e["id"], [])
        still = [h for h in hits if h[0] in ws]
        if still:
            c, i, s_obs = still[0]
            res.known.append("%s still reproduces (%d of %d layouts of this run): %s | witness key=%s layout=%s got `%s` "
                             "table says `%s`" % (e["id"], len(hits), len(cases), e["text"], pretty(c)["key"],
                                                  "; ".join(pretty(c)["layout"]), i, s_obs))
    pairs = list(zip(cases, impl))
    samples = [dict(case=pretty(c), implementation=i)
               for c, i in [p for p in pairs[n_fixed:] if p[0] in nontriv][:3] + pairs[:1] + pairs[-1:]]
    res.coverage.update(dict(
        correspondence_cases=len(cases), disagreements=len(disagreements), spec_failures_on_impl=len(prop_fail),
        known_deviation_cases=sum(len(v) for v in known_hits.values()),
        evaluations=len(cases), distinct_nontrivial=len(nontriv), outcome_histogram=outcomes,
        exhaustive=(tier == "thorough" and not replay),
        rule="layout space = 27 key variants (names of 1..3 ':'-separated parts x {unversioned, 1.2.3, 0.1.0-rc.1, "
             "2.0.0+build.7, 1.0.0-alpha.2+b.9}, versioned ones with and without decoy files at the names a replacing "
             "set_extension would consult) x B in {absent, file, WIT dir, plain dir} x B.wat in {absent, WAT text, garbage, "
             "binary, WIT dir, plain dir} x B.wasm in {absent, binary, WAT text, WIT dir, plain dir} x override in {none, "
             "other name, .wasm, .wat, bad .wat, .wit, bad .wit, no extension, dangling, directory, binary .wat} x both "
             "unknown-package modes = 71,280 layouts, each built in a fresh temp dir and resolved by the real "
             "FileSystemPackageResolver, once per feature build (wit+wat, wit only). quick: seeded 1-in-8 sample; thorough: all. %d fixed regression/witness cases "
             "run first. non-trivial = at least two of {B, B.wat, B.wasm, override for the key's name} are "
             "occupied (a precedence/applicability decision is exercised); distinct = distinct case lines" % n_fixed,
        samples=samples,
        trusted_base=vlib.TRUSTED_COMMON + [
            "model FsResolve.v (fs.rs resolve, one key) is hand-written; tied to the code by this correspondence",
            "file system abstracted to path -> Absent|File|Dir (is_file/is_dir/exists/read only); symlinks, permissions, "
            "races, non-UTF-8 and non-plain path components are outside the model",
            "oracles, not verified: wat::parse_bytes, wit_parser::Resolve::push_dir/push_file, wit_component::encode "
            "(the harness recomputes them with the same crates to identify returned bytes exactly)",
            "std::path set_extension/extension are modelled (rsplit at the last dot, leading-dot rule), validated only "
            "through the correspondence",
            "two feature builds are exercised (wit+wat, wit); a build without `wit` is not modelled"]))
    res.assumptions = ["keys are single name/version pairs; name parts and version text are plain non-empty path components",
                       "version.to_string() equals the canonical text the key was built from (asserted by the harness)",
                       "multi-key calls: %d of this run's cases resolve 1-3 keys (pairwise different package names) in ONE call "
                       "over a merged layout (model resolve_all)" % n_multi]
    prop_fail.sort(key=lambda t: "deviation situation" in t[3])   # plain table failures first
    for c, i, m, why in prop_fail[:5]:
        res.violation(dict(kind="property-fails-on-implementation", what=why, case=c, pretty=pretty(c),
                           implementation=i, model_spec_deviation=m))
    if not prop_fail:
        if disagreements:
            c, i, m = disagreements[0]
            res.violation(dict(kind="correspondence-broken", what="model and implementation differ; the documented table "
                               "still holds on every implementation observation of this run",
                               correspondence="FsResolve.v vs crates/wac-resolver/src/fs.rs", case=c, pretty=pretty(c),
                               implementation=i, model=m, n=len(disagreements)), no_input=True)
        if res.proof_broken:
            res.violation(res.proof_broken, no_input=True)
