"""C03: output imports/exports are exactly those implied; implicit imports are shared."""
import re
from props import enc_common as ec
import vlib

PID = "C03"

CLAIM = dict(
    text="For every generated composition and both dependency modes the import and export sections of the REAL output "
         "(independent section reader) are compared with the specification computed from the composition graph by "
         "extracted Coq functions: imports = explicit imports + one import per semver track of unsatisfied argument "
         "names, named for the highest version (Names/Semver models of C15), whose instance type exports the union of "
         "what the sharers need, + dependency interfaces imported by the type encoder (classified, not predicted); "
         "exports = designated names + every type definition with the sort of the designated node; agreement with "
         "CompositionGraph::imports() after canonicalisation; invariance of the interface under dependency-preserving "
         "permutations of node creation. Coq theorems: canonical_is_highest_on_track (the aggregator's name bookkeeping "
         "always answers with ONE entry per semver track, named for the highest aggregated version, for every aggregation "
         "order), canon_order_independent, imports_spec and exports_spec (the imports/exports of the model encoder's log equal "
         "the specification for every emission order and every type-encoder behaviour), exports_spec_reachable (for every graph "
         "built through the API the exports of the output are exactly the export map, definitions included: export() renames a "
         "definition), a _refuted witness for the remaining side condition (import dedup by interface id) and the regression "
         "instance of the repaired definition-rename defect. The export names of the real output are also compared with the "
         "export map the implementation itself reports (get_export).",
    design_ref="DESIGN.md §5 C03",
    note="Trusted: Coq kernel, extraction, OCaml driver, Rust harness incl. the section reader. Dependency-interface "
         "imports made by TypeEncoder::import_deps are recognised by name (an interface id of the universe, instance sort), "
         "not predicted. Type-level merge conflicts between kinds of the same class are accepted as observed.",
    technique="specification-vs-real-output comparison through extracted Coq functions + Coq proofs over the encoder/aggregator name model")

W_DEF = "H def 6 0;export 0 7"
W_DEDUP = "H reg 4;inst 0 0;imp 17 6"
W_UNWRAP = "H reg 4;inst 0 0;imp 28 1"
W_SHARED = "H imp 14 3;imp 13 8;imp 29 3"
W_DEPLOW = "H reg 11;reg 10;inst 1 0;alias 0 19;inst 0 0;setarg 2 30 1;inst 0 0"

PROPOSED_KNOWN = [
    dict(property=PID, id="C03-def-extra-export-name", status="fixed", signature=ec.SIG_DEF_EXTRA_NAME, witness=W_DEF,
         text="fixed: property=C03 1d500c2 export(definition_node, \"bar\") on a type definition `foo`: get_export answered for "
              "both names, the encoded component exported only `bar`"),
    dict(property=PID, id="C03-import-dedup-by-interface-id", status="known", signature=ec.SIG_IMPORT_DEDUP, witness=W_DEDUP,
         text="explicit import `my-t` of an interface whose id (a:b/c@0.2.0) is also imported implicitly: graph.imports() lists "
              "`my-t`, the output does not import it"),
    dict(property=PID, id="C03-explicit-import-merge-unwrap", status="known", signature=ec.SIG_EXPLICIT_UNWRAP, witness=W_UNWRAP,
         text="explicit import `a:b/c@0.2.5` of a function while an instantiation implicitly imports instance `a:b/c@0.2.0`: "
              "encode panics (`.unwrap()` in resolve_imports) instead of returning ImportTypeMergeConflict"),
    dict(property=PID, id="C03-dep-import-named-for-lower-version", status="known", signature=ec.SIG_DEP_LOWER, witness=W_DEPLOW,
         text="consumers of u:s/types@1.0.0 and @1.1.0: when `u:s/api@1.1.0` (which `use`s types) happens to be imported before "
              "the canonical `u:s/types@1.1.0`, the shared import is emitted as `u:s/types@1.0.0` (the lower version); with "
              "another aggregation order it is `u:s/types@1.1.0`"),
    dict(property=PID, id="C03-merge-mutates-shared-interface", status="fixed", witness=W_SHARED,
         signature="TypeAggregator::merge_interface merges in place into the aggregated interface; two imports whose kinds are the SAME "
                   "interface (by identity) share that aggregated interface, so merging one of them with a semver-compatible import "
                   "also enlarges the other",
         text="imports `x:y/z@1.2.0` and `k` of one interface {x,y}, plus `x:y/z@1.0.0` {p}: the output requires `k` to export p, x, y "
              "although nothing asked `k` for p"),
]

CORPUS = [
    W_DEF, W_DEDUP, W_UNWRAP, W_DEPLOW, W_SHARED,
    # three versions on one track + another track + unversioned
    "H reg 4;reg 5;reg 7;reg 6;inst 0 0;inst 1 0;inst 2 0;inst 3 0",
    "H reg 7;reg 4;inst 0 0;inst 1 0;imp 11 3;export 2 22",
    # explicit import on the track of implicit ones
    "H reg 4;inst 0 0;imp 11 3;reg 7;inst 1 0",
    # use-dependent: consumers on 1.0.0 and 1.1.0 share types/api
    "H reg 9;reg 11;inst 0 0;inst 1 0",
    "H reg 9;reg 10;inst 1 0;alias 0 19;inst 0 0;setarg 2 19 1",
    # conflict outcomes
    "H reg 1;inst 0 0;imp 0 0",
    # version ORDER, not field-wise comparison: 1.2.0 > 1.1.5 (larger minor, smaller patch), higher version created first / last
    "H reg 13;reg 12;inst 0 0;inst 1 0",
    "H reg 12;reg 13;inst 0 0;inst 1 0",
    "H reg 14;reg 13;reg 16;reg 12;inst 0 0;inst 1 0;inst 2 0;inst 3 0",
    "H reg 12;reg 16;reg 13;reg 14;inst 0 0;inst 1 0;inst 2 0;inst 3 0",
    "H reg 21;reg 19;inst 0 0;inst 1 0",
    # tracks are compared as keys, not as textual prefixes: 1.x vs 12.x, 0.2.x vs 0.21.x, longer-numbered created first / last
    "H reg 15;reg 13;inst 0 0;inst 1 0",
    "H reg 13;reg 15;inst 0 0;inst 1 0",
    "H reg 20;reg 19;inst 0 0;inst 1 0",
    "H reg 19;reg 20;inst 0 0;inst 1 0",
    "H reg 20;reg 21;reg 19;reg 22;inst 0 0;inst 1 0;inst 2 0;inst 3 0",
    # pre-release (no track) and build metadata (on the track, ordered by the semver crate) next to the release
    "H reg 18;reg 13;reg 17;inst 0 0;inst 1 0;inst 2 0",
    "H reg 13;reg 17;reg 18;inst 0 0;inst 1 0;inst 2 0;imp 36 2",
    # explicit imports on those tracks
    "H imp 35 2;reg 12;inst 0 0;imp 37 2",
    "H imp 42 4;imp 41 4;reg 21;inst 0 0",
]


def known_entries():
    listed = vlib.load_known(PID)
    ids = {e.get("id") for e in listed}
    return listed + [e for e in PROPOSED_KNOWN if e["id"] not in ids]


def real_imports(row, m):
    """[(name, sort, frozenset(export names) | None, is_dep)] of the real output"""
    im, mo = row["impl"], row["model"]
    deps = [e.rsplit("|", 2) for e in filter(None, mo.get(m + ".decimp", "").split(";"))]
    out = []
    for k, e in enumerate(filter(None, im.get(m + ".imp", "").split(";"))):
        nm, so, det = e.split("|", 2)
        ex = None
        if so == "instance":
            ex = frozenset(ec.dec_name(x) for x in det.split("+") if x) if det != "?" else None
        dep = deps[k][2] == "1" if k < len(deps) else False
        out.append((ec.dec_name(nm), so, ex, dep))
    return out


def real_exports(row, m):
    out = []
    for it in filter(None, row["impl"].get(m + ".log", "").split(";")):
        f = it.split("|")
        if f[0] == "X":
            out.append((ec.dec_name(f[1]), f[2]))
    return out


def interface_sig(row, m):
    imps = real_imports(row, m)
    return (frozenset((n, s, e) for n, s, e, _ in imps), frozenset(real_exports(row, m)))


def check_row(row, u):
    """the C03 predicate on one implementation observation: list of (mode, why, known ids)"""
    fails = []
    im, mo = row["impl"], row["model"]
    if im.get("dead") or mo.get("dead"):
        return fails
    names = u["names"]
    iids = set(u["iid"].values())
    md = ec.multi_named_defs(row)
    bad_defs = {names[i] for v in md.values() for i in v}
    canon = dict(p.split(">", 1) for p in mo.get("canon", "").split(";") if p)
    for m in ec.MODES:
        real = im.get(m + ".enc0", "")
        oc = ec.outcome_class(real)
        if oc == "PANIC":
            ids = ["C03-explicit-import-merge-unwrap"] if ec.is_explicit_merge_unwrap(real) else []
            fails.append((m, "encode panicked instead of reporting an import conflict: " + real[:160], ids)); continue
        if oc != "ok" or m + ".specimp" not in mo:
            continue
        ids_imp, ids_exp = [], []
        mm = ec.dedup_mismatches(row, m)
        # ---- imports
        rimps = real_imports(row, m)
        spec = {tuple(e.rsplit("|", 1)) for e in filter(None, mo[m + ".specimp"].split(";"))}
        got = {(n, s) for n, s, _, dep in rimps if not dep}
        allnames = [n for n, _, _, _ in rimps]
        why = []
        if len(set(allnames)) != len(allnames):
            why.append("an import name occurs twice")
        for n, s, _, dep in rimps:
            if dep and not (s == "instance" and n in iids):
                why.append(f"unexplained import `{n}` ({s})")
        if got != spec:
            spec2 = set(spec)
            if mm:
                for req, found in mm:
                    if found in allnames:
                        spec2 = {(n, s) for n, s in spec2 if n != req}
            if mm and got == spec2:
                ids_imp += ["C03-" + ec.dedup_kind(a, b) for a, b in mm]
            else:
                why.append(f"imports differ: missing {sorted(spec - got)} unexpected {sorted(got - spec)}")
        # what every sharer needs from a shared instance import
        needs = {}
        for e in filter(None, mo.get("needs", "").split(";")):
            n, ex = e.split("|", 1)
            needs.setdefault(n, set()).update(x for x in ex.split("+") if x)
        # kind ids behind every canonical import name (from the graph's own listing)
        kids = {}
        for e in filter(None, im.get("api", "").split(";")):
            nm0, _, kid0, _ = e.split("|")
            nm0 = ec.dec_name(nm0)
            kids.setdefault(canon.get(nm0, nm0), set()).add(kid0)
        real_ex = {n: ex for n, s, ex, dep in rimps if s == "instance" and ex is not None}
        for n, s, ex, dep in rimps:
            if s == "instance" and not dep and n in needs and ex is not None and ex != needs[n] and not mm:
                # known: the same interface (by identity, same kind id) is imported under another name too, and THAT import was
                # merged with a semver-compatible one: the merge mutates the shared interface, so both imports grow
                twins = [m for m in needs if m != n and kids.get(m, set()) & kids.get(n, set()) and real_ex.get(m) == ex
                         and ex >= needs[n] | needs[m]]
                if twins and ex > needs[n]:
                    ids_imp.append("C03-merge-mutates-shared-interface")
                else:
                    why.append(f"instance import `{n}` exports {sorted(ex)}, the sharers need exactly {sorted(needs[n])}")
        # agreement with CompositionGraph::imports() (canonicalised with the specification's canonical-name function)
        api = set()
        for e in filter(None, im.get("api", "").split(";")):
            nm, cls, _, _ = e.split("|")
            nm = ec.dec_name(nm)
            api.add((canon.get(nm, nm), cls))
        got_nc = {(n, s) for n, s in got if s != "component"}
        if api != got_nc and not (mm and {(n, s) for n, s in api if n not in {r for r, _ in mm}} == got_nc):
            why.append(f"graph.imports() (canonicalised) {sorted(api)} != output imports {sorted(got_nc)}")
        elif api != got_nc:
            ids_imp += ["C03-" + ec.dedup_kind(a, b) for a, b in mm]
        # ---- exports
        rex = real_exports(row, m)
        sex = {tuple(e.rsplit("|", 1)) for e in filter(None, mo.get("specexp", "").split(";"))}
        if len({n for n, _ in rex}) != len(rex):
            why.append("an export name occurs twice")
        if set(rex) != sex:
            if bad_defs and {x for x in rex if x[0] not in bad_defs} == {x for x in sex if x[0] not in bad_defs}:
                ids_exp.append("C03-def-extra-export-name")
            else:
                why.append(f"exports differ: missing {sorted(sex - set(rex))} unexpected {sorted(set(rex) - sex)}")
        # agreement with the export map of the IMPLEMENTATION's graph (get_export over the name pool), definitions included
        map_names = ec.impl_export_names(row, names)
        notes = []
        if {n for n, _ in rex} != map_names:
            if bad_defs and {n for n, _ in rex} - bad_defs == map_names - bad_defs:
                ids_exp.append("C03-def-extra-export-name")
                notes.append(f"the output exports {sorted(n for n, _ in rex)} but the graph's export map has {sorted(map_names)} "
                             "(a type definition designated by several names: only its last name is encoded)")
            else:
                why.append(f"graph export map {sorted(map_names)} != output exports {sorted(n for n, _ in rex)}")
        if why:
            fails.append((m, "; ".join(why)[:600], []))
        elif ids_imp or ids_exp:
            fails.append((m, "imports/exports differ from the specification exactly as described by the finding(s) "
                          + ", ".join(sorted(set(ids_imp + ids_exp))) + ("; " + "; ".join(notes) if notes else ""),
                          sorted(set(ids_imp + ids_exp))))
    return fails


def run(res, tier, seed, replay):
    vlib.proof_stage(res, PID)
    known = known_entries()
    corpus = list(dict.fromkeys(CORPUS + [e["witness"] for e in known if e.get("witness")]))
    pr = ec.pipeline(res, PID, tier, seed, replay, corpus)
    if pr is None:
        return
    header, rows = pr
    u = ec.universe(header)
    known_ok = {e["id"] for e in known if e.get("status") == "known"}
    disagreements, prop_fail, known_hits = [], [], {}
    outcome_hist, checked = {}, 0
    shapes = set()
    for row in rows:
        d = ec.correspondence(row)
        if d:
            disagreements.append((row, d))
        for m in ec.MODES:
            oc = ec.outcome_class(row["impl"].get(m + ".enc0"))
            outcome_hist[oc] = outcome_hist.get(oc, 0) + 1
            checked += oc == "ok"
        if ec.outcome_class(row["impl"].get("D.enc0")) == "ok":
            sig = interface_sig(row, "D")
            canon = [p for p in row["model"].get("canon", "").split(";") if p and p.split(">")[0] != p.split(">")[1]]
            shared = len(row["model"].get("needs", "").split(";")) > len({e.split("|")[0] for e in row["model"].get("needs", "").split(";")})
            if (canon or shared) and sig[0]:
                shapes.add(sig)
        for m, why, ids in check_row(row, u):
            row.setdefault("known_ids", set()).update(ids)
            if ids and all(i in known_ok for i in ids):
                for i in ids:
                    known_hits.setdefault(i, []).append(row)
            else:
                prop_fail.append((row, m, why))
    # interface independence of creation order: all linearisations of one abstract composition
    groups = {}
    for row in rows:
        g = row["impl"].get("grp", "")
        groups.setdefault(g.split(".")[0], []).append(row)
    perm_groups = perm_compared = 0
    for gid, members in groups.items():
        if len(members) < 2:
            continue
        perm_groups += 1
        for m in ec.MODES:
            ocs = {ec.outcome_class(r["impl"].get(m + ".enc0")) for r in members}
            tainted = any(ec.dedup_mismatches(r, m) or ec.multi_named_defs(r) for r in members)
            if len(ocs) > 1:
                # which error is met first may depend on node order; success vs failure may not
                if "ok" in ocs:
                    prop_fail.append((members[0], m, f"encode outcome depends on creation order: {sorted(ocs)}; other order: "
                                      + next(r["case"] for r in members if ec.outcome_class(r['impl'].get(m + '.enc0')) != ec.outcome_class(members[0]['impl'].get(m + '.enc0')))))
                continue
            if ocs != {"ok"}:
                continue
            sigs = {interface_sig(r, m) for r in members}
            perm_compared += 1
            if len(sigs) > 1:
                kinds = {"C03-" + ec.dedup_kind(a, b) for r in members for a, b in ec.dedup_mismatches(r, m)}
                kinds |= {i for r in members for i in r.get("known_ids", ()) if i != "C03-def-extra-export-name"}
                tainted = tainted or bool(kinds)
                if tainted and kinds and kinds <= known_ok:
                    for k in kinds:
                        known_hits.setdefault(k, []).append(members[0])
                elif tainted and not kinds and "C03-def-extra-export-name" in known_ok:
                    known_hits.setdefault("C03-def-extra-export-name", []).append(members[0])
                else:
                    other = next(r for r in members if interface_sig(r, m) != interface_sig(members[0], m))
                    prop_fail.append((members[0], m, "imports/exports of the output change with the creation order of independent nodes; "
                                      "other order: " + other["case"]))
    for e in known:
        hits = known_hits.get(e["id"], [])
        if e.get("status") == "known" and hits:
            wit = [r for r in hits if r["case"] == e.get("witness")]
            res.known.append(f"{e['id']}: {e['text']} [witness `{e.get('witness')}` {'still fails' if wit else 'not replayed'}; "
                             f"{len(hits)} observations in this run match the signature]")
    res.coverage.update(dict(
        evaluations=len(rows) * 2, correspondence_cases=len(rows), outputs_checked=checked, disagreements=len(disagreements),
        spec_failures_on_impl=len(prop_fail), distinct_nontrivial=len(shapes), encode_outcomes=outcome_hist,
        permutation_groups=perm_groups, permutation_group_modes_compared=perm_compared,
        known_finding_observations={k: len(v) for k, v in known_hits.items()},
        rule="every fourth composition is an adaptive history WITH removals (remove_node, unregister_package, unexport, unset_instantiation_argument; nodes exported under several names before they disappear) followed by re-creation that reuses node and package identifiers, before the encode (no permutations for those); the others: same compositions as C02 (regression corpus + random accepted API histories over 23 packages incl. versioned "
             "interface names a:b/c@0.2.0/0.2.1/0.2.5/0.3.0, x:y/z@1.0.0/1.2.0, u:s/{types,api}@1.0.0/1.1.0 with `use`, "
             "v:w/i@1.1.5/1.2.0/1.10.0/1.4.0/12.0.1/1.3.0-rc.1/1.2.0+b5 and p:q/r@0.2.0/0.2.10/0.21.0/0.3.0 (numeric vs field-wise vs "
             "textual-prefix orders disagree)), each under "
             "up to 3/4 dependency-preserving creation orders, both dependency modes. non-trivial = distinct output interfaces "
             "(import name/sort/instance-export-names set + export name/sort set) of compositions in which at least two import "
             "requirements share one import (same name) or a name is redirected to a higher version on its track",
        samples=[r["case"] for r in rows[:2]] + [r["case"] for r in rows if r["src"] == "generated"][:3],
        trusted_base=vlib.TRUSTED_COMMON + [
            "Rust section reader in harness/src/bin/c02.rs (import/export sections, instance-type export names)",
            "dependency-interface imports made by TypeEncoder::import_deps are classified by name (interface id of the universe), not predicted",
            "models Graph.v / EncodeModel.v / Names.v / Semver.v hand-written; tied by correspondence on every run",
            "per-case universe computed by the real implementation (package worlds, instance exports, interface ids, subtype table)"]))
    res.assumptions = ["resource-free universe", "interface compared as name -> (sort, instance export names) maps, not byte order (DESIGN §8)",
                       "which of several errors is reported first may depend on node order; success/failure may not"]
    for row, m, why in prop_fail[:5]:
        res.violation(dict(kind="property-fails-on-implementation", what=why, mode=m, case=row["case"], cases=[row["case"]],
                           real_imports=row["impl"].get(m + ".imp", "")[:2000], spec_imports=row["model"].get(m + ".specimp", "")[:2000],
                           spec_exports=row["model"].get("specexp", "")[:1000], api=row["impl"].get("api", "")[:1000]))
    if not prop_fail:
        if disagreements:
            row, d = disagreements[0]
            res.violation(dict(kind="correspondence-broken", what="model and implementation differ: " + "; ".join(d)[:500] +
                               " — the import/export predicate still holds on every implementation observation of this run",
                               correspondence="Graph.v/EncodeModel.v vs graph.rs", case=row["case"], cases=[row["case"]],
                               n=len(disagreements)), no_input=True)
        if res.proof_broken:
            res.violation(res.proof_broken, no_input=True)
