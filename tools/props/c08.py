"""C08: decoding a package preserves its component type; re-encoding stays satisfiable."""
import json
import os
import re
import vlib

PID = "C08"

CLAIM = dict(
    text="PARTIAL by design. wasmparser's validator and its type information are external Rust code and stay oracles "
         "(assumed well-formed: finite, well-founded, well-typed type graph, unique import/export names -- well-typedness is "
         "checked on every case); the Coq theorems are about the wac conversion logic -- an executable model of "
         "Package::from_bytes / TypeConverter with its cache, owners, resource_map, use_or_own (incl. the repaired "
         "remember-created step), self-ownership reset and find_definitions -- over an abstract copy of the validator's "
         "type graph. Proved (11 theorems): the world lists exactly the component's imports and exports in order with the "
         "right kinds and the instance type is the export list; on the resource-free fragment every item unfolds to exactly "
         "the tree of the validator entity (parameter names/order/result/async, every value-type constructor, nested "
         "instance/component types, core module types); the cache is never overwritten, the same validator identifier always "
         "converts to the same wac identifier and distinct validator identifiers never share a wac slot; the `uses` field of "
         "every interface and world is exactly what the first-owner rule computes from the type items in conversion order "
         "(ghost log), the owners table is the rule's origin table, and every entry points to another interface and to an item "
         "that was its first owner; converted resources have the same alias root iff the validator gives them the same "
         "resource; with fuel above the ranks the conversion never runs out of fuel; on a well-typed graph it never raises "
         "a bad-index, invalid-cached-type or duplicate-item panic, and the dup-owner panic (finding F1) occurs exactly when "
         "the referenced type has no origin while an earlier type item has the same created identifier. NOT proved: "
         "faithfulness below own/borrow, exclusion of the expected-a-resource panic, the graph-level form of the F1 "
         "predicate (checked per case instead), the success of the joint traversal used by the observational predicates. "
         "Agreement with the reference validator is checked by correspondence only: for every generated component (WIT "
         "worlds through wit-component, shaped WAT) an independent wasmparser walk produces the type graph, the real "
         "Package::from_bytes result is compared arena by arena with the extracted model and against the specification "
         "predicates; the satisfiability half is a TEST, not a theorem: the package is re-encoded with "
         "define_components=false and the ORIGINAL component is substituted for the emitted unlocked-dep import inside an "
         "outer component validated by wasmparser. Ten defects/limitations found this way are known findings, one is fixed. "
         "Generated value types cover every constructor of wit-parser 0.247 / wac_types::DefinedType -- primitives incl. "
         "error-context, record, variant, enum, flags, tuple, list, fixed-size list, option, result (all four arm forms), "
         "own/borrow, stream and future with absent, primitive, named and ANONYMOUS compound payloads -- in parameter and "
         "result position of sync and async functions, in imported and exported interfaces and at world level; all of them "
         "are inside the model. Outside: `map` (the conversion refuses it with an error; not generated).",
    design_ref="DESIGN.md §5 C08, §10",
    note="Trusted: Coq kernel, extraction, OCaml driver (incl. structural equality of extracted trees), Rust harness "
         "(validator-graph dumper, arena printer, outer-component assembler), wasmparser/wit-component/wit-parser/"
         "wasm-encoder/wat as reference tools. The model state carries a ghost log of the use_or_own calls that nothing reads. "
         "TypeEncoder (the re-encoding half) is not modelled: it is checked on the implementation only.",
    technique="Coq proof (robust cache invariant over a fuel-indexed, state-threading conversion; arena frame relation; rank "
              "arguments for cache and fuel; replay of a ghost log for used-type provenance; freshness frame for identifier "
              "injectivity and resource roots; progress under graph well-typedness) + extracted-model correspondence "
              "(whole-arena equality) + specification predicates on implementation observations + reference-validator "
              "substitution test")

# ---------------------------------------------------------------------------------------------------------------------
# Findings proposed to the main session (see the final report).  Consulted locally so that the check exits 0 on the
# unchanged tree while still printing KNOWN-FINDING lines.  Each entry: a narrow signature = (status class of the
# observation, structural feature of the decoded world that is the root cause).  Witnesses live in corpus/C08/cases.txt
# (first field `wit`/`wat`, second the escaped source) and are replayed on every run.
PROPOSED_KNOWN = [
    dict(property=PID, id="from-bytes-panics-on-instance-type-instantiated-twice", status="known", key="F1",
         signature="Package::from_bytes: an instance type that exports a resource AND a defined/func/instance type is used by "
                   "two imports (or exports); the validator copies the instance type per use but the copies share the "
                   "`created` id of the non-resource type export, so TypeConverter::use_or_own inserts the same owner key "
                   "twice -> assert!(prev.is_none()) panics",
         witness="wat\t(component (type $it (instance (type $t' (list u8)) (export \"t\" (type $t (eq $t'))) (export \"r\" (type (sub resource))))) "
                 "(import \"a\" (instance (type $it))) (import \"b\" (instance (type $it))))",
         text="valid component; Package::from_bytes panics `assertion failed: prev.is_none()` (package.rs use_or_own)"),
    dict(property=PID, id="component-type-cannot-express-module-component-value-items", status="known", key="F2",
         signature="encode(define_components=false): the package's world (at any depth) has an item of kind module, component "
                   "or value -> TypeEncoder::import/export panic `expected only types, functions, and instance types`",
         witness="wat\t(component (import \"m\" (core module $m (export \"run\" (func (param i32))))) (export \"m2\" (core module $m)))",
         text="TypeEncoder::{import,export} handle only type/func/instance items; a package importing or exporting a core "
              "module, a component or a value cannot be imported as a dependency (embedding it works)"),
    dict(property=PID, id="uses-of-an-exported-interface-resolved-by-name", status="known", key="F3",
         signature="encode(define_components=false): an exported interface of the package `use`s a type of another EXPORTED "
                   "interface (not an import); TypeEncoder resolves `uses` through the name-keyed `instances` map, which "
                   "holds imports only: the alias is taken from the imported instance of that name (wrong resource / missing "
                   "export) or a spurious import of that name is added to the component type",
         witness="wit\tpackage test:gen;\\ninterface i1 { resource r; }\\ninterface i2 { use i1.{r}; f: func(a: r); }\\n"
                 "world w { import i2; export i1; export i2; }\\n",
         text="emitted unlocked-dep component type is not satisfied by the original component (resource types are not the "
              "same), or the output is invalid (missing import / no such export), or encode panics `no entry found for key`"),
    dict(property=PID, id="stale-use-alias-of-enclosing-scope-captured-by-name", status="known", key="F4",
         signature="encode(define_components=false): the package imports a TYPE named n at world level and the last implicitly "
                   "imported interface has a `use` entry named n: State::used_type_index finds the stale name-keyed "
                   "type_aliases entry of the enclosing (builder) scope and emits an outer alias to an unrelated type",
         witness="wit\tpackage test:gen;\\ninterface i3 { record u { f0: string } }\\ninterface i4 { type u = s16; }\\n"
                 "world w { import i4; import inl: interface { use i3.{u}; nf0: func(a: u); } use i4.{u}; import g: func(a: u); }\\n",
         text="the component type written for the dependency imports `u` as (eq <outer alias of the record i3.u>) instead of s16: output "
              "invalid / not satisfied"),
    dict(property=PID, id="instance-type-with-inner-resource-exported-as-type", status="known", key="F5",
         signature="an item of kind TYPE whose type is an instance/component type that itself declares a resource: the reference "
                   "validator compares resources bound inside such a type by identity, so no separately written component type "
                   "can be matched (not repairable in wac)",
         witness="wat\t(component (type $it (instance (export \"r\" (type (sub resource))))) (export \"ity\" (type $it)))",
         text="substitution does not validate: `resource types are not the same` for the inner resource of the exported type"),
    dict(property=PID, id="encoder-fails-on-handle-in-top-level-import", status="known", key="F6",
         signature="encode (BOTH modes): an unsatisfied top-level import of the package (function or type) mentions a resource "
                   "handle: borrow -> `assert!(!state.scopes.is_empty())`; own of a resource that is not itself a top-level "
                   "import -> `no entry found for key` (TypeEncoder::borrow/own index state.current.resources by name)",
         witness="wit\tpackage test:gen;\\ninterface i0 { resource r; }\\nworld w { use i0.{r}; import f: func(a: borrow<r>); }\\n",
         text="independent of how the dependency is supplied (also fails with define_components=true); reported here because "
              "C08's quantifier covers own/borrow"),
    dict(property=PID, id="encoder-general-failure-independent-of-mode", status="known", key="F7",
         signature="encode fails or produces an invalid component in BOTH modes for a world that contains module/component/value "
                   "items or instance types with inner resources exported as types (implicit-import path, not the dependency type)",
         witness="wat\t(component (import \"c\" (component $c (export \"e\" (component (export \"f\" (func)))))) (import \"v\" (value $v string)) (export \"v2\" (value $v)))",
         text="same root causes as F2/F5 seen through the implicit imports of the composition"),
    dict(property=PID, id="reference-validator-panics-on-shared-instance-type-arguments", status="known", key="F8",
         signature="two top-level instance imports of the package have the SAME instance type (no resource inside, so the "
                   "validator shares the type id and wac shares the InterfaceId) and that type exports a func/instance type as a "
                   "type: validating the composition makes wasmparser itself panic (SubtypeCx::register_type_renamings, "
                   "`assert!(prev.is_none())`), so the reference validator gives no verdict",
         witness="wat\t(component (type $it (instance (type $f' (func)) (export \"ft\" (type $f (eq $f'))))) "
                 "(import \"a\" (instance (type $it))) (import \"b\" (instance (type $it))))",
         text="oracle failure (wasmparser 0.247 panic while validating the encoded composition, both modes); not attributable to wac"),
    dict(property=PID, id="exported-interface-type-mentions-foreign-named-type-without-use", status="known", key="F9",
         signature="encode(define_components=false): an EXPORTED interface has a type item (e.g. `type res = e` where `e` is "
                   "`use`d from another interface) whose definition structurally contains a record/variant/enum/flags of another "
                   "interface; for exported instances the validator gives no alias link from the item to the used type, "
                   "from_bytes records a structural copy with no `uses` entry (find_owner does not see ids that were themselves "
                   "resolved to an owner), and TypeEncoder re-declares the foreign named type anonymously",
         witness="wit\tpackage test:gen;\\ninterface i0 { flags item { fa, fb } record e { f1: item } }\\n"
                 "interface i2 { use i0.{e}; type res = e; }\\nworld w { export i2; }\\n",
         text="output invalid: `instance not valid to be used as export` (anonymous flags/record inside the exported instance type)"),
    dict(property=PID, id="uses-entry-points-to-interface-without-id", status="known", key="F10",
         signature="an instance type that exports a func/instance/component type AS A TYPE is used by two plain-named imports "
                   "(copies made by the validator because the type also declares a resource): such type ids are not aliasable, so "
                   "use_or_own makes the second copy `use` the first; the first has no interface id (plain name) and the encoder "
                   "cannot import it as a dependency",
         witness="wat\t(component (type $it (instance (export \"r\" (type (sub resource))) (type $f' (func)) (export \"ft\" (type $f (eq $f'))))) "
                 "(import \"a\" (instance (type $it))) (import \"b\" (instance (type $it))))",
         text="encode fails in both modes: `failed to merge the type definition for implicit import` / `interface should have an id`"),
    dict(property=PID, id="resources-keyed-by-name-in-one-scope", status="known", key="F11",
         signature="encode: two different resources whose (source) names coincide are visible in one encoding scope, e.g. world-level "
                   "`use a.{u}; use b.{u as v}`: TypeEncoder keeps `resources: IndexMap<String, u32>` keyed by the resource NAME and "
                   "import_resource/own/borrow look the source up by name, so the second resource is encoded as an alias of the first",
         witness="wit\tpackage test:gen;\\ninterface i2 { resource u; }\\ninterface i3 { resource u; }\\n"
                 "world w { use i2.{u}; use i3.{u as v}; import f: func(a: u, b: v); }\\n",
         text="emitted component type equates two distinct resources: substitution fails `resource types are not the same`; "
              "in other arrangements the output is invalid or encode panics `no entry found for key`"),
]

# (known-finding key, mode, status pattern): the first rule whose structural feature is present and whose pattern matches
# the re-encoding status classifies the failure.  mode: "imported" = only define_components=false fails,
# "both" = the embedded composition fails / is invalid too, "any".
RULES = [
    ("F10", "any", r"failed to merge the type definition|should have an id"),
    ("F8", "any", r"validator panicked"),
    ("F11", "any", r"resource types are not the same|no entry found for key|^OUTPUT-INVALID"),
    ("F9", "imported", r"not valid to be used as (export|import)|no entry found for key"),
    ("F6", "both", r"scopes\.is_empty\(\)|no entry found for key"),
    ("F2", "imported", r"expected only types, functions, and instance types"),
    ("F3", "imported", r"^UNSATISFIED|^OUTPUT-INVALID|no entry found for key"),
    ("F5", "imported", r"resource types are not the same"),
    ("F4", "any", r"^UNSATISFIED|^OUTPUT-INVALID"),
    ("F9", "both", r"not valid to be used as (export|import)|no entry found for key"),
    ("F2", "both", r"^REENC-FAIL|^OUTPUT-INVALID"),
    ("F5", "both", r"^REENC-FAIL|^OUTPUT-INVALID"),
]

PANIC_MAP = [
    ("assertion failed: prev.is_none()", ("PANIC:dup-owner", "PANIC:dup-item")),
    ("expected a resource", ("PANIC:expected-resource",)),
    ("invalid cached type", ("PANIC:invalid-cached",)),
]


# ------------------------------------------------------------------------------------------------------- arena parsing
class Toks:
    def __init__(self, t):
        self.t, self.p = t, 0

    def next(self):
        x = self.t[self.p]; self.p += 1; return x

    def num(self):
        return int(self.next())


def parse_arenas(text):
    a = dict(D=[], R=[], F=[], I=[], W=[], M=[], P=None)
    for d in text.split(" ; "):
        t = Toks(d.split(" "))
        k = t.next()
        if k == "D":
            a["D"].append(t.t[1:])
        elif k == "R":
            a["R"].append(t.t[1:])
        elif k == "F":
            asy = t.next(); n = t.num()
            ps = [(t.next(), t.next()) for _ in range(n)]
            a["F"].append(dict(is_async=asy, params=ps, result=t.next()))
        elif k in ("I", "W"):
            ident = t.next(); nu = t.num()
            uses = [(t.next(), int(t.next()), t.next()) for _ in range(nu)]
            lists = []
            for _ in range(1 if k == "I" else 2):
                n = t.num(); lists.append([(t.next(), t.next()) for _ in range(n)])
            a[k].append(dict(id=ident, uses=uses, items=lists))
        elif k == "M":
            a["M"].append(t.t[1:])
        elif k == "P":
            w = t.num(); i = t.num(); n = t.num()
            a["P"] = dict(world=w, inst=i, defs=[(t.next(), t.next()) for _ in range(n)])
    return a


def def_handles(a):
    """for every defined type: does it (transitively) mention an own/borrow handle"""
    memo = {}

    def vt(x):
        if x[0] in "ob" and x[1:].isdigit():
            return True
        if x[0] == "d" and x[1:].isdigit():
            return dd(int(x[1:]))
        return False

    def dd(i):
        if i in memo:
            return memo[i]
        memo[i] = False
        t = a["D"][i]
        k = t[0]
        if k in ("tuple",):
            r = any(vt(x) for x in t[2:])
        elif k in ("list", "option", "alias", "stream", "future", "fsl"):
            r = t[1] != "-" and vt(t[1])
        elif k == "result":
            r = any(x != "-" and vt(x) for x in t[1:3])
        elif k in ("variant", "record"):
            r = any(x != "-" and vt(x) for x in t[3::2])
        else:
            r = False
        memo[i] = r
        return r

    return vt


def features(arenas_text, graph_text):
    """structural features used by the signatures"""
    f = set()
    a = parse_arenas(arenas_text)
    if not a["P"]:
        return f, a
    top = a["W"][a["P"]["world"]]
    imports, exports = top["items"]
    imp_ifaces = {int(k[2:]) for _, k in imports if k.startswith("i:")}
    exp_ifaces = {int(k[2:]) for _, k in exports if k.startswith("i:")}
    allitems = [it for i in a["I"] for l in i["items"] for it in l] + [it for w in a["W"] for l in w["items"] for it in l]
    if any(k.split(":")[0] in ("m", "c", "v") for _, k in allitems):
        f.add("F2")
    # F3: an exported interface uses a type owned by an interface that is not a top-level import
    for x in exp_ifaces:
        if any(y not in imp_ifaces for _, y, _ in a["I"][x]["uses"]):
            f.add("F3")
    # F4: world-level type import whose name is also a `use` entry name of some interface
    use_names = {n for i in a["I"] for n, _, _ in i["uses"]}
    if any(k.startswith("t") and n in use_names for n, k in imports):
        f.add("F4")
    # F5: a type item that is an instance / component type declaring a resource inside
    memo = {}

    def has_res(kind, idx):
        key = (kind, idx)
        if key in memo:
            return memo[key]
        memo[key] = False
        ent = a["I"][idx] if kind == "I" else a["W"][idx]
        r = False
        for l in ent["items"]:
            for _, k in l:
                if k.startswith("tr:"):
                    r = True
                elif k.startswith("i:") or k.startswith("ti:"):
                    r = r or has_res("I", int(k.split(":")[1]))
                elif k.startswith("c:") or k.startswith("tw:"):
                    r = r or has_res("W", int(k.split(":")[1]))
        memo[key] = r
        return r
    for _, k in allitems:
        if k.startswith("ti:") and has_res("I", int(k[3:])):
            f.add("F5")
        if k.startswith("tw:") and has_res("W", int(k[3:])):
            f.add("F5")
    # F9: an interface has a value-type item that is not a `use` and whose definition reaches a record/variant/enum/flags
    #     that is not one of its own items, or a handle of a resource that is not one of its own items
    def reach(i, acc, hs):
        for x in a["D"][i][1:]:
            if re.fullmatch(r"d\d+", x):
                j = int(x[1:])
                if j not in acc:
                    acc.add(j); reach(j, acc, hs)
            elif re.fullmatch(r"[ob]\d+", x):
                hs.add(int(x[1:]))
        return acc, hs
    for x in a["I"]:
        items = x["items"][0]
        own = {int(k[4:]) for _, k in items if re.fullmatch(r"tv:d\d+", k)}
        own_res = {int(k[3:]) for _, k in items if k.startswith("tr:")}
        used = {n for n, _, _ in x["uses"]}
        for n, k in items:
            if re.fullmatch(r"tv:d\d+", k) and n not in used:
                ds, hs = reach(int(k[4:]), set(), set())
                if any(a["D"][j][0] in ("record", "variant", "enum", "flags") and j not in own for j in ds) or (hs - own_res):
                    f.add("F9")
    # F10: a uses entry whose owner interface has no id
    if any(a["I"][y]["id"] == "-" for i in a["I"] + a["W"] for _, y, _ in i["uses"]):
        f.add("F10")
    # F8: one instance type (interface) occurs at two places of the world
    occ = {}
    for idx, ent in [(("I", n), e) for n, e in enumerate(a["I"]) if n != a["P"]["inst"]] + [(("W", n), e) for n, e in enumerate(a["W"])]:
        for l in ent["items"]:
            for _, k in l:
                if k.startswith("i:") or k.startswith("ti:"):
                    occ[k.split(":")[1]] = occ.get(k.split(":")[1], 0) + 1
    if any(v > 1 for v in occ.values()):
        f.add("F8")
    # F11: two top-level resource imports with different roots whose names / root names coincide
    def root(r):
        seen = set()
        while len(a["R"][r]) > 2 and r not in seen:
            seen.add(r); r = int(a["R"][r][1][1:])
        return r
    tr = [(n, root(int(k[3:]))) for n, k in imports if k.startswith("tr:")]
    for n1, r1 in tr:
        for n2, r2 in tr:
            if r1 != r2 and (a["R"][r1][0] in (n2, a["R"][r2][0]) or n1 == a["R"][r2][0]):
                f.add("F11")
    # F6: a top-level import (function / value type) mentions a resource handle
    vt = def_handles(a)
    for _, k in imports:
        if k.startswith("f:"):
            fn = a["F"][int(k[2:])]
            if any(vt(t) for _, t in fn["params"]) or (fn["result"] != "-" and vt(fn["result"])):
                f.add("F6")
        if k.startswith("tv:") and vt(k[3:]):
            f.add("F6")
    return f, a


def graph_f1(graph_text):
    """F1: two different instance-type nodes export a type with the same `created` id"""
    seen = {}
    for idx, node in enumerate(graph_text.split(" ; ")[1:]):
        t = node.split(" ")
        if len(t) >= 2 and t[1] == "I":
            for tok in t[3:]:
                m = re.fullmatch(r"t:(\d+):(\d+)", tok)
                if m:
                    if m.group(2) in seen and seen[m.group(2)] != idx:
                        return True
                    seen.setdefault(m.group(2), idx)
    return False


def nontrivial(a):
    if not a or not a["P"]:
        return False
    return (any(i["uses"] for i in a["I"]) or any(len(r) > 2 for r in a["R"])
            or any(k.split(":")[0] in ("m", "c", "v", "ti", "tw") for i in a["I"] + a["W"] for l in i["items"] for _, k in l))


def unesc(s):
    return s.replace("\\n", "\n").replace("\\t", "\t").replace("\\\\", "\\")


def analyse(cases, impl, model):
    """classify every case; returns a dict of the accumulated results"""
    # the local proposals apply until the main session has decided: an entry of known-findings.json with the same id
    # overrides the proposal ("fixed" removes it: a regression is then a violation)
    known = {e["key"]: e for e in PROPOSED_KNOWN}
    by_id = {e["id"]: e["key"] for e in PROPOSED_KNOWN}
    for e in vlib.load_known(PID):
        key = e.get("key") or by_id.get(e.get("id"))
        if not key:
            continue
        if e.get("status") == "known":
            known[key] = dict(e, key=key)
        else:
            known.pop(key, None)
    known_hits = {}
    disagreements, prop_fail = [], []
    kinds, statuses = {}, {}
    nontriv = set()
    trees_checked = 0
    f1_true = [0]
    general_encoder = 0
    for n, (c, i, m) in enumerate(zip(cases, impl, model)):
        cf = c.split("\t"); kind, src, graph = cf[2], cf[3], cf[4]
        obs, reenc = i.split("\t")
        mf = m.split("\t")
        mobs, verdicts = mf[0], (mf[1] if len(mf) > 1 else "?")
        kinds[kind] = kinds.get(kind, 0) + 1
        replay_case = kind + "\t" + src
        pretty = dict(kind=kind, source=unesc(src))
        # ---- (a) correspondence: implementation observation == model observation
        if obs.startswith("PANIC:"):
            exp = [codes for msg, codes in PANIC_MAP if msg in obs]
            same = bool(exp) and mobs in exp[0]
        elif obs.startswith("ERR:"):
            same = (mobs == "ERR:map" and "Map is not yet supported" in obs) or (mobs == "ERR:module" and "not" in obs and "supported" in obs)
        else:
            same = obs == mobs
        if m.startswith("DRIVER-EXN") or not same:
            disagreements.append((replay_case, obs[:300], mobs[:300]))
        # ---- (b) the specification on the implementation's own observation
        fails = []
        feats, a = (set(), None)
        vm0 = dict(x.split("=") for x in verdicts.split(" ")) if "=" in verdicts else {}
        if vm0.get("f1") == "1":
            f1_true[0] += 1
        if obs.startswith("PANIC:") or obs.startswith("ERR:"):
            fails.append(("load", obs[:200]))
            # the graph-level predicate of finding F1 (ConvertSpec.shares_created_b, evaluated by the driver): two type
            # items share an aliasable created identifier; dup_owner_situation proves the panic needs such a pair
            if graph_f1(graph) and vm0.get("f1") == "1":
                feats.add("F1")
            if vm0.get("wt") != "1":
                fails.append(("wt", "the validator type graph is not well-typed"))
        else:
            feats, a = features(obs, graph)
            if nontrivial(a):
                nontriv.add(graph)
            vm = dict(x.split("=") for x in verdicts.split(" ")) if "=" in verdicts else {}
            if vm:
                tb, _, tn = vm.get("trees", "0/0").partition("/")
                trees_checked += int(tn or 0)
                for key, what in (("lists", "the world does not list exactly the imports/exports (names, order, kinds) or the "
                                            "instance type differs from the exports"),
                                  ("walk", "a converted kind does not have the shape of the validator type (names, order, "
                                           "signature, value-type constructors)"),
                                  ("ids", "validator identifiers and wac identifiers are not one-to-one (cache consistency)"),
                                  ("res", "resource identity/aliasing differs from the validator's resources"),
                                  ("uses", "used-type provenance (uses entries) differs from the specification"),
                                  ("wt", "the validator type graph is not well-typed (oracle assumption of the panic-freedom "
                                         "theorem: reference sorts, unique item names)")):
                    if vm.get(key) != "1":
                        fails.append((key, what))
                if tb != "1":
                    fails.append(("trees", "a converted kind does not unfold to the tree of the validator type"))
            else:
                fails.append(("spec", "specification verdicts unavailable: " + verdicts[:100]))
            st = reenc.split(" ")[0]
            statuses[st] = statuses.get(st, 0) + 1
            if reenc != "ok":
                fails.append(("reencode", reenc[:300]))
        if not fails:
            continue
        # ---- known findings: status class + structural feature
        sig = None
        kinds_failed = {k for k, _ in fails}
        if kinds_failed == {"load"} and "prev.is_none()" in obs and "F1" in feats:
            sig = "F1"
        elif kinds_failed == {"reencode"}:
            embedded_ok = "[embedded-ok]" in reenc or reenc.startswith("UNSATISFIED")
            if not embedded_ok:
                general_encoder += 1
            for key, mode, pat in RULES:
                if key in feats and (mode == "any" or (mode == "imported") == embedded_ok) and re.search(pat, reenc):
                    sig = "F7" if (mode == "both" and key in ("F2", "F5")) else key
                    break
        if sig and sig in known:
            known_hits.setdefault(sig, []).append((n, replay_case, fails[0][1]))
            continue
        prop_fail.append((replay_case, pretty, fails, obs[:400], reenc[:400], sorted(feats)))

    return dict(known=known, known_hits=known_hits, disagreements=disagreements, prop_fail=prop_fail, kinds=kinds,
                statuses=statuses, nontriv=nontriv, trees_checked=trees_checked, general_encoder=general_encoder,
                f1_true=f1_true[0])


def run(res, tier, seed, replay):
    pr = vlib.proof_stage(res, PID)
    ok, log = vlib.ensure_extraction("c08", "theories/extract/ExtractC08.v")
    if not ok:
        res.violation(dict(kind="machinery-error", what="extraction/driver build failed", log=log[-3000:]), no_input=True)
        return
    ok, log = vlib.cargo_build(["c08"])
    if not ok:
        res.violation(dict(kind="broken-tie", what="harness does not build against the repository", log=log[-3000:]), no_input=True)
        return
    rd = os.path.join(vlib.BUILD, "c08", "run"); os.makedirs(rd, exist_ok=True)
    cases_p, impl_p, model_p, din_p = (os.path.join(rd, x) for x in ("cases.txt", "impl.txt", "model.txt", "driver_in.txt"))
    corpus = os.path.join(vlib.ROOT, "corpus", PID, "cases.txt")
    extra = ""
    if replay:
        rp = json.load(open(replay))
        srcs = rp.get("cases") or [rp.get("case", "")]
        open(os.path.join(rd, "replay_in.txt"), "w").write("\n".join(srcs) + "\n")
        extra = " " + os.path.join(rd, "replay_in.txt")
    rc, out = vlib.sh(f"{vlib.hbin('c08')} {tier} {seed} {cases_p} {impl_p}{extra}", timeout=3000)
    if rc != 0:
        res.violation(dict(kind="machinery-error", what="harness run failed", log=out[-3000:]), no_input=True)
        return
    harness_note = out.strip().split("\n")[-1] if out.strip() else ""
    ncorpus = 0
    if os.path.exists(corpus) and not replay:
        rc, out = vlib.sh(f"{vlib.hbin('c08')} {tier} {seed} {cases_p}.c {impl_p}.c {corpus}", timeout=600)
        ncorpus = len(open(cases_p + ".c").read().split("\n")) - 1
        for a, b in ((cases_p, cases_p + ".c"), (impl_p, impl_p + ".c")):
            body = open(b).read() + open(a).read(); open(a, "w").write(body)
    cases = open(cases_p).read().split("\n")[:-1]
    impl = open(impl_p).read().split("\n")[:-1]
    assert len(cases) == len(impl), (len(cases), len(impl))
    with open(din_p, "w") as f:
        for c, i in zip(cases, impl):
            f.write("conv\t" + c.split("\t")[4] + "\t" + i.split("\t")[0] + "\n")
    rc, out = vlib.sh(f"{os.path.join(vlib.BUILD, 'c08', 'driver')} < {din_p} > {model_p}", timeout=3000)
    model = open(model_p).read().split("\n")[:-1]
    assert len(model) == len(cases), (len(model), len(cases), out[-500:])

    r = analyse(cases, impl, model)
    known, known_hits, disagreements, prop_fail = r["known"], r["known_hits"], r["disagreements"], r["prop_fail"]
    kinds, statuses, nontriv = r["kinds"], r["statuses"], r["nontriv"]
    trees_checked, general_encoder = r["trees_checked"], r["general_encoder"]
    for key, hits in sorted(known_hits.items()):
        e = known[key]
        res.known.append(f"id={e['id']} cases={len(hits)} first={hits[0][2][:160]!r}")
    # every proposed witness must be in the corpus and must still fail (otherwise the entry is stale)
    res.coverage.update(dict(
        evaluations=len(cases), correspondence_cases=len(cases), corpus_cases=ncorpus, case_kinds=kinds,
        disagreements=len(disagreements), spec_failures_on_impl=len(prop_fail),
        known_finding_cases={k: len(v) for k, v in known_hits.items()},
        reencode_status=statuses, trees_checked_resource_free=trees_checked,
        encoder_failures_independent_of_mode=general_encoder, graphs_with_f1_predicate=r["f1_true"],
        distinct_nontrivial=len(nontriv),
        rule="one case = one valid component (11 fixed shapes + corpus + generated WIT worlds + shaped WAT: quick 150+60, "
             "thorough 6000+2500, minus sources the reference tools reject; about a fifth of the cases have a stream/future whose "
             "payload is an anonymous compound type). non-trivial = distinct validator graphs whose decoded world has a `uses` entry, an aliased "
             "resource, or a module/component/value/instance-type/component-type item. " + harness_note,
        samples=[unesc(c.split("\t")[3])[:600] for c in cases[ncorpus:ncorpus + 2] + cases[-1:]],
        trusted_base=vlib.TRUSTED_COMMON + [
            "wasmparser 0.247 (Validator, types, names::ComponentName), wit-parser / wit-component 0.247 (dummy_module, "
            "ComponentEncoder), wat, wasm-encoder: reference tools, oracles; the validator's type information is assumed "
            "well-formed (finite, acyclic peel_alias chains, unique import/export names)",
            "model Convert.v (package.rs TypeConverter + from_bytes) is hand-written; tied by whole-arena equality on every case",
            "core module types are read by the harness (core.rs TryFrom conversions are not modelled); "
            "ComponentName interface-name classification enters as per-case data",
            "graph well-typedness (wt_graph_b: reference sorts, unique item names) and well-foundedness (ranked, peel ranks) "
            "are hypotheses of the totality theorems; well-typedness is evaluated on every case, well-foundedness is assumed",
            "TypeEncoder / CompositionGraph::encode are NOT modelled: the satisfiability half is a test against the "
            "reference validator on every generated component, not a theorem",
            "harness assembles the outer component by copying the output's leading type/import/alias sections verbatim"]))
    res.assumptions = ["generated names are ASCII; strings compared as bytes",
                       "Package::from_bytes is called on an empty Types collection (the model accepts any initial collection)",
                       "a re-encoding failure that also occurs with define_components=true is attributed to the encoder in "
                       "general (reported as known finding F6/F7), not to the dependency's component type"]
    for replay_case, pretty, fails, obs, reenc, feats in prop_fail[:5]:
        res.violation(dict(kind="property-fails-on-implementation", what=fails[0][1], failed=[k for k, _ in fails],
                           case=replay_case, pretty=pretty, implementation=obs, reencode=reenc, features=feats))
    if not prop_fail:
        if disagreements:
            c, i, m = disagreements[0]
            res.violation(dict(kind="correspondence-broken", what="model and implementation differ; the specification "
                               "predicates hold on every implementation observation of this run",
                               correspondence="Convert.v vs crates/wac-types/src/package.rs", case=c,
                               implementation=i, model=m, n=len(disagreements)), no_input=True)
        if res.proof_broken:
            res.violation(res.proof_broken, no_input=True)
