"""C20: registry resolution returns the right content for every requested key."""
import json
import os
import vlib

PID = "C20"

CLAIM = dict(
    text="Machine-checked Coq theorems over an executable model of RegistryPackageResolver::resolve (key list -> "
         "name-indexed table -> one tagged download task per entry -> completion loop) and of the Warg client calls it "
         "relies on: for EVERY completion order of the downloads the answer is the specified one (every key gets the "
         "content published under its name+version, the latest non-yanked non-pre-release when unversioned; a missing "
         "package/version/release is reported as the error owed to a requesting key), no key is dropped, the request "
         "order is irrelevant, no unwrap/assert can fail. For the code as found this holds for key sets without a "
         "shared package name and is REFUTED (Coq witness, replayed on the real resolver on every run) when two keys "
         "share a name; for the repaired algorithm (hooks/fix-c20-shared-name.patch, modelled as resolve_fixed) it is "
         "proved at full strength. The model is tied to the code on every run by resolving 120+ key sets against an "
         "in-process Warg server; the run determines which of the two modelled algorithms the working tree implements.",
    design_ref="DESIGN.md §5 C20, §7 item 11",
    note="Trusted: Coq kernel; extraction (ExtrOcamlBasic); OCaml driver; Rust harness crate harness-reg (Warg "
         "server/client stack, tokio); the hand-written model Registry.v validated by correspondence. Runtime scheduling "
         "itself is not modelled: the completion order is a universally quantified permutation. Error attribution and "
         "panic-freedom hold at full strength for the code as found.",
    technique="Coq proof (permutation-quantified completion order, reflection of the executable spec) + refutation "
              "witness by vm_compute + extracted-model correspondence against the real resolver")

REG = os.path.join(vlib.ROOT, "harness-reg")


def enc(s):
    return "-" if s == "" else ",".join(str(ord(c)) for c in s)


def dec(s):
    return "" if s in ("-", "") else "".join(chr(int(x)) for x in s.split(","))


def mk_case(threads, keys):
    """keys: list of 'name' or 'name@version' (all names valid)."""
    out = []
    for i, k in enumerate(keys):
        n, _, v = k.partition("@")
        out.append("%s|%s|%d|1" % (enc(n), enc(v) if v else "-", 10 * (i + 1)))
    return "rs\t%d\t%s" % (threads, ";".join(out))


def pretty_keys(field):
    ks = []
    for x in field.split(";"):
        if not x:
            continue
        g = x.split("|")
        ks.append(dec(g[0]) + ("@" + dec(g[1]) if g[1] != "-" else ""))
    return ks


def pretty_obs(obs):
    f = obs.split("\t")
    if f[0] == "ERR" and len(f) == 5:
        return "ERR %s name=%s version=%s span=%s" % (f[1], dec(f[2]), dec(f[3]) if f[3] != "-" else "-", f[4])
    return " ".join(f)


# Proposed entries for /verif/known-findings.json (the main session decides). An entry of the same id in
# known-findings.json takes precedence over the one listed here (e.g. status "fixed" suppresses nothing).
PROPOSED_KNOWN = [dict(
    property="C20", id="C20-shared-name", status="known",
    signature="shared-name: two requested keys have the same package name AND the observation equals the as-found "
              "model (name-indexed table, results stored under keys.get_index(table position))",
    witness=mk_case(1, ["test:aa@1.0.0", "test:aa@2.0.0", "test:bb"]),
    text="RegistryPackageResolver::resolve with keys [test:aa@1.0.0, test:aa@2.0.0, test:bb]: returns "
         "{test:aa@1.0.0 -> content of aa 2.0.0, test:aa@2.0.0 -> content of bb 0.1.0}, key test:bb dropped "
         "(keys sharing a package name collapse in the name-indexed table; results are indexed by original key "
         "position). Coq: resolve_shared_name_refuted. Repair: hooks/fix-c20-shared-name.patch")]


def known_entries():
    listed = vlib.load_known(PID)
    ids = {e.get("id") for e in listed}
    return listed + [e for e in PROPOSED_KNOWN if e["id"] not in ids]


def build_reg():
    with vlib.Lock("cargo-reg"):
        if not os.path.exists(os.path.join(REG, "Cargo.lock")):
            vlib.sh(f"cp {vlib.REPO}/Cargo.lock {REG}/Cargo.lock")
        rc, out = vlib.sh(f"cargo build --offline{vlib.cargo_paths_override()} --bin c20", cwd=REG, timeout=3600)
        return rc == 0, out


def shares_name(keys):
    names = [k.partition("@")[0] for k in keys]
    return len(set(names)) < len(names)


def run(res, tier, seed, replay):
    vlib.proof_stage(res, PID)
    ok, log = vlib.ensure_extraction("c20", "theories/extract/ExtractC20.v")
    if not ok:
        res.violation(dict(kind="machinery-error", what="extraction/driver build failed", log=log[-3000:]), no_input=True)
        return
    ok, log = build_reg()
    if not ok:
        res.violation(dict(kind="broken-tie", what="harness-reg does not build against the repository", log=log[-3000:]),
                      no_input=True)
        return
    rd = os.path.join(vlib.BUILD, "c20", "run"); os.makedirs(rd, exist_ok=True)
    cases_p, impl_p, in_p, model_p = (os.path.join(rd, x) for x in ("cases.txt", "impl.txt", "in.txt", "model.txt"))
    known = known_entries()
    extra = ""
    if replay:
        rp = json.load(open(replay))
        lines = [e["witness"] for e in known] + rp.get("cases", [rp["case"]] if "case" in rp else [])
        open(os.path.join(rd, "replay_in.txt"), "w").write("\n".join(lines) + "\n")
        extra = " " + os.path.join(rd, "replay_in.txt")
    rc, out = vlib.sh(f"{os.path.join(REG, 'target', 'debug', 'c20')} {tier} {seed} {cases_p} {impl_p}{extra}", timeout=3000)
    if rc != 0:
        res.violation(dict(kind="machinery-error", what="harness run failed (server start / publish / io)", log=out[-3000:]),
                      no_input=True)
        return
    cases = open(cases_p).read().split("\n")[:-1]
    impl = open(impl_p).read().split("\n")[:-1]
    assert len(cases) == len(impl), (len(cases), len(impl))
    open(in_p, "w").write("".join(c + "\t" + i + "\n" for c, i in zip(cases, impl)))
    rc, out = vlib.sh(f"{os.path.join(vlib.BUILD, 'c20', 'driver')} < {in_p} > {model_p}", timeout=3000)
    model = open(model_p).read().split("\n")[:-1]
    assert len(model) == len(cases), (len(cases), len(model))

    reg_lines = [c for c in cases if c.startswith("reg\t")]
    rows = []       # (case, obs, a, f, s, model_first, n_answers, keys)
    for c, i, m in zip(cases, impl, model):
        if not c.startswith("rs\t"):
            continue
        mf = m.split("\t")
        if len(mf) != 5:
            res.violation(dict(kind="machinery-error", what="driver output malformed", case=c, driver=m), no_input=True)
            return
        rows.append((c, i, mf[0] == "1", mf[1] == "1", mf[2] == "1", mf[3], int(mf[4]), pretty_keys(c.split("\t")[2])))

    miss_a = [r for r in rows if not r[2]]
    miss_f = [r for r in rows if not r[3]]
    if not miss_a:
        variant, disagreements = "as-found (name-indexed table; model resolve)", []
    elif not miss_f:
        variant, disagreements = "repaired (one task per key; model resolve_fixed)", []
    elif len(miss_a) <= len(miss_f):
        variant, disagreements = "as-found (name-indexed table; model resolve)", miss_a
    else:
        variant, disagreements = "repaired (one task per key; model resolve_fixed)", miss_f
    as_found = variant.startswith("as-found")

    known_sigs = {"shared-name" for e in known if e.get("status") == "known" and e["signature"].startswith("shared-name")}
    prop_fail, suppressed = [], []
    for r in rows:
        if r[4]:
            continue
        sig = "shared-name" if (shares_name(r[7]) and r[2]) else "other"
        (suppressed if sig in known_sigs else prop_fail).append((r, sig))
    # known witnesses: replayed in every run (the harness runs them first); reported only while they still fail
    for e in known:
        if e.get("status") != "known":
            continue
        wkeys = e["witness"].split("\t")[2]
        hit = [r for r in rows if r[0].split("\t")[2] == wkeys]
        if hit and not hit[0][4] and hit[0][2] and shares_name(hit[0][7]):   # still fails, with this signature
            res.known.append(f"id={e['id']} {e['text']} | observed now: {pretty_obs(hit[0][1])}")

    # coverage
    def order_differs(obs):
        f = obs.split("\t")
        if f[0] != "OK" or len(f) < 2:
            return False
        pos = [x.split(":")[0] for x in f[1].split(";") if x]
        return pos != sorted(pos, key=lambda p: (p == "x", int(p) if p != "x" else 0))
    nontrivial = set()
    for r in rows:
        ks = r[7]
        if len(ks) >= 2 and (order_differs(r[1]) or shares_name(ks) or r[1].startswith("ERR")):
            nontrivial.add(tuple(ks))
    sizes = {}
    for r in rows:
        sizes[len(r[7])] = sizes.get(len(r[7]), 0) + 1
    sample_rows = [r for r in rows if order_differs(r[1])][:2] + [r for r in rows if r[1].startswith("ERR")][:2] + \
                  [r for r in rows if not r[4]][:2]
    res.coverage.update(dict(
        correspondence_cases=len(rows), evaluations=len(rows), disagreements=len(disagreements),
        implementation_variant=variant,
        applicable_theorems=("resolve_any_completion_order / no_key_dropped / request_order_indep under no_shared_name; "
                             "error_attributed, resolve_never_panics at full strength; resolve_shared_name_refuted"
                             if as_found else "fixed_* theorems at full strength"),
        spec_failures_on_impl=len(prop_fail) + len(suppressed), spec_failures_known_signature=len(suppressed),
        distinct_nontrivial=len(nontrivial),
        key_set_sizes=sizes, worker_threads=sorted({r[0].split("\t")[1] for r in rows}),
        completion_order_differs_from_request_order=len([r for r in rows if order_differs(r[1])]),
        shared_name_cases=len([r for r in rows if shares_name(r[7])]),
        error_cases=len([r for r in rows if r[1].startswith("ERR")]),
        cases_with_several_possible_model_answers=len([r for r in rows if r[6] > 1]),
        registry=[[dec(l.split("\t")[1]), [(dec(x.split("=")[0]), x.split("=")[1]) for x in
                                           (l.split("\t")[2] if len(l.split("\t")) > 2 else "").split(";") if x]]
                  for l in reg_lines],
        rule="one in-process Warg server, 7 package logs / 13 releases (100 B .. 2 MB, yanked, pre-release, never released) "
             "published once; each case resolves an ordered set of 1..6 keys with a fresh client on a 1/2/8-worker tokio "
             "runtime: 20 fixed shapes (incl. the known witnesses), every request order of small sets, seeded random sets "
             "(with/without shared names, all-ok/failing). correspondence = observation equals the model's answer for SOME "
             "completion order (all orders enumerated), entry order of the returned map included. non-trivial = distinct "
             "ordered key list with >= 2 keys whose downloads completed out of request order, or that shares a package name, "
             "or that ends in an error",
        samples=[dict(keys=r[7], threads=r[0].split("\t")[1], observed=pretty_obs(r[1]), spec_holds=r[4],
                      model_answers=r[6]) for r in sample_rows],
        trusted_base=vlib.TRUSTED_COMMON + [
            "model Registry.v (registry.rs resolve + warg-client 0.9.0 fetch_packages/download/download_exact + "
            "warg-protocol find_latest_release + semver VersionReq::STAR) is hand-written; tied by this correspondence",
            "Rust harness crate /verif/harness-reg (in-process warg-server 0.9.0, adapted from the repository's test support)",
            "PackageName::new validity enters the model as data computed by the harness (oracle)",
            "the Warg server, HTTP transport, content store and signatures are exercised, not modelled; download tasks are "
            "assumed not to panic; tokio scheduling is represented only by the quantified completion order",
            "Semver.v version order (validated by C15's correspondence)"]))
    res.assumptions = [
        "requested keys are the key set of an IndexMap (no duplicate (name, version) pair); spans identify keys",
        "latest release = highest non-yanked release without a pre-release tag (semver `*`)",
        "the returned map is compared as a finite map (entry order is completion order and not part of the property)",
        "registry well-formed: one log per name, one release per version"]

    regs = [l for l in reg_lines]
    for (r, sig) in prop_fail[:5]:
        res.violation(dict(kind="property-fails-on-implementation",
                           what="the resolver's answer violates the specification (spec_check = false)",
                           signature=sig, keys=r[7], threads=r[0].split("\t")[1], observed=pretty_obs(r[1]),
                           model_as_found_spawn_order=r[5], matches_as_found_model=r[2], matches_repaired_model=r[3],
                           cases=[r[0]], registry=regs))
    if not prop_fail:
        if disagreements:
            r = disagreements[0]
            res.violation(dict(kind="correspondence-broken",
                               what="model and implementation differ; the specification predicate still holds on every "
                                    "implementation observation of this run (up to known findings)",
                               correspondence="Registry.v (%s) vs registry.rs" % variant, keys=r[7],
                               observed=pretty_obs(r[1]), model_as_found_spawn_order=r[5], n=len(disagreements),
                               cases=[r[0]], registry=regs), no_input=True)
        if res.proof_broken:
            res.violation(res.proof_broken, no_input=True)
