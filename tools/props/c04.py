"""C04: WAC documents compose what the language reference says they compose."""
import json
import os
import re
import vlib

PID = "C04"

CLAIM = dict(
    text="Proof, partial only in scope. An executable Coq model of the statement/expression half of resolution.rs "
         "(Resolver.v: import naming, let, new with its two-pass argument table, the four-rule name inference and "
         "find_matching_interface_name, named/spread/fill arguments, access chains and alias_export, export naming, "
         "spread export, every error variant of these paths with the start of its primary span) over the C12 AST and "
         "the validated graph model Graph.v; LANGUAGE.md restated independently (LangSpec.v) as per-import binding "
         "rules (explicit argument, else first exporting spread in spread order, else `...`, else missing) and as a "
         "reference evaluation `denote` to compositions of values. Machine-checked (18 theorems, closed): "
         "(document_simulation, illformed_rejected) for EVERY document without a `targets` clause, under a "
         "well-formed universe, the model resolves iff the reference denotes a composition, the resulting graph then "
         "DENOTES that composition (relation Rel: every node has a kind-correct value, scope/exports/explicit imports "
         "are the denoted ones in order, the argument edges of every instantiation are exactly the bound imports with the "
         "denoted values -- spelled out on get_args/get_alias_source/exports/imports by composition_observed), the "
         "reference makes the document ill-formed with class c (and name) iff the model rejects it with a diagnostic "
         "of that class, and the model never panics; (arg_binding_spec) after a successful `new` the argument table "
         "binds every import by the first applicable rule and Graph.get_args of the new node is EXACTLY the table "
         "(both inclusions; the resolver's graphs are reachable, hence satisfy C06's invariant: "
         "resolved_graph_invariant); arg_name_spec, spread_fill_spec, fill_must_be_last, access_spec, export_name_spec, "
         "export_spread_name_spec, import_name_spec, let_only_names, expressions_only_extend; "
         "illformed_rejected_at_construct (each of the nine classes <-> its diagnostic WITH the span start, at the "
         "construct that detects it); resolved_document_encodes_its_wiring (with C01 enc_inv_reachable and C02 "
         "wiring_correct: whenever the model encoder succeeds on a resolved document its log decodes to the wiring of "
         "the graph the document denotes); the reference AS WRITTEN is contradicted by the faithful model in two places "
         "(access_spec_doc_refuted, export_spread_doc_refuted: vm_compute witness programs, replayed on the real "
         "resolver); the hypotheses of the simulation theorem are satisfiable and it applies to a concrete program "
         "(Examples). Tie: for every generated program (and one single-fault variant each) over generated package "
         "libraries the real Document::parse+resolve(+encode) is compared with the extracted model (error variant + "
         "span start + name, or the full graph dump) and the extracted reference verdict is checked on the "
         "implementation's own observation.",
    design_ref="DESIGN.md §5 C04",
    note="Partial in scope: WIT-like type declarations inside documents (type statements, inline interfaces, function types "
         "over declared types) and the `targets` clause are out of scope here (C05/C11); the model answers Unsupported, "
         "the reference OutOfScope. Typing questions go through the subtype table computed by the real SubtypeChecker "
         "(oracle); the universe well-formedness `uok` (bijective name table on the names in use, distinct import names "
         "per package, kinds closed under the oracles) is a hypothesis of the simulation theorem, shown satisfiable. The "
         "reference has no notion of source spans: span starts are covered by the per-construct theorems and by the "
         "correspondence. Encoding is not modelled here (C01/C02/C08/C09): validity and the documented "
         "implicit/explicit import conflict are observed on the implementation only.",
    technique="Coq proof (simulation between a monadic resolver model over the graph model and a reference evaluation; "
              "state relation with a per-node value map; reuse of C06's invariant through Graph.step) + extracted-model "
              "correspondence + extracted reference evaluation of LANGUAGE.md checked on implementation observations")

# ------------------------------------------------------------------ the reference text the specification is written from
# (sentence fragments of LANGUAGE.md that LangSpec.v formalises; if one disappears the tie to the reference is broken)
DOC_ANCHORS = [
    "Items imported by a package path use the path as the name of the import",
    "the name of the import will be the",
    "The `...` syntax must be used as the last",
    "If `...` is not specified, then all instantiation arguments must be explicitly",
    "If the local name is bound to an instance with an associated package path",
    "If the local name is bound to an explicit import or an access of an instance",
    "exactly one import that has a path",
    "Lastly, the local name will be used as the argument name",
    "Otherwise, the kebab-case identifier will be used as the argument name",
    "Note that spread arguments apply _after_ inferred and named arguments and are",
    "it is an evaluation error if a spread argument has no matching",
    "It is invalid to use an access expression on anything other than an instance",
    "_exactly_ what is specified by the string; no inference is performed",
    "Spread exports will only create new exports that do not conflict with",
    "a redefinition of a previous name is an error",
]

# Deviations between LANGUAGE.md as written and the resolver, confirmed on the real code (witness programs in
# corpus/C04/witness-src.txt).  `flag` is the position in the driver's flag string.  Consulted locally until the main
# session moves them into /verif/known-findings.json (BUILDING.md, PROPOSED_KNOWN).
PROPOSED_KNOWN = [
    dict(property=PID, id="C04-exact-name-shadows-path-suffix", status="known", flag=0,
         signature="find_matching_interface_name returns None when the identifier is itself a key: an import/export named "
                   "exactly like the identifier wins over the unique path ending with it (inferred rule 3, named-argument "
                   "identifiers, access expressions)",
         witness="package test:comp;\nlet p = new test:both { };\nlet a = p.f;\nexport a as \"out\";\n",
         text="LANGUAGE.md: `exactly one import (export) that has a path which ends with the name -> the path is used`; the "
              "resolver uses the plain name when an import/export of exactly that name also exists (test:both exports `f` "
              "and `x:y/f`: `p.f` selects `f`; `new test:exact { baz: b, \"foo:bar/baz\": b }` binds `baz`, the reference "
              "as written makes it a duplicate of `foo:bar/baz`)"),
    dict(property=PID, id="C04-spread-export-all-conflicts-rejected", status="known", flag=1,
         signature="export_statement, ExportOptions::Spread: SpreadExportNoEffect also when the instance has exports but all "
                   "of them are already exported",
         witness="package test:comp;\nlet p = new test:prov { };\nexport p...;\nexport p...;\n",
         text="LANGUAGE.md: `Spread exports will only create new exports that do not conflict with previously exported "
              "items` and only `an instance being spread [with] no exports` is an error; the resolver rejects a spread "
              "export whose names are all taken (SpreadExportNoEffect)"),
]

CLASS_OF = {
    "UndefinedName": "UndefinedName", "DuplicateName": "DuplicateName", "MissingInstantiationArg": "MissingArgument",
    "DuplicateInstantiationArg": "DuplicateArgument", "NotAnInstance.access": "NonInstanceAccess",
    "NotAnInstance.spread": "NonInstanceSpread", "FillArgumentNotLast": "FillNotLast",
    "SpreadInstantiationNoMatch": "IneffectiveSpread", "SpreadExportNoEffect": "IneffectiveSpread",
    "DuplicateExternName.export": "ConflictingExport", "ExportConflict": "ConflictingExport",
    "UnknownPackage": "UnknownPackage", "PackageMissingExport": "UnknownPath", "PackagePathMissingExport": "UnknownPath",
    "MissingComponentImport": "UnknownArgument", "MismatchedInstantiationArg": "ArgumentMismatch",
    "MissingInstanceExport": "UnknownExport", "DuplicateExternName.import": "ConflictingImport",
    "InvalidExternName.import": "InvalidName", "InvalidExternName.export": "InvalidName", "ExportRequiresAs": "ExportNeedsName",
}
NINE = {"UndefinedName", "DuplicateName", "MissingArgument", "DuplicateArgument", "NonInstanceAccess", "NonInstanceSpread",
        "FillNotLast", "IneffectiveSpread", "ConflictingExport"}
FAULT_CLASS = {"undefined-name": {"UndefinedName"}, "duplicate-name": {"DuplicateName"}, "missing-argument": {"MissingArgument"},
               "duplicate-argument": {"DuplicateArgument"}, "access-non-instance": {"NonInstanceAccess"},
               "spread-non-instance": {"NonInstanceSpread"}, "fill-not-last": {"FillNotLast"},
               "ineffective-spread": {"IneffectiveSpread"}, "conflicting-export": {"ConflictingExport"},
               "inexact-named-access": {"UnknownExport"}}


def dec(s):
    return "" if s in ("-", "") else "".join(chr(int(c)) for c in s.split(","))


def sections(dump):
    return {m.group(1): m.group(2) for m in re.finditer(r"([A-Z])\[([^\]]*)\]", dump)}


def abstract(dump, pkg_imports):
    """the composition an observed graph denotes, in the canonical text of the driver's SPEC field"""
    sec = sections(dump)
    nodes = {}
    order = []
    for e in filter(None, sec.get("N", "").split(",")):
        p = e.split(":")
        nodes[p[0]] = dict(tag=p[1], pk=p[2], kid=p[3], imp=p[6])
        order.append(p[0])
    pk_idx = {}
    for e in filter(None, sec.get("P", "").split(",")):
        i, sl = e.split("=")
        pk_idx[sl] = i
    args = {}
    for m in re.finditer(r"(\d+):\(([^)]*)\)", sec.get("A", "")):
        args[m.group(1)] = dict(a.split("=") for a in m.group(2).split(",") if a)
    alias = {}
    for e in filter(None, sec.get("L", "").split(",")):
        a, src = e.split(":")
        n, x = src.split(".", 1)
        alias[a] = (n, x)
    insts = [n for n in order if nodes[n]["tag"] == "S"]
    rank = {n: k for k, n in enumerate(insts)}

    def val(n, depth=0):
        d = nodes.get(n)
        if d is None or depth > 50:
            return "?" + n
        if d["tag"] == "I":
            return "I" + d["imp"]
        if d["tag"] == "S":
            return "S%d" % rank[n]
        if d["tag"] == "A" and n in alias:
            return "A(%s.%s)" % (val(alias[n][0], depth + 1), alias[n][1])
        return "?" + n
    imports = ",".join("%s:%s" % (nodes[n]["imp"], nodes[n]["kid"]) for n in order if nodes[n]["tag"] == "I")
    its = []
    for n in insts:
        idx = pk_idx.get(nodes[n]["pk"], "?")
        a = args.get(n, {})
        world = pkg_imports.get(idx, [])
        bound = ",".join("%s=%s" % (nm, val(a[nm])) for nm in world if nm in a)
        extra = [nm for nm in a if nm not in world]
        impl = ",".join(nm for nm in world if nm not in a)
        its.append("%s(%s;%s)%s" % (idx, bound, impl, ("!" + ",".join(extra)) if extra else ""))
    exports = ",".join("%s=%s" % (e.split("=")[0], val(e.split("=")[1])) for e in filter(None, sec.get("X", "").split(",")))
    return "C|imports=%s|insts=%s|exports=%s" % (imports, "/".join(its), exports), sec


def encode_expectation(sec):
    """what the reference says about encoding, from the implementation's own imports listing: an implicit import may not
    share its name with an explicit one (ImportConflict); implicit imports of one name are merged, which fails for
    unmergeable types (the merge itself is C09's subject); when a document has both, either diagnostic is acceptable in
    the order the instantiations are visited"""
    imps = [tuple(t.split(",")) for t in re.findall(r"\(([^)]*)\)", sec.get("I", ""))]
    explicit = {n for n, _, nd in imps if nd != "-"}
    ok = set()
    seen = {}
    for n, k, nd in imps:
        if nd != "-":
            continue
        if n in explicit:
            ok.add("enc:E:ImportConflict")
            return ok
        if n in seen and seen[n] != k:
            ok.add("enc:E:InstantiationArgMergeFailure")
        seen.setdefault(n, k)
    ok.add("enc:ok")
    return ok


def impl_verdict(impl, pkg_imports):
    """(canonical verdict text, sections or None)"""
    if impl.startswith("OK|"):
        return abstract(impl.split("|")[1], pkg_imports)
    if impl.startswith("E:"):
        _, variant, _start, name = impl.split(":", 3)
        c = CLASS_OF.get(variant, "Other." + variant)
        return "X|%s|%s" % (c, name), None
    return impl, None


def same_verdict(iv, sv):
    if iv == sv:
        return True
    if iv.startswith("X|") and sv.startswith("X|"):
        a, b = iv.split("|"), sv.split("|")
        # classes without a name on one side compare by class
        return a[1] == b[1] and (a[2] == b[2] or "-" in (a[2], b[2]))
    return False


def run_files(tier, seed, rd, tag, src, flags):
    c, i, m = (os.path.join(rd, f"{tag}.{x}.txt") for x in ("cases", "impl", "model"))
    rc, out = vlib.sh(f"{vlib.hbin('c04')} {tier} {seed} {c} {i}" + (f" {src}" if src else ""), timeout=3000)
    if rc != 0:
        return None, out
    rc, out = vlib.sh(f"{os.path.join(vlib.BUILD, 'c04', 'driver')} {flags} < {c} > {m}", timeout=3000)
    if rc != 0:
        return None, out
    rd_ = lambda p: open(p).read().split("\n")[:-1]
    return (rd_(c), rd_(i), rd_(m)), ""


def evaluate(cases, impl, model, known_flags):
    res = []
    pkg_imports = {}
    block = []
    for c, i, m in zip(cases, impl, model):
        if c == "U reset":
            pkg_imports = {}
            block = [c]
            continue
        if c.startswith("U "):
            if c.startswith("U wat ") or c.startswith("U name "):
                block.append(c)
            if c.startswith("U pkg "):
                f = c.split(" ")
                pkg_imports[f[2]] = [x.split("=")[0] for x in f[6].split("=", 1)[1].split(",") if x]
            if c != i:
                res.append(dict(case=c, tag="universe", fault="", src="", corr=False, fails=["universe line differs between the files"],
                                known=False, impl=i, model=m, spec="", dev=set(), block=block, enc_bad=None))
            continue
        if not c.startswith("P "):
            continue
        _, tag, fault, srcenc = c.split(" ")
        mf = m.split("\t")
        mobs = mf[0]
        spec = mf[1] if len(mf) > 1 else "NOSPEC"
        alts = {}
        for x in mf[2:]:
            k, _, v = x.partition(":")
            alts[k] = spec if v == "=" else v
        corr = i.split("|")[:2] == mobs.split("|")[:2]
        fails = []
        iv, sec = impl_verdict(i, pkg_imports)
        if i.startswith("PANIC") or "DUMP-PANIC" in i:
            fails.append("the resolver panicked: " + i[:200])
        elif i.startswith("PARSE-ERR"):
            fails.append("generated program does not parse: " + i[:200])
        elif not same_verdict(iv, spec):
            fails.append("reference verdict %s but the implementation's observation denotes %s" % (spec[:300], iv[:300]))
        if sec is not None and sec.get("V"):
            fails.append("internal graph invariant violated: " + sec["V"][:200])
        enc_bad = None
        if sec is not None:
            enc = i.split("|")[2] if len(i.split("|")) > 2 else ""
            if enc not in encode_expectation(sec):
                enc_bad = "encode of a resolved document: %s, expected one of %s" % (enc[:200], sorted(encode_expectation(sec)))
                fails.append(enc_bad)
        # which known deviations this case exercises: switching the flag back to the reference as written changes the verdict
        dev = set()
        for fl in range(2):
            if fl in known_flags:
                key = "".join("0" if j == fl else ("1" if j in known_flags else "0") for j in range(2))
                if alts.get(key, spec) != spec:
                    dev.add(fl)
        res.append(dict(case=c, tag=tag, fault=fault, src=dec(srcenc), corr=corr, fails=fails, known=False, impl=i, model=mobs,
                        spec=spec, dev=dev, block=block, enc_bad=enc_bad, iv=iv))
    return res


# If LANGUAGE.md is amended to state the implementation's reading (hooks/fix-c04-doc-name-rules.patch), the flag becomes the
# documented rule: it is switched on without being a finding.
DOC_STATES_FLAG = {0: "no import named exactly like the", 1: "evaluation error if every export of the instance conflicts"}


def doc_text():
    return " ".join(open(os.path.join(vlib.REPO, "LANGUAGE.md")).read().split())


def doc_tie():
    try:
        text = doc_text()
    except OSError as e:
        return ["LANGUAGE.md unreadable: %r" % e]
    return [a for a in DOC_ANCHORS if " ".join(a.split()) not in text]


def run(res, tier, seed, replay):
    pr = vlib.proof_stage(res, PID)
    missing = doc_tie()
    if missing:
        res.violation(dict(kind="broken-tie", what="LANGUAGE.md no longer contains sentences LangSpec.v is written from",
                           sentences=missing), no_input=True)
    ok, log = vlib.ensure_extraction("c04", "theories/extract/ExtractC04.v")
    if not ok:
        res.violation(dict(kind="machinery-error", what="extraction/driver build failed", log=log[-3000:]), no_input=True)
        return
    ok, log = vlib.cargo_build(["c04"])
    if not ok:
        res.violation(dict(kind="broken-tie", what="harness does not build against the repository", log=log[-3000:]), no_input=True)
        return
    rd = os.path.join(vlib.BUILD, "c04", "run"); os.makedirs(rd, exist_ok=True)
    listed = vlib.load_known(PID)
    have = {e.get("id") for e in listed}
    entries = [e for e in listed if e.get("status") == "known"] + [e for e in PROPOSED_KNOWN if e["id"] not in have]
    flag_of = {e["id"]: e["flag"] for e in PROPOSED_KNOWN}
    for e in entries:
        e.setdefault("flag", flag_of.get(e.get("id")))
    entries = [e for e in entries if e.get("flag") is not None]
    try:
        documented = {fl for fl, marker in DOC_STATES_FLAG.items() if marker in doc_text()}
    except OSError:
        documented = set()
    entries = [e for e in entries if e["flag"] not in documented]
    known_flags = {e["flag"] for e in entries} | documented
    flags = "".join("1" if j in known_flags else "0" for j in range(2))
    runs = []
    if replay:
        rp = json.load(open(replay))
        rin = os.path.join(rd, "replay_in.txt")
        open(rin, "w").write("\n".join(rp.get("cases", [])) + "\n")
        runs.append(("replay", tier, rin))
    else:
        runs.append(("witness", "witness", os.path.join(vlib.ROOT, "corpus", PID, "witness-src.txt")))
        runs.append(("generated", tier, None))
    results = []
    for tag, t, src in runs:
        got, out = run_files(t, seed, rd, tag, src, flags)
        if got is None:
            res.violation(dict(kind="machinery-error", what="harness/driver run failed", log=out[-3000:]), no_input=True)
            return
        cases, impl, model = got
        if not (len(cases) == len(impl) == len(model)):
            res.violation(dict(kind="machinery-error", what="line counts differ", n=[len(cases), len(impl), len(model)]), no_input=True)
            return
        results += evaluate(cases, impl, model, known_flags)
    progs = [r for r in results if r["tag"] != "universe"]
    disagree = [r for r in results if not r["corr"]]
    failing = [r for r in results if r["fails"]]
    # known findings: printed while some case still exercises the deviation and the implementation sides with the flag
    for e in entries:
        hits = [r for r in progs if e["flag"] in r["dev"] and not r["fails"]]
        if hits:
            res.known.append(f"{e['id']}: {e['text']} [{len(hits)} cases of this run exercise it, e.g. {hits[0]['src']!r}]")
    base = [r for r in progs if r["fault"] == "none"]
    faulty = [r for r in progs if r["fault"] not in ("none", "witness")]
    verdict_class = lambda r: r["spec"].split("|")[1] if r["spec"].startswith("X|") else "composed"
    dist = {}
    for r in progs:
        k = ("base:" if r["fault"] in ("none", "witness") else "fault:") + verdict_class(r)
        dist[k] = dist.get(k, 0) + 1
    hit = {f: 0 for f in FAULT_CLASS}
    tot = {f: 0 for f in FAULT_CLASS}
    for r in faulty:
        tot[r["fault"]] = tot.get(r["fault"], 0) + 1
        if verdict_class(r) in FAULT_CLASS.get(r["fault"], set()):
            hit[r["fault"]] = hit.get(r["fault"], 0) + 1

    def nontrivial(r):
        s = r["spec"]
        if s.startswith("X|"):
            return s.split("|")[1] in NINE
        return bool(re.search(r"\d+\([^;)]+;", s)) or not s.endswith("exports=")
    distinct = {r["src"] for r in progs if nontrivial(r)}
    forms = dict(inferred=0, named_ident=0, named_string=0, spread=0, fill=0, access=0, named_access=0, export_spread=0,
                 export_as=0, nested_new=0)
    for r in progs:
        s = r["src"]
        forms["spread"] += bool(re.search(r"\.\.\.[a-z]", s)); forms["fill"] += bool(re.search(r"\.\.\. *}", s))
        forms["named_string"] += bool(re.search(r'"[^"]*": ', s)); forms["named_ident"] += bool(re.search(r"[{,] [a-z][a-z0-9-]*: ", s))
        forms["inferred"] += bool(re.search(r"[{,] [a-z][a-z0-9-]*[ ,}]", s)); forms["access"] += bool(re.search(r"[a-z0-9)}\]]\.[a-z]", s))
        forms["named_access"] += '["' in s; forms["export_spread"] += bool(re.search(r"export [^;]*\.\.\.;", s))
        forms["export_as"] += bool(re.search(r"export [^;]* as ", s)); forms["nested_new"] += bool(re.search(r"new [^;]*new ", s))
    samples = [dict(program=r["src"], fault=r["fault"], implementation=r["impl"][:300], reference=r["spec"][:300])
               for r in (base[:2] + faulty[:2] + progs[-1:])]
    res.coverage.update(dict(
        evaluations=len(progs), correspondence_cases=len(progs), disagreements=len(disagree),
        spec_failures_on_impl=len(failing), distinct_nontrivial=len(distinct),
        base_programs=len(base), faulty_variants=len(faulty), reference_verdict_distribution=dist,
        injected_fault_reaches_its_class={f: f"{hit[f]}/{tot[f]}" for f in tot},
        programs_using_form=forms, known_deviation_flags=flags, flags_stated_by_the_reference=sorted(documented),
        cases_exercising_known_deviation={e["id"]: len([r for r in progs if e["flag"] in r["dev"]]) for e in entries},
        samples=samples,
        rule="per block a generated library: 6 WIT-shaped packages (foo:bar, foo:bar@1.0.0, foo:bar@2.0.0, other:lib, wasi:io@0.2.0, "
             "x:y) + 7 fixed and 6-8 random WAT components whose import/export names are drawn from 9 plain names and 9 "
             "interface paths (with/without version, two ambiguous last segments `baz` and `streams`, a plain name equal to a "
             "last segment, instances exporting instances), item kinds = 4 primitive function signatures and instance shapes "
             "(1 in 6-8 a sub-/super-shape); per library generated WAC programs (2..12 statements, new nested up to 3) mixing "
             "imports by package path / function type / local name (with `as` id|string), lets, new with inferred, named "
             "(identifier|string), spread and `...` arguments, access and named-access chains, exports (inferred name, `as`, "
             "spread), steered by an approximate kind tracker so that most resolve; named accesses sometimes use only the "
             "version-stripped last path segment (exact lookup must reject it); + ONE single-fault variant of each (the nine "
             "classes of the property and `inexact-named-access`, in rotation). Compared per program: error variant + span start + name, or the full graph dump (c06 "
             "format), with the extracted Resolver.v; then the extracted LangSpec verdict (composition of values, or "
             "ill-formedness class + name) is checked against what the implementation's own dump/diagnostic denotes, and the "
             "encode result against the documented implicit/explicit import rule. distinct_nontrivial = distinct program texts "
             "whose reference verdict is a composition with at least one bound argument or one export, or one of the nine "
             "ill-formedness classes of the property",
        trusted_base=vlib.TRUSTED_COMMON + [
            "models Resolver.v (this property), Graph.v (validated by C06), Lexer.v/Parser.v/Ast.v (validated by C12) are "
            "hand-written and validated by correspondence",
            "type-level facts (package worlds, definitions, instance/interface exports, interface ids, promotion, primitive "
            "function kinds, subtype table from the real SubtypeChecker, extern-name validity) are per-library oracles "
            "computed by the real implementation; the name table is a bijection built by the driver",
            "LangSpec.v is a reading of LANGUAGE.md (sentence anchors checked on every run); the evaluation order of the "
            "reference evaluation (top-down, operands first, arguments left to right, spreads after) decides which "
            "ill-formedness is reported when a document has several",
            "encoding is not modelled: validity (wasmparser) and the implicit/explicit import conflict are observed on the "
            "implementation only; merging of implicit imports is C09's subject",
            "guarded hook CompositionGraph::verif_dump/verif_invariants (add-only, cfg(wac_verif))",
            "wat crate (text -> binary for the generated libraries)"]))
    res.assumptions = ["documents without type statements, inline interfaces, declared types in function types, `targets`",
                       "every library package parses and is offered to resolve() under its own key",
                       "resource-free item kinds"]
    for r in failing[:5]:
        res.violation(dict(kind="property-fails-on-implementation", what="; ".join(r["fails"])[:800], program=r["src"],
                           injected_fault=r["fault"], implementation=r["impl"][:3000], reference=r["spec"][:2000],
                           model=r["model"][:3000], correspondence_holds=r["corr"],
                           cases=r["block"] + [x for x in [r["case"]] if x.startswith("P ")]))
    if not failing:
        if disagree:
            r = disagree[0]
            res.violation(dict(kind="correspondence-broken", what="model Resolver.v and resolution.rs differ; the reference verdict "
                               "still holds on every implementation observation",
                               correspondence="Resolver.v vs crates/wac-parser/src/resolution.rs", program=r["src"],
                               implementation=r["impl"][:3000], model=r["model"][:3000], n=len(disagree),
                               cases=r["block"] + [r["case"]]), no_input=True)
        if res.proof_broken:
            res.violation(res.proof_broken, no_input=True)
