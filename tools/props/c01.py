"""C01: every encoded composition is a valid component; no late validation failures."""
import json
import os
import re
import vlib

PID = "C01"
HB = "c01"

CLAIM = dict(
    text="PARTIAL proof (the component-model validator is an oracle: wasmparser::Validator) plus search. Coq theorems over the "
         "models of the graph API (Graph.v) and of the structural encoder (EncodeModel.v): structural_indices_in_scope (every "
         "index of an instantiate / alias / export item designates an earlier item of the right sort, for every log that decodes "
         "and for every log the model encoder emits); arguments_type_checked (new history invariant: after ANY operation history "
         "every explicit argument edge satisfies the subtype oracle for the import it designates, and designates an import of the "
         "target's package); instantiation_complete (explicit argument indexes and implicit-import indexes of an instantiation are "
         "disjoint and together exactly the imports of its package; the instantiate items of the encoder pass exactly the import "
         "names, each once); enc_inv_reachable (the side condition EncInv of C02's wiring_correct is derived for every reachable "
         "graph from universe facts alone; 'a definition has one export name' is itself derived, defs_single_reachable: export() renames a definition); no_late_failure_partial (for reachable graphs the "
         "modelled causes of a post-hoc failure - dangling index, missing / duplicated / extra argument, unchecked argument, stale "
         "or missing export name - do not occur in an output of the model encoder); encoder_panics_classified (the model encoder's "
         "graph-consistency panics are unreachable for reachable graphs: only the three index-bookkeeping sites remain, and XBadNode "
         "exactly as the rendering of a failed merge of an explicit import). Search: >= 400 accepted compositions per quick "
         "run (graph-API histories incl. removal / unregistration over a library of 33 components: hand-shaped WAT and WIT-derived "
         "with records, variants, lists, options, results, enums, flags, resources, cross-interface and world-level `use`, versioned "
         "interface names on equal and different semver tracks; generated WAC documents; the repository's WAC fixtures), each encoded "
         "under define_components x validate; every returned binary is validated independently, ValidationFailure / panic / process "
         "abort are failures; the real item logs are decoded by the extracted decode_wiring and the extracted completeness / scope "
         "predicates are evaluated on them.",
    design_ref="DESIGN.md §5 C01, §10",
    note="level 'proof, partial': validity itself is decided by the reference validator (oracle). Trusted: Coq kernel, extraction, "
         "OCaml driver, Rust harness (generator, section reader, supervisor), wasmparser validator. TypeEncoder is a parameter of "
         "the encoder model; its faults are found by search only (the known findings are listed with narrow signatures in known-findings.json, 5 of them the C05 "
         "encoder findings that surface as late validation failures / encoder panics).",
    technique="Coq proofs (history invariants, permutation argument, corollaries of the C02 simulation) + validator-as-oracle search "
              "+ extracted predicates evaluated on real outputs")

CORPUS = os.path.join(vlib.ROOT, "corpus", PID, "cases.txt")


def _w(name):
    for l in open(CORPUS):
        if l.startswith(f"W {name} "):
            return l.rstrip("\n")
    return ""


# ---------------------------------------------------------------------------------------------------------------------------
# Known findings. `match(kind, msg, tags, mode)`: kind in {abort, panic, late-validation-failure, invalid-binary}, msg the
# diagnostic with offsets and quoted names removed, tags the shape tags computed by the harness from the real graph, mode D/I.

def has(tags, pat):
    return any(re.search(pat, t) for t in tags)


EXPORT_MSG = r"^(func|instance|type) not valid to be used as export"

KNOWN_MATCH = {
    "C01-import-deps-unbounded-recursion":
        lambda k, m, t, mo: k == "abort" and "stack overflow" in m and has(t, r"^TRACKMIX\+uses$"),
    "C01-export-mentions-unexported-named-type":
        lambda k, m, t, mo: k in ("late-validation-failure", "invalid-binary") and re.search(EXPORT_MSG, m) and has(t, r"^X:[AS]:(func|instance|type)\S*\+nn"),
    "C01-component-type-loses-instance-owned-types":
        lambda k, m, t, mo: mo == "I" and k in ("late-validation-failure", "invalid-binary") and m.startswith("func not valid to be used as export")
        and has(t, r"^S:world\+foreign-func-types$"),
    "C01-import-function-over-unnamed-type":
        lambda k, m, t, mo: k in ("late-validation-failure", "invalid-binary") and m.startswith("func not valid to be used as import") and has(t, r"^M:func\+nn"),
    "C01-type-import-not-linked-to-function-import":
        lambda k, m, t, mo: k in ("late-validation-failure", "invalid-binary") and m.startswith("func not valid to be used as import")
        and has(t, r"^U:func\+nn") and (has(t, r"^SHARED:type\+val\+nn$") or has(t, r"^M:type\+val\+nn$") or has(t, r"^G:(inst|import|other):type\+val\+nn$")),
    "C01-define-type-with-undefined-dependency":
        lambda k, m, t, mo: k in ("late-validation-failure", "invalid-binary") and m.startswith("type not valid to be used as export")
        and has(t, r"^D:type\+(val|func)\+nn") and has(t, r"^D:undef-dep$"),
    "C01-define-type-nested-dependency-missed":
        lambda k, m, t, mo: k in ("late-validation-failure", "invalid-binary") and m.startswith("type not valid to be used as export")
        and has(t, r"^D:type\+(val|func)\+nn") and has(t, r"^D:deep-dep$"),
    "C01-define-unidentified-world-or-interface":
        lambda k, m, t, mo: k == "panic" and (("world must have an id" in m and has(t, r"^D:type\+world\+noid")) or
                                              ("interface must have an id" in m and has(t, r"^D:type\+iface\+noid"))),
    "C01-import-function-over-handle":
        lambda k, m, t, mo: k == "panic" and "wac-graph/src/encoding.rs" in m and "no entry found for key" in m
        and (has(t, r"^M:func\+nn\+h") or (has(t, r"^U:func\+nn\+h") and has(t, r"^(M|G:(inst|import|other)):type\+res$"))),
    "C01-value-import-unused":
        lambda k, m, t, mo: k in ("late-validation-failure", "invalid-binary") and re.match(r"value (index )?N (was not used|cannot be used more than once)", m) and has(t, r"^M:value$"),
    "C01-resource-identity-across-arguments":
        lambda k, m, t, mo: k in ("late-validation-failure", "invalid-binary") and "resource types are not the same" in m
        and ((has(t, r"^(U|M|G:import|G:inst):instance\S*\+uses\S*\+res") and has(t, r"^G:inst:instance\S*\+res"))
             or (has(t, r"^G:(inst|import|other):type\+res$") and has(t, r"^U:func\+nn\+h"))),
    "C01-merge-conflict-span-panic":
        lambda k, m, t, mo: k == "panic" and "wac-parser/src/resolution.rs" in m and "no entry found for key" in m and has(t, r"^M:"),
    # the C05 encoder findings that surface as late validation failures or encoder panics (same signatures as under C05)
    "C05-encode-dup-import":
        lambda k, m, t, mo: k in ("late-validation-failure", "invalid-binary") and re.match(r"import name `..` conflicts with previous name", m)
        and has(t, r"^(D:type\+(world|iface)|M:component|S:world\+uses|M:type\+(world|iface))"),
    "C05-encoder-resource-name-key":
        lambda k, m, t, mo: (k == "panic" and "wac-graph/src/encoding.rs" in m and "no entry found for key" in m and has(t, r"^D:type\+(iface|world)\S*\+uses"))
        or (k in ("late-validation-failure", "invalid-binary") and "resource types are not the same" in m and has(t, r"^M:type\+res$")
            and has(t, r"^(U|M|G:\w+):func\+nn\+h")),
    "C05-encoder-alias-name-leak":
        lambda k, m, t, mo: k == "panic" and "wac-graph/src/encoding.rs" in m and "should have owner" in m and has(t, r"^D:type\+(iface|world)\S*\+uses"),
    "C05-encoder-alias-of-used-type":
        lambda k, m, t, mo: k in ("late-validation-failure", "invalid-binary") and m.startswith("instance not valid to be used as export")
        and has(t, r"^D:type\+iface\S*\+uses") and not has(t, r"^X:[AS]:"),
    "C05-include-with-resource-members":
        lambda k, m, t, mo: k in ("late-validation-failure", "invalid-binary") and "function does not match expected resource name" in m
        and has(t, r"^D:type\+world"),
}

PROPOSED_KNOWN = [
    dict(property=PID, id="C01-import-deps-unbounded-recursion", status="known", witness="H imp 10 10;imp 28 9",
         signature="process abort (stack overflow) in TypeEncoder::import_deps; two imports on ONE semver track whose kinds are DIFFERENT "
                   "interfaces, one of which `use`s the other (shape tag TRACKMIX+uses)",
         text="imports `a:b/c@0.2.0` (interface u:s/types) and `a:b/c@0.2.5` (interface u:s/api, which uses types) are merged by the "
              "aggregator into one interface that `use`s itself; TypeEncoder::import_deps recurses without bound and the process aborts "
              "(no EncodeError, not catchable)"),
    dict(property=PID, id="C01-export-mentions-unexported-named-type", status="known",
         witness="H reg 11;reg 9;reg 10;inst 2 0;alias 0 19;alias 1 21;export 2 1;name 1 23",
         signature="`func|instance|type not valid to be used as export` in both dependency modes; the exported node is an alias of an instance "
                   "export (or an instantiation) whose type mentions a record/variant/enum/flags/handle type (tag X:A|S:...+nn)",
         text="exporting an item obtained from an instantiation whose type mentions a named value type that the composition neither "
              "imports nor exports (e.g. `get: func() -> r` of u:producer's api) is accepted by export(); encode returns "
              "ValidationFailure with validate on and an INVALID binary with validate off (second witness: corpus k-export-foreign)"),
    dict(property=PID, id="C01-component-type-loses-instance-owned-types", status="known", witness="H reg 27;inst 0 0",
         signature="define_components=false only: `func not valid to be used as export` inside the component TYPE of an imported "
                   "dependency whose world has a function over a type reachable only through an imported instance without `use` "
                   "(tag S:world+foreign-func-types)",
         text="TypeEncoder::component re-encodes `export mk: func() -> rec` of test:shaped with a fresh local record instead of the "
              "`rec` exported by the imported instance `deep`; embedding the component (define_components=true) is valid"),
    dict(property=PID, id="C01-import-function-over-unnamed-type", status="known", witness="H imp 1 11",
         signature="`func not valid to be used as import`; an explicit import node of function kind whose type mentions a "
                   "record/variant/enum/flags type (tag M:func+nn)",
         text="import(name, ItemKind::Func(f)) with f over a record that is not itself imported is accepted; the encoder emits the "
              "record as an anonymous local type and the output is invalid"),
    dict(property=PID, id="C01-type-import-not-linked-to-function-import", status="known", witness=_w("k-shared-type"),
         signature="`func not valid to be used as import`; an implicit function import over a record/variant/enum/flags type (tag U:func+nn) "
                   "while that type is a top-level type import that is not linked to it: either two instantiations import ONE type name "
                   "with different copies of the type (tag SHARED:type+val+nn), or the type is an EXPLICIT import node, which is emitted "
                   "after the implicit function imports (tag M:type+val+nn), or the type import is satisfied by an argument and so not imported "
                   "at all (tag G:inst|import:type+val+nn)",
         text="w:local-out and w:local both import the record `cfg`; the aggregator keeps the first copy, `setup: func(c: cfg)` still "
              "refers to the second and is encoded over an anonymous local record. Second shape (`H reg 25;inst 0 0;imp 72 33;setarg 0 72 1`): "
              "`cfg` imported explicitly and passed as argument is emitted AFTER the implicit import `setup`, which therefore re-encodes the record. "
              "Third shape (`H reg 24;reg 13;inst 0 0;inst 1 0;alias 1 64;alias 2 43;setarg 0 43 3`): w:uses gets `point` as an argument, its "
              "implicit import `mk: func() -> point` is encoded over an anonymous copy of the record"),
    dict(property=PID, id="C01-define-type-with-undefined-dependency", status="known", witness="H def 20 11",
         signature="`type not valid to be used as export`; a definition node whose type mentions a record/variant/enum/flags type "
                   "that is not defined (exported) itself (tags D:type+val+nn / D:type+func+nn and D:undef-dep: some definition has a named "
                   "component without a definition of its own, by the harness's own traversal of the type)",
         text="define_type(`list<rec>`) without defining `rec` first is accepted; the export of the definition is invalid. With the "
              "dependency defined first (corpus: `def 20 6;def 6 7;...`) the output is valid"),
    dict(property=PID, id="C01-define-type-nested-dependency-missed", status="known", witness="H def 26 13;def 34 6",
         signature="`type not valid to be used as export` although every named component of every definition is defined; some definition "
                   "reaches a DEFINED record/variant/enum/flags type only through an intermediate anonymous type (list, option, tuple, "
                   "result, alias) or, for a function type, through any anonymous type (tag D:deep-dep, harness's own traversal)",
         text="define_type scans only the DIRECT components of the new type for dependency edges (visit_defined_types is one level deep): "
              "`t0 = func() -> list<rec>` defined before `rec` gets no edge from `rec`, the encoder emits t0 first with an anonymous copy "
              "of the record and the output is invalid; in the other order (`H def 34 6;def 26 13`) it is valid"),
    dict(property=PID, id="C01-define-unidentified-world-or-interface", status="known", witness="H def 6 18",
         signature="panic `world must have an id` / `interface must have an id` (encoding.rs); definition of a world / interface "
                   "type whose id is None (tag D:type+world+noid / D:type+iface+noid)",
         text="define_type accepts the world of a package (or an inline interface); TypeEncoder::world / ::interface `expect` an id "
              "and encode panics (second witness `H def 34 20`)"),
    dict(property=PID, id="C01-import-function-over-handle", status="known", witness="H imp 29 35",
         signature="panic `no entry found for key` in TypeEncoder::own/borrow (encoding.rs); a function import over a resource handle whose "
                   "resource is not imported in the scope when the function is encoded: explicit import node of function kind (tag "
                   "M:func+nn+h), or implicit function import (tag U:func+nn+h) whose resource is an explicit import / an argument (tag "
                   "M:type+res / G:..:type+res)",
         text="import(name, func(t: own<tok>)) is accepted; the encoder looks the resource up by name in the current scope and "
              "panics (C08 finding F6 seen from the graph API). Second shape (`H reg 25;inst 0 0;imp 73 34;setarg 0 73 1`): the resource `tok` "
              "imported explicitly and passed as argument is emitted after the implicit import `burn: func(t: tok)`"),
    dict(property=PID, id="C01-value-import-unused", status="known", witness="H imp 36 17",
         signature="`value index N was not used as part of an instantiation, start function, or export` / `value N cannot be used more than once`; explicit import of value kind "
                   "(tag M:value)",
         text="import(name, ItemKind::Value(..)) is accepted and encoded, but a component must consume every value exactly once"),
    dict(property=PID, id="C01-resource-identity-across-arguments", status="known",
         witness="H reg 22;reg 21;inst 1 0;alias 0 67;inst 0 0;setarg 2 67 1",
         signature="`type mismatch for import ... resource types are not the same`; an instantiation gets an instance with a resource "
                   "from another instantiation (tag G:inst:instance..+res) while an interface that `use`s that resource is an "
                   "implicit or explicit import or comes from yet another instantiation (tag U|M|G:import|G:inst:instance..+uses..+res); or an instantiation gets a resource TYPE as an "
                   "argument (tag G:..:type+res) while a function over that resource stays an implicit import (tag U:func+nn+h)",
         text="r:user imports store and user (user uses store.blob); passing r:producer's store explicitly leaves `user` to an implicit "
              "import whose blob is the blob of a freshly imported store: every argument passed its own subtype check, the "
              "instantiation as a whole is ill-typed and only the validator notices"),
    dict(property=PID, id="C01-merge-conflict-span-panic", status="fixed", commit="cee2340", witness=_w("ok-import-conflict"),
         signature="panic `no entry found for key` in Resolution::encode (wac-parser resolution.rs) while translating "
                   "EncodeError::ImportTypeMergeConflict whose party is an explicit import (tag M:...)",
         text="fixed: property=C01 cee2340 after fix 591363d the graph reported ImportTypeMergeConflict for an explicit import and "
              "Resolution::encode indexed instantiation_spans with that import's node id and panicked (found by this check; repaired "
              "concurrently in /repo; the witness stays in the corpus as a regression case: it must report the documented error)"),
    dict(property=PID, id="C05-encode-dup-import", status="known", witness=_w("k-dup-import"), signature="encode-dup-import",
         text="world that imports interface I explicitly and also depends on I through `use`: TypeEncoder::component imports the "
              "dependency first and then the explicit import again -> ValidationFailure `import name conflicts with previous name`"),
    dict(property=PID, id="C05-encoder-resource-name-key", status="known", witness=_w("k-res-key-3"), signature="encoder-resource-name-key",
         text="TypeEncoder keys resources by definition name: alias of a used resource alias -> encode panics `no entry found for key`; an "
              "explicit import of a resource under another name (tag M:type+res) takes over the key, a function over the resource then refers "
              "to the wrong import -> `resource types are not the same`"),
    dict(property=PID, id="C05-encoder-alias-name-leak", status="known", witness=_w("k-alias-leak-4"), signature="encoder-alias-name-leak",
         text="use_aliases clears the alias map: a resource alias obtained by `use` after an instance import -> encode panics `should have owner`"),
    dict(property=PID, id="C05-encoder-alias-of-used-type", status="known", witness=_w("k-alias-used"), signature="encoder-alias-of-used-type",
         text="`type r = t` with t obtained by `use` and mentioning another named type is re-encoded structurally -> ValidationFailure "
              "`instance not valid to be used as export`"),
    dict(property=PID, id="C05-include-with-resource-members", status="known", witness=_w("k-include-res"), signature="include-with-resource-members",
         text="`include w with { r as q }` keeps `[constructor]r` -> ValidationFailure `function does not match expected resource name`"),
]


def known_entries():
    listed = vlib.load_known(PID)
    ids = {e.get("id") for e in listed}
    return listed + [e for e in PROPOSED_KNOWN if e["id"] not in ids]


# ---------------------------------------------------------------------------------------------------------------------------

def kvs(line):
    d = {}
    for f in line.split("\t"):
        if "=" in f:
            k, v = f.split("=", 1)
            d[k] = v
    return d


def norm(s):
    s = re.sub(r"\(at offset 0x[0-9a-f]+\)", "", s)
    s = re.sub(r"0x[0-9a-f]+", "0x..", s)
    s = re.sub(r"`[^`]*`", "`..`", s)
    s = re.sub(r"\d+", "N", s)
    return s.strip()


def inner(s):
    """text inside the outermost parentheses of `Tag(...)`"""
    i = s.find("(")
    return s[i + 1:-1] if i >= 0 and s.endswith(")") else s


def failures(im, mo):
    """C01 predicate on one implementation observation: list of (kind, mode, raw diagnostic)"""
    out = []
    if im.get("res") == "ABORT":
        out.append(("abort", "-", im.get("abort", "")))
        return out
    for m in ("D", "I"):
        e1, e0 = im.get(m + ".enc1", ""), im.get(m + ".enc0", "")
        for tag, v in (("enc1", e1), ("enc0", e0)):
            if v.startswith("PANIC"):
                out.append(("panic", m, inner(v)))
        if e1.startswith("E:ValidationFailure"):
            out.append(("late-validation-failure", m, inner(e1)))
        if e0.startswith("E:ValidationFailure"):
            out.append(("validation-failure-without-validation", m, inner(e0)))
        for tag in ("valid", "valid1"):
            v = im.get(m + "." + tag)
            if v and v != "ok":
                out.append(("invalid-binary" if v.startswith("invalid") else "validator-panic", m, inner(v)))
        if im.get(m + ".bad"):
            out.append(("unreadable-output", m, im[m + ".bad"]))
        if mo:
            if e0 == "ok" or e1 == "ok":
                if mo.get(m + ".scope") == "0" or mo.get(m + ".dec") == "NONE":
                    out.append(("dangling-or-ill-sorted-index", m, "an instantiate/alias/export item of the real output uses an index that is not an earlier item of that sort"))
                if mo.get(m + ".complete") == "0":
                    out.append(("instantiation-incomplete", m, "an instantiate item does not pass exactly the imports of its component: " + mo.get(m + ".incomplete", "")[:300]))
    if im.get("argsub"):
        out.append(("argument-not-subtype", "-", "argument edges that fail the subtype check at encode time: " + im["argsub"][:300]))
    return out


def classify(kind, mode, raw, tags, known_ok):
    m = norm(raw)
    return [i for i in known_ok if i in KNOWN_MATCH and KNOWN_MATCH[i](kind, m, tags, mode)]


def correspondence(im, mo, tags=()):
    out = []
    ires = [re.sub(r"^PANIC\(.*", "PANIC", x) for x in im.get("res", "").split(";")]
    if ires != mo.get("res", "").split(";"):
        out.append("operation results differ")
    if im.get("dead") or mo.get("dead"):
        if bool(im.get("dead")) != bool(mo.get("dead")):
            out.append("one side died on a graph operation")
        return out
    if im.get("dump") != mo.get("dump"):
        out.append("final graph state differs (Graph.v vs graph.rs)")
    if mo.get("argsok") != "1":
        out.append("model graph has an argument edge that fails the subtype oracle (theorem arguments_type_checked)")
    if mo.get("partition") != "1":
        out.append("explicit and implicit argument indexes do not partition the imports (theorem instantiation_complete)")
    for m in ("D", "I"):
        real, model = im.get(m + ".enc0", ""), mo.get(m + ".model", "")
        rc, mc = re.sub(r"\(.*", "", real), re.sub(r"\(.*", "", model)
        if rc == "ok":
            if mc != "ok":
                out.append(f"{m}: real encode succeeded, model encoder says {model}")
            else:
                # top-level resource imports are outside the encoder model (TypeEncoder::import_resource keys them by definition name)
                if mo.get(m + ".logeq") != "1" and not any(re.match(r"^[MU]:type\+res$", t) for t in tags):
                    out.append(f"{m}: model log differs from the real item log")
                if mo.get(m + ".speccomplete") != "1":
                    out.append(f"{m}: wiring specification has an incomplete instantiation")
        elif rc == "PANIC":
            # panics of the type encoder (encoding.rs) are outside the structural model; anything else must be predicted
            if "wac-graph/src/encoding.rs" not in real and mc not in ("PANIC",):
                out.append(f"{m}: real panic outside the type encoder, model says {model}: {real[:120]}")
        elif rc == "E:ImportTypeMergeConflict":
            # a type-level merge failure between kinds of one class is not modelled (the model merges names and kind classes only):
            # the model may go on to succeed or to report a later documented error
            if mc not in ("ok", "E:ImportTypeMergeConflict", "E:ImplicitImportConflict", "PANIC", "ORACLE"):
                out.append(f"{m}: real merge conflict, model says {model}")
        elif rc == "E:ValidationFailure":
            out.append(f"{m}: ValidationFailure with validation off")
        elif rc != mc:
            out.append(f"{m}: encode outcome differs: real {real[:80]} model {model[:80]}")
    return out


def build(res):
    ok, log = vlib.ensure_extraction("c01", "theories/extract/ExtractC01.v")
    if not ok:
        res.violation(dict(kind="machinery-error", what="extraction/driver build failed", log=log[-3000:]), no_input=True)
        return False
    ok, log = vlib.cargo_build([HB])
    if not ok:
        res.violation(dict(kind="broken-tie", what="harness does not build against the repository", log=log[-3000:]), no_input=True)
        return False
    return True


def run_one(tag, tier, seed, src, rd):
    c, i, d, m = (os.path.join(rd, f"{tag}.{x}.txt") for x in ("cases", "impl", "din", "model"))
    rc, out = vlib.sh(f"{vlib.hbin(HB)} {tier} {seed} {c} {i}" + (f" {src}" if src else ""), timeout=3000)
    if rc != 0:
        return dict(error=f"harness exit {rc}: {out[-1500:]}")
    cases = open(c).read().split("\n")[:-1]
    impl = open(i).read().split("\n")[:-1]
    if len(cases) != len(impl):
        return dict(error=f"harness wrote {len(cases)} cases and {len(impl)} observations")
    with open(d, "w") as f:
        for a, b in zip(cases, impl):
            f.write(a + "\n" if a.startswith("U") else a + "\t" + b + "\n")
    rc, out = vlib.sh(f"{os.path.join(vlib.BUILD, 'c01', 'driver')} < {d} > {m}", timeout=3000)
    model = open(m).read().split("\n")[:-1]
    if len(model) != len(cases):
        return dict(error=f"driver wrote {len(model)} lines for {len(cases)} cases: {out[-500:]}")
    rows = []
    for a, b, mm in zip(cases, impl, model):
        if a.startswith("U"):
            continue
        rows.append(dict(case=a, impl=kvs(b), model=(kvs(mm) if a.startswith("H ") else None), raw_model=mm, src=tag))
    return dict(rows=rows)


def pretty(case):
    if case.startswith("W "):
        f = case.split(" ")
        return dict(document=f[1], source="".join(chr(int(x)) for x in f[2].split(",")) if len(f) > 2 and f[2] != "-" else "")
    return case


def run(res, tier, seed, replay):
    vlib.proof_stage(res, PID)
    if not build(res):
        return
    known = known_entries()
    known_ok = [e["id"] for e in known if e.get("status") == "known"]
    rd = os.path.join(vlib.BUILD, "c01", "run"); os.makedirs(rd, exist_ok=True)
    runs = []
    if replay:
        rp = json.load(open(replay))
        rin = os.path.join(rd, "replay_in.txt")
        open(rin, "w").write("\n".join(rp.get("cases", [rp.get("case", "")])) + "\n")
        runs.append(("replay", rin))
    else:
        cin = os.path.join(rd, "corpus_in.txt")
        lines = [l.rstrip("\n") for l in open(CORPUS) if l[:2] in ("H ", "W ", "F ")]
        lines += [e["witness"] for e in known if e.get("witness") and e["witness"] not in lines and e["witness"][:2] in ("H ", "W ", "F ")]
        open(cin, "w").write("\n".join(lines) + "\n")
        runs.append(("corpus", cin))
        runs.append(("generated", None))
    rows = []
    for tag, src in runs:
        r = run_one(tag, tier, seed, src, rd)
        if "error" in r:
            res.violation(dict(kind="machinery-error", what="harness/driver run failed: " + r["error"]), no_input=True)
            return
        rows += r["rows"]
    prop_fail, known_hits, disagreements = [], {}, []
    outcome_hist, kinds, nontrivial, encodable, validated = {}, {}, set(), 0, 0
    for row in rows:
        im, mo = row["impl"], row["model"]
        k = row["case"][0]
        kinds[k] = kinds.get(k, 0) + 1
        tags = [t for t in im.get("shape", "").split(",") if t]
        if mo is not None:
            if im.get("res") == "ABORT":
                pass    # the process died while encoding: nothing was observed
            elif "DRIVER-EXN" in row["raw_model"]:
                disagreements.append((row, ["driver exception: " + row["raw_model"][:200]]))
            else:
                d = correspondence(im, mo, tags)
                if d:
                    disagreements.append((row, d))
        any_ok = False
        for m in ("D", "I"):
            for e in ("enc1", "enc0"):
                oc = re.sub(r"\(.*", "", im.get(f"{m}.{e}", "none"))
                outcome_hist[oc] = outcome_hist.get(oc, 0) + 1
                if oc == "ok":
                    any_ok = True
            validated += sum(1 for t in ("valid", "valid1") if im.get(f"{m}.{t}"))
        if any_ok:
            encodable += 1
            if sum(1 for x in im.get("D.log", "").split(";") if x.startswith("N|")) >= 2 and any(t.startswith("G:inst") for t in tags):
                nontrivial.add(im.get("D.log", "") + "#" + im.get("I.log", ""))
        for kind, mode, raw in failures(im, mo):
            ids = classify(kind, mode, raw, tags, known_ok)
            if ids:
                for i in ids:
                    known_hits.setdefault(i, []).append(row)
            else:
                prop_fail.append((row, kind, mode, raw))
    replayed = {r["case"] for r in rows}
    for e in known:
        hits = known_hits.get(e["id"], [])
        if e.get("status") == "known" and hits:
            wit = [r for r in hits if r["case"] == e.get("witness")]
            w = e.get("witness", "")
            state = "still fails" if wit else ("replayed: no longer fails" if w in replayed else "not replayed in this run")
            res.known.append(f"{e['id']}: {e['text']} [witness `{w if len(w) < 90 else w[:60] + '...'}` "
                             f"{state}; {len(set(r['case'] for r in hits))} composition(s) of this run match the signature]")
    res.coverage.update(dict(
        evaluations=len(rows) * 4, compositions=len(rows), case_kinds=kinds, encodable_compositions=encodable,
        binaries_validated_independently=validated, correspondence_cases=sum(1 for r in rows if r["model"] is not None),
        disagreements=len(disagreements), spec_failures_on_impl=len(prop_fail), distinct_nontrivial=len(nontrivial),
        documents_not_resolved=sum(1 for r in rows if r["case"][0] in "WF" and r["impl"].get("res", "").startswith("E:")),
        document_resolution_panics=sum(1 for r in rows if r["case"][0] in "WF" and r["impl"].get("res", "").startswith("PANIC")),
        encode_outcomes=outcome_hist, known_finding_observations={k: len(set(r["case"] for r in v)) for k, v in known_hits.items()},
        rule="compositions = regression corpus (corpus/C01/cases.txt: witnesses of the known findings + must-be-valid cases) + the "
             "repository's WAC fixtures (tests/encoding, tests/resolution, examples) + random accepted graph-API histories (register / "
             "instantiate / define_type (composites and their components in every order, incl. slots freed by removals) / import / alias / "
             "set+unset argument / export / unexport / name / remove_node / unregister; "
             "rejected operations are partly kept) + generated WAC documents (compositions over the library; declared resources with "
             "functions mentioning borrow<r> at every nesting position: rejected by the resolver or valid), all over a library of 33 components (12 of the C02 universe, "
             "19 WIT-derived with records/variants/lists/options/results/enums/flags/resources/cross-interface and world-level use/"
             "versioned interfaces on equal and different tracks/sibling interfaces reusing type names with different shapes, 2 hand-shaped "
             "WAT incl. one with three same-typed imports; histories set several arguments from one node and unset them in another order). Every composition is encoded 4 times "
             "(define_components x validate); evaluations = compositions x 4. non-trivial = encodable compositions with >= 2 "
             "instantiate items in the real output and at least one argument that comes from another instantiation, counted as "
             "distinct real item logs",
        samples=[pretty(r["case"]) for r in rows if r["src"] == "generated" and r["case"].startswith("H ")][:3]
                + [pretty(r["case"]) for r in rows if r["src"] == "generated" and r["case"].startswith("W ")][:2],
        trusted_base=vlib.TRUSTED_COMMON + [
            "wasmparser::Validator (WasmFeatures::all()) is THE oracle for 'valid component'; the Coq development does not model it",
            "Rust section reader in harness/src/bin/c01/reader.rs (wasmparser::Parser payloads of the outermost component)",
            "supervisor/worker split of harness/src/bin/c01 (an aborting case is recorded and the run resumes after it)",
            "TypeEncoder (crates/wac-graph/src/encoding.rs) is a parameter of the Coq encoder model; its items are replayed from the real log",
            "models Graph.v / EncodeModel.v are hand-written; tied by this correspondence (operation results, final graph dump, encode "
            "outcome class, item log) on every history case",
            "per-case universe (package worlds, instance exports, interface ids, name validity, subtype table) computed by the real implementation",
            "shape tags used to recognise known findings are computed by the harness from the real graph through the public API"]))
    res.assumptions = ["partial: validity of the type-level content of an output is decided by the reference validator only",
                       "kinds are identified by arena identity (deterministic numbering walk repeated per case)"]
    for row, kind, mode, raw in prop_fail[:6]:
        res.violation(dict(kind="property-fails-on-implementation",
                           what=f"{kind} (dependencies {'embedded' if mode == 'D' else 'imported' if mode == 'I' else 'n/a'}): {raw[:400]}",
                           mode=mode, case=row["case"], cases=[row["case"]], pretty=pretty(row["case"]), shape=row["impl"].get("shape", ""),
                           results=row["impl"].get("res", "")[:600],
                           encode={k: v[:300] for k, v in row["impl"].items() if k.endswith((".enc1", ".enc0", ".valid", ".valid1"))}))
    if not prop_fail:
        if disagreements:
            row, d = disagreements[0]
            res.violation(dict(kind="correspondence-broken", what="model and implementation differ: " + "; ".join(d)[:500] +
                               " — the C01 predicate still holds on every implementation observation of this run",
                               correspondence="Graph.v/EncodeModel.v/ValidSpec.v vs graph.rs", case=row["case"], cases=[row["case"]],
                               implementation={k: v[:1500] for k, v in row["impl"].items() if k in ("res", "dump", "D.enc0", "I.enc0", "D.log")},
                               model={k: v[:1500] for k, v in row["model"].items()}, n=len(disagreements)), no_input=True)
        if res.proof_broken:
            res.violation(res.proof_broken, no_input=True)
