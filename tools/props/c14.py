"""C14: no input crashes the front end; diagnostics point inside the source."""
import json
import os
import re
import hashlib
import vlib

PID = "C14"

CLAIM = dict(
    text="Machine-checked Coq theorems over the executable lexer/parser model of C12 (Lexer.v / Parser.v, in which "
         "every unwrap / assert! / unreachable! of lexer.rs and ast*.rs is an explicit panic outcome and all recursion "
         "runs on explicit fuel): for EVERY source text the lexer returns a finite stream of tokens (each consuming at "
         "least one byte, each inside the source on character boundaries, with the text shape the parser's unwraps rely "
         "on) possibly ended by one lexer error -- never its panic or out-of-fuel item (lexer_total); Document::parse "
         "never ends in a panic outcome and the fuel `length tokens + 1` always suffices (parse_never_panics, "
         "parser_fuel_suffices), returns a tree or an error on every text outside the lexeme class the C12 model "
         "excludes (parse_returns_partial), never builds an Expected* error with an empty token list, never slices a "
         "package path out of order (package_path_slice_never_panics); every span of every returned tree (every AST "
         "type, incl. doc comments) and of every returned error, those reported at the end of the input included, lies "
         "inside the source on character boundaries (spans_in_bounds; lexer_span_in_bounds for the rule of Lexer::span; "
         "the two texts on which the former byte-counting rule left the source are regression cases, "
         "eof_span_witnesses_in_bounds); the "
         "parser has no depth guard: for every d a text of 2d+20 characters nests more than d activations of Expr::parse "
         "(depth_unbounded, with depth_is_recursion_depth: the model-level form of the stack overflow); the graph-layer no-panic theorems of C06 are "
         "restated. What a model cannot exhibit (exhaustion of the machine stack, allocation failure, non-termination or "
         "panics inside wasmparser / wit-component / miette, and the resolver / package decoder / encoder, which are "
         "not modelled for this property) is covered only by a SEARCH, labelled as such: a supervised worker process "
         "(crash / abort / stack overflow / timeout detected per input) fed with ~3k texts (arbitrary Unicode, "
         "grammar-generated documents, byte- and token-level mutations of them and of every .wac file, every-prefix "
         "truncations, 22 deep/long nesting shapes up to 200000 levels), ~1.2k package byte strings (valid components "
         "and modules, truncations, bit/byte mutations, random bytes) and ~400 pairings of documents with missing / "
         "wrong / corrupted packages incl. resolve, encode and re-decoding of the encoder's output; every span of every "
         "returned tree or diagnostic is checked and every diagnostic rendered with miette's graphical handler. The "
         "parser model is tied to the code on every run by a correspondence on the text inputs (tree with all spans, "
         "or error variant, expected tokens and span).",
    design_ref="DESIGN.md §5 C14, §7 items 7, 8, 17",
    note="level proof, PARTIAL. Proved: lexer/parser panic-freedom, fuel bound, span bounds (all spans, incl. the "
         "end-of-input rule), unbounded recursion depth, graph-layer corollaries. NOT proved, search only: stack exhaustion "
         "(found: Document::parse aborts on ~6k nested parentheses / ~15k nested list< in the harness build), "
         "resolution.rs / package.rs / encoding.rs panic-freedom (the search found twelve panic sites and one "
         "unbounded recursion: six repaired by fix: commits, the rest listed as known findings), wasmparser / wit-component / miette internals, allocation "
         "failure, timeouts. Trusted: Coq kernel; the hand-written models (validated by correspondence); the C12 "
         "extraction + OCaml driver used for the correspondence; the Rust harness (supervisor, span walker).",
    technique="Coq proof (one outcome predicate pushed through every parser production with verified combinator "
              "lemmas; symbolic lexing for the depth family) + supervised-process search + extracted-model correspondence")

IMPL_BITS = "1111111100111"   # deviation flags of the implementation (C12 driver argument)
CORR_MAX_BYTES = 4000          # texts up to this size are compared with the model
DEEP_MIN = 1000                # nesting depth from which a stack overflow is the known finding

DEEP_SHAPES = ["paren", "paren-open", "paren-postfix", "list", "list-open", "option", "tuple", "result", "mixed-type",
               "func-param", "new", "new-open", "new-paren", "export-paren"]

# Findings on the real code, each re-verified on the current tree by the witnesses of corpus/C14 and of the harness's
# fixed edge cases. Until the main session moves them into /verif/known-findings.json they are consulted from here
# (BUILDING.md, PROPOSED_KNOWN). An entry of known-findings.json with the same id overrides (status "fixed" removes).
PROPOSED_KNOWN = [
    dict(property=PID, id="deep-nesting-stack-overflow", status="known",
         signature="abort:stack-overflow:nesting>=%d" % DEEP_MIN,
         witness="nest:paren:10000 / nest:list:100000 (harness shapes: `let x = ((((...y...))));`, `type t = list<list<...u8...>>;`, "
                 "nested `new a:b { a: new ... }`, unclosed variants)",
         text="Document::parse (and, for trees that did parse, serialisation / drop) recurses once per nesting level of "
              "expressions and value types with no depth limit: deeply nested input overflows the stack and aborts the "
              "process (not catchable). A depth limit is a design decision for the maintainers"),
    dict(property=PID, id="resolve-imports-unwrap", status="known", signature="panic:encode:graph.rs:explicit-import-merge-unwrap",
         witness="corpus/C14/resolve-imports-unwrap.c14",
         text="explicit import `x:y/z@1.0.0` + implicit import `x:y/z@1.1.0` of an incompatible type: encode panics in "
              "resolve_imports' `.unwrap()` (fixed in /repo by 591363d / hooks/fix-c03-explicit-import-merge-conflict.patch; "
              "see merge-conflict-span for what remains)"),
    dict(property=PID, id="merge-conflict-span", status="known", signature="panic:encode:resolution.rs:merge-conflict-span-lookup",
         witness="corpus/C14/resolve-imports-unwrap.c14",
         text="after 591363d the graph layer reports ImportTypeMergeConflict for an explicit import, but "
              "Resolution::encode maps both nodes through `instantiation_spans[..]`; the explicit import is not an "
              "instantiation: HashMap index panics `no entry found for key`. Small fix proposed: "
              "hooks/fix-c14-merge-conflict-span.patch"),
    dict(property=PID, id="resolver-dup-func-then-type", status="known", signature="panic:resolve:resolution.rs:dup-func-then-type",
         witness="corpus/C14/dup-interface-func-type.c14 (+ 4 more shapes: record, resource, world import)",
         text="a type or resource declared after a function of the same name in one interface or world "
              "(`interface a { f: func(); type f = u8; }`): item_type_decl / resource_decl `assert!(prev.is_none())` "
              "panics instead of reporting DuplicateName (the opposite order is reported properly)"),
    dict(property=PID, id="resolver-dangling-dash-type-name", status="known", signature="panic:resolve:resolution.rs:invalid-type-name",
         witness="corpus/C14/dash-type-name.c14 (`package test:comp; type foo- = u8;`, also `interface foo- {}`, `world w- {}`)",
         text="the lexer accepts an identifier with a dangling `-` (C12 finding dangling_dash); used as the name of a "
              "top-level type / interface / world it reaches define_type, whose InvalidExternName error is mapped to "
              "panic!(\"parsed an invalid type name\"). Small fix proposed: hooks/fix-c14-invalid-type-name.patch (report "
              "Error::InvalidExternName, as import and export statements already do)"),
    dict(property=PID, id="encoder-resource-maps", status="known", signature="panic:encode:encoding.rs:resource-maps",
         witness="corpus/C14/enc-export-resource-key.c14, enc-own-key.c14, enc-import-resource-owner.c14, "
                 "enc-include-used-resource-alias.c14",
         text="TypeEncoder panics (`no entry found for key` in export_resource / own(), `should have owner` in "
              "import_resource) on interfaces/worlds that use a resource or a resource alias from another interface "
              "(same defects as C05-encoder-resource-name-key / C05-encoder-alias-name-leak / C05-include-drops-uses, seen "
              "here as crashes of encode)"),
    dict(property=PID, id="decoder-import-export-same-instance", status="known", signature="panic:reload:package.rs:owner-assert",
         witness="corpus/C14/decode-import-export-same-instance.c14",
         text="Package::from_bytes panics (`assert!(prev.is_none())` in TypeConverter's owner map) on a VALID component "
              "produced by wac's own encoder: a world that imports and exports one interface (same instance type index) "
              "with a resource that an inline interface uses under another name, included into another world"),
    dict(property=PID, id="todo-func-exact", status="known", signature="panic:from_bytes:package.rs:todo-func-exact",
         witness="corpus/C14/todo-func-exact-export.c14, todo-func-exact-import.c14; byte strings component-wat:9, component-wat:10",
         text="Package::from_bytes validates with WasmFeatures::all() (custom-descriptors included) and then hits "
              "`todo!()` for wasmparser::types::EntityType::FuncExact when the component imports or exports a core "
              "module with an exact function import (`(import \"a\" \"b\" (func (exact (type 0))))`): a component it "
              "accepts as valid panics the decoder. Small fix proposed: hooks/fix-c14-func-exact.patch (return an "
              "error, like the other unsupported features)"),
    dict(property=PID, id="decoder-nested-namespace-name", status="known", signature="panic:from_bytes:package.rs:component-name-unwrap",
         witness="corpus/C14/decode-nested-namespace.c14 (`package a:b:c; world w {}` -> resolve -> encode -> Package::from_bytes)",
         text="a document whose package name has three segments (`a:b:c`, accepted by the lexer's package_name rule) is "
              "encoded and validated (WasmFeatures::all() allows nested namespaces), but Package::from_bytes then calls "
              "ComponentName::new(..).unwrap() with DEFAULT features in find_definitions, which rejects the name: "
              "`expected `/` after package name` -> panic on wac's own valid output (found by the thorough-tier search). "
              "Small fix proposed: hooks/fix-c14-nested-namespace-name.patch"),
    dict(property=PID, id="miette-render-long-line", status="known", signature="render-panic:miette:column>65535",
         witness="nest:wide-gap:200000 (`let x =` + 200000 spaces + `?;`), nest:list-open:15000",
         text="a diagnostic whose label starts beyond column 65535 of a line cannot be rendered: miette 7.2 "
              "GraphicalReportHandler pads with `{:width$}` and the Rust formatter panics `Formatting argument out of "
              "range` for a width above u16::MAX (graphical.rs). Third-party limitation reached through wac's own way "
              "of printing errors; no change in wac proposed"),
    dict(property=PID, id="aggregator-self-use-recursion", status="known", signature="abort:encode:stack-overflow:same-track-use",
         witness="corpus/C14/aggregator-self-use.c14",
         text="a package importing a:b/c@1.1.0 and a:b/c@1.0.0 where the latter uses a type of the former (one semver "
              "track): the import aggregator merges both into one interface that `uses` itself and the encoder recurses "
              "forever: stack overflow, process abort (found by the C16 worker through the graph API; here through a "
              "document and a package)"),
]



def known_entries():
    ents = {e["id"]: e for e in PROPOSED_KNOWN}
    for e in vlib.load_known(PID):
        if e.get("status") == "known":
            ents[e["id"]] = dict(ents.get(e["id"], {}), **e)
        else:
            ents.pop(e.get("id"), None)
    return ents


def unhex(h):
    return b"" if h == "-" else bytes.fromhex(h)


def short(s, n=200):
    return s if len(s) <= n else s[:n] + "...(%d chars)" % len(s)


def nesting_depth(text):
    """max depth of ( < { nesting, ignoring what closes what (cheap upper bound of the parser's recursion)"""
    d = m = 0
    for ch in text:
        if ch in "(<{":
            d += 1
            if d > m:
                m = d
        elif ch in ")>}":
            d = max(0, d - 1)
    return m


FUNC_NAME = re.compile(r"(?:^|[{;\s])(?:import\s+|export\s+)?(%?[A-Za-z][A-Za-z0-9-]*)\s*:\s*(?:static\s+)?func\b")
DECL_NAME = re.compile(r"\b(?:type|record|variant|flags|enum|resource)\s+(%?[A-Za-z][A-Za-z0-9-]*)")
DASH_DECL = re.compile(r"\b(?:type|interface|world|record|variant|flags|enum)\s+%?[A-Za-z][A-Za-z0-9-]*-(?=[\s{=;]|$)")
EXPLICIT_VERSIONED_IMPORT = re.compile(r"\bimport\s+\S+\s+as\s+\"[^\"]*@[^\"]*\"|\bimport\s+\S+\s*:\s*[A-Za-z%][^;\s]*:[^;\s]*@")


def signature(kind, origin, text, obs):
    """Narrow classification of a failing observation: call site + shape of the input. None = not classifiable."""
    stage = re.match(r"(PANIC|ABORT|TIMEOUT)@([a-z_]+)", obs)
    if obs.startswith("ABORT") and "stack-overflow" in obs:
        if stage.group(2) in ("parse", "serialize", "walk", "drop", "diagnostic"):
            depth = None
            m = re.match(r"nest:([a-z-]+):(\d+)", origin)
            if m and m.group(1) in DEEP_SHAPES:
                depth = int(m.group(2))
            elif text is not None:
                depth = nesting_depth(text)
            if depth is not None and depth >= DEEP_MIN:
                return "abort:stack-overflow:nesting>=%d" % DEEP_MIN
        if stage.group(2) == "encode" and "feat=" in obs and "same-track-use" in obs:
            return "abort:encode:stack-overflow:same-track-use"
        return None
    if obs.startswith("PANIC"):
        site = re.search(r"\[([a-z_]+\.rs):\d+\]", obs)
        f = site.group(1) if site else "?"
        st = stage.group(2)
        t = text or ""
        if st == "encode" and f == "graph.rs" and "Result::unwrap()" in obs and EXPLICIT_VERSIONED_IMPORT.search(t):
            return "panic:encode:graph.rs:explicit-import-merge-unwrap"
        if st == "encode" and f == "resolution.rs" and "no entry found for key" in obs and EXPLICIT_VERSIONED_IMPORT.search(t):
            return "panic:encode:resolution.rs:merge-conflict-span-lookup"
        if st == "resolve" and f == "resolution.rs" and ("duplicate type in scope" in obs or "prev.is_none()" in obs):
            funcs = set(m.group(1).lstrip("%") for m in FUNC_NAME.finditer(t))
            decls = set(m.group(1).lstrip("%") for m in DECL_NAME.finditer(t))
            if funcs & decls:
                return "panic:resolve:resolution.rs:dup-func-then-type"
        if st == "resolve" and f == "resolution.rs" and "parsed an invalid type name" in obs and DASH_DECL.search(t):
            return "panic:resolve:resolution.rs:invalid-type-name"
        if st == "encode" and f == "encoding.rs" and ("no entry found for key" in obs or "should have owner" in obs) \
                and "resource" in t and ("use " in t or "include " in t):
            return "panic:encode:encoding.rs:resource-maps"
        if st in ("from_bytes", "resolve", "reload") and f == "package.rs" and "Result::unwrap()" in obs \
                and "after package name" in obs and (text is None or re.search(r"\bpackage\s+[^;\s:/@]+:[^;\s:/@]+:[^;\s:/@]", t)):
            return "panic:from_bytes:package.rs:component-name-unwrap"
        if st in ("from_bytes", "resolve", "reload") and f == "package.rs" and "EntityType::FuncExact" in obs:
            return "panic:from_bytes:package.rs:todo-func-exact"
        if st == "reload" and f == "package.rs" and "prev.is_none()" in obs and "resource" in t and "include " in t \
                and re.search(r"\bimport\s+([A-Za-z%][A-Za-z0-9-]*)\s*;", t) and re.search(r"\bexport\s+([A-Za-z%][A-Za-z0-9-]*)\s*;", t):
            return "panic:reload:package.rs:owner-assert"
        return None
    return None


def codes(text):
    return ",".join(str(ord(c)) for c in text) or "-"


def norm(o):
    m = re.match(r"ERR (Lexer:\S+) (\d+) \d+ (.*)$", o)
    return "ERR %s %s _ %s" % (m.group(1), m.group(2), m.group(3)) if m else o


def run(res, tier, seed, replay):
    pr = vlib.proof_stage(res, PID)
    ok, log = vlib.ensure_extraction("c12", "theories/extract/ExtractC12.v")
    if not ok:
        res.violation(dict(kind="machinery-error", what="C12 extraction/driver build failed (used for the C14 "
                           "correspondence)", log=log[-3000:]), no_input=True)
        return
    ok, log = vlib.cargo_build(["c14"])
    if not ok:
        res.violation(dict(kind="broken-tie", what="harness does not build against the repository", log=log[-3000:]),
                      no_input=True)
        return
    rd = os.path.join(vlib.BUILD, "c14", "run")
    os.makedirs(rd, exist_ok=True)
    P = lambda x: os.path.join(rd, x)
    hb = vlib.hbin("c14")
    drv = os.path.join(vlib.BUILD, "c12", "driver")
    known = known_entries()
    known_by_sig = {e["signature"]: e for e in known.values()}

    replay_arg = ""
    if replay:
        rp = json.load(open(replay))
        lines = rp.get("cases", [rp.get("case", "")])
        open(P("replay_in.txt"), "w").write("\n".join(lines) + "\n")
        replay_arg = " " + P("replay_in.txt")
    rc, out = vlib.sh(f"{hb} {tier} {seed} {P('cases.txt')} {P('impl.txt')}{replay_arg}", timeout=3300)
    if rc != 0:
        res.violation(dict(kind="machinery-error", what="harness (supervisor) failed", log=out[-3000:]), no_input=True)
        return
    cases = open(P("cases.txt"), encoding="utf-8", errors="replace").read().split("\n")[:-1]
    impl = open(P("impl.txt"), encoding="utf-8", errors="replace").read().split("\n")[:-1]
    assert len(cases) == len(impl), (len(cases), len(impl))

    # ---------------------------------------------------------------- evaluation of the property predicate
    kinds = {}
    outcomes = {}
    fails = []          # (case line, origin, text|None, obs, why)
    corr = []           # (index, text)
    nontrivial = set()
    bisect = {}
    supervisor = ""
    texts = 0
    for n, (c, o) in enumerate(zip(cases, impl)):
        f = c.split("\t")
        kind, origin = f[0], f[2]
        obs = o.split("\t", 1)[1] if "\t" in o else o
        if kind == "X":
            if origin.startswith("bisect:"):
                bisect[origin[7:]] = int(f[3])
            else:
                supervisor = obs
            continue
        cls = kind + ":" + origin.split(":")[0]
        kinds[cls] = kinds.get(cls, 0) + 1
        text = None
        if kind in ("T", "R"):
            try:
                text = unhex(f[3]).decode("utf-8")
            except Exception:
                text = None
        head = obs.split(" ", 1)[0].split("@")[0].split(":")[0]
        outcomes[kind + ":" + head] = outcomes.get(kind + ":" + head, 0) + 1
        why = None
        if obs.startswith(("PANIC", "ABORT", "TIMEOUT", "BAD-")):
            why = "the call did not return: " + short(obs, 160)
        else:
            if kind in ("T", "N"):
                line, _, extra = obs.partition("\t")
                ef = extra.split(" ")
                bad = ef[1] if len(ef) > 1 else "-"
                render = ef[2] if len(ef) > 2 else "render=-"
                if bad != "-":
                    why = "span not inside the source / not on character boundaries: " + bad
                elif render not in ("render=ok", "render=-"):
                    why = "the diagnostic could not be rendered: " + render
                if kind == "T":
                    texts += 1
                    if text is not None and len(f[3]) // 2 <= CORR_MAX_BYTES and not line.startswith("OK #"):
                        corr.append((n, text, line))
                    if line.startswith("OK ") and '"statements":[{' in line:
                        nontrivial.add(f[3])
                    elif line.startswith("ERR ") and int(line.split(" ")[2]) > 0:
                        nontrivial.add(f[3])
            elif kind == "B":
                if not (obs.startswith("err") and "not a binary-encoded" in obs):
                    nontrivial.add(f[3])
            elif kind == "R":
                m = re.match(r"(resolve-err|encode-err):\S+ (\d+) (\S+) (render=\S+)", obs)
                if m:
                    if m.group(3) != "-":
                        why = "span of a %s diagnostic not inside the source: %s" % (m.group(1), m.group(3))
                    elif m.group(4) != "render=ok":
                        why = "the diagnostic could not be rendered: " + m.group(4)
                if obs != "parse-err":
                    nontrivial.add(c.split("\t", 3)[3])
        if why:
            fails.append((c, origin, text, obs, why))

    # ---------------------------------------------------------------- correspondence with the parser model (C12 driver)
    disagreements = []
    unmodelled = 0
    if corr:
        open(P("drv_in.txt"), "w").write("".join("doc\t%d\tc14\t%s\n" % (n, codes(t)) for n, t, _ in corr))
        rc, out = vlib.sh(f"{drv} {IMPL_BITS} < {P('drv_in.txt')} > {P('drv_out.txt')}", timeout=3000)
        if rc != 0:
            res.violation(dict(kind="machinery-error", what="model driver failed", log=out[-2000:]), no_input=True)
            return
        mo = open(P("drv_out.txt"), encoding="utf-8", errors="replace").read().split("\n")[:-1]
        assert len(mo) == len(corr), (len(mo), len(corr))
        for (n, t, line), m in zip(corr, mo):
            M = m.split("\t")[0]
            if M == "UNMODELLED":
                unmodelled += 1
            elif norm(line) != norm(M):
                disagreements.append((cases[n], t, line, M))

    # ---------------------------------------------------------------- known findings / violations
    violations = []
    hit = {}
    for c, origin, text, obs, why in fails:
        if why.startswith("the diagnostic could not be rendered") and "Formatting argument out of range" in obs:
            # label beyond column 65535: the error offset is at least that far into the text
            m = re.match(r"ERR \S+ (\d+) ", obs)
            col_ok = m is not None and int(m.group(1)) > 65535
            if text is not None and m is not None:
                b = text.encode("utf-8")[:int(m.group(1))]
                col_ok = len(b) - (b.rfind(b"\n") + 1) > 65535
            sig = "render-panic:miette:column>65535" if col_ok else None
        elif why.startswith("span not inside"):
            # the former end-of-input rule (finding end-of-input-span, fixed): an `eof` error whose span is outside an
            # EMPTY source or inside a character; the classification only names the defect, it is no longer suppressed
            line, _, extra = obs.partition("\t")
            bad = extra.split(" ")[1]
            eof = extra.endswith(" eof")
            empty_outside = "outside" in bad and text is not None and len(text) == 0
            sig = "span:eof-rule" if eof and (empty_outside or ("outside" not in bad)) else None
        else:
            sig = signature(c.split("\t")[0], origin, text, obs)
        if sig and sig in known_by_sig:
            hit.setdefault(sig, []).append((origin, text, obs))
        else:
            violations.append((c, origin, text, obs, why, sig))
    for sig, lst in hit.items():
        e = known_by_sig[sig]
        origin, text, obs = sorted(lst, key=lambda x: len(x[1] or "") + len(x[0]))[0]
        extra = ""
        if sig.startswith("abort:stack-overflow"):
            extra = " smallest failing depth found by bisection in this run (this build, 8 MiB main-thread stack): %s;" % (
                ", ".join("%s=%d" % kv for kv in sorted(bisect.items())) or "n/a")
        res.known.append("%s signature=%s cases=%d witness=%s observed=%r:%s %s" % (
            e["id"], sig, len(lst), origin, short(obs.replace("\t", " "), 140), extra, e.get("text", "")))

    # large replays are stored as files
    def replay_lines(c, text):
        f = c.split("\t")
        if f[0] == "T" and len(f[3]) > 200000:
            d = os.path.join(vlib.ROOT, "replays", PID)
            os.makedirs(d, exist_ok=True)
            p = os.path.join(d, hashlib.sha256(f[3].encode()).hexdigest()[:12] + ".wac")
            open(p, "wb").write(unhex(f[3]))
            return ["F\t%s\t%s\t%s" % (f[1], f[2], p)]
        return [c]

    violations.sort(key=lambda v: len(v[0]))
    for c, origin, text, obs, why, sig in violations[:6]:
        res.violation(dict(kind="property-fails-on-implementation", what=why, origin=origin,
                           input=short(text, 4000) if text is not None else "(see cases)", observation=short(obs, 1500),
                           classification=sig or "unclassified", cases=replay_lines(c, text)))

    # ---------------------------------------------------------------- evidence
    def sample(pred):
        for c, o in zip(cases, impl):
            f = c.split("\t")
            if pred(f, o):
                t = None
                if f[0] in ("T", "R"):
                    try:
                        t = unhex(f[3]).decode("utf-8")
                    except Exception:
                        t = None
                return dict(kind=f[0], origin=f[2], input=short(t if t is not None else f[3], 240),
                            observation=short(o.split("\t", 1)[1].replace("\t", " | "), 200))
        return None
    samples = [s for s in (
        sample(lambda f, o: f[0] == "T" and ":tok-" in f[2] and "\tERR " in o),
        sample(lambda f, o: f[0] == "T" and f[2].startswith("unicode:") and "\tERR Lexer" in o),
        sample(lambda f, o: f[0] == "N" and "ABORT" in o),
        sample(lambda f, o: f[0] == "B" and ":bit-flip" in f[2]),
        sample(lambda f, o: f[0] == "R" and ":corrupted" in f[2]),
        sample(lambda f, o: f[0] == "R" and "\tok " in o)) if s]
    res.coverage.update(dict(
        evaluations=len(cases) - sum(1 for c in cases if c.startswith("X\t")), case_kinds=kinds, outcomes=outcomes,
        texts=texts, correspondence_cases=len(corr), disagreements=len(disagreements), unmodelled_lexemes=unmodelled,
        spec_failures_on_impl=len(fails), failures_matching_known_findings=sum(len(v) for v in hit.values()),
        known_findings_hit=sorted(known_by_sig[s]["id"] for s in hit), unclassified_failures=len(violations),
        smallest_failing_depth=bisect, supervisor=supervisor, distinct_nontrivial=len(nontrivial),
        rule="SEARCH (not proof), one seeded PRNG: (a) texts: 28 fixed edge texts, arbitrary Unicode strings (all planes, "
             "forbidden code points, token fragments), documents generated from the grammar with random layout and "
             "comments, for each of them and for every .wac file of the repository token-level mutations (delete, "
             "duplicate, swap, insert, substitute, truncate the token stream) and byte/character-level mutations "
             "(bit flip, byte set/insert/delete, truncate, slice duplication, decoded lossily to valid UTF-8), every "
             "prefix of 5 documents, 14 deeply nested and 8 very long shapes at depths 10..200000 with bisection of "
             "the smallest aborting depth; (b) byte strings: every .wat and WIT package of the repository, components "
             "built from dummy modules, core modules, ~130 SHAPED valid components written as WAT (component types with 0/1/2 "
             "exports of every kind, with imports only, instance types with 0..2 exports, nested, under plain / interface "
             "/ versioned names, value-level imports and exports of them), their truncations / bit flips / byte edits, every prefix of 2 "
             "components, random bytes (bare, after a component header, as a section); (c) every test document of the "
             "repository with its packages as shipped / one missing / replaced by another component / corrupted / "
             "truncated / swapped / replaced by a core module, with a mutated document, ~430 multi-statement documents whose diagnostics must REFER BACK to earlier "
             "statements (every ordered pairing of the ways a name can be exported or defined -- spread, `as`, inferred, "
             "type / record / interface / world -- plus duplicate imports, lets, arguments given twice), libraries of 3-4 components importing ONE "
             "interface at 3+ versions of a semver track (and mixed tracks) instantiated with `...` in every order, "
             "components whose import / export names use every extern-name form wasmparser accepts (kebab, interface "
             "ids, url=, relative-url=, locked-dep= with/without integrity=, unlocked-dep=, integrity=) instantiated "
             "with identifier-named / inferred / string-named arguments, spreads and access expressions whose "
             "identifiers are the words of those names, generated documents without packages, and the scenario corpus corpus/C14 (known-finding witnesses); resolve, then encode, then "
             "Package::from_bytes on the encoder's output. Each input runs in a supervised worker process (per-input "
             "timeout, restart on death). non-trivial = distinct text parsed beyond its first token (accepted with a "
             "statement, or rejected at an offset > 0), byte string that passes the component-header test, pairing "
             "whose document parses",
        samples=samples,
        trusted_base=vlib.TRUSTED_COMMON + [
            "models Lexer.v / Parser.v / Ast.v (C12) are hand-written from lexer.rs and ast*.rs; tied to the code by the "
            "C12 correspondence and by the correspondence of this run (tree with all spans / error variant, expected "
            "tokens, span) through the C12 extraction and driver (build/c12)",
            "semver::Version::from_str is modelled total (Semver.v, C15); the package-path slice `s[slash + 1..at]` is "
            "total in Parser.v and proved in range separately (package_path_slice_never_panics); the lexeme class "
            "reported as LUnmodelled (C12) is outside parse_returns_partial",
            "resolution.rs, package.rs, encoding.rs, wasmparser, wit-component, wit-parser, wat, miette, serde_json are "
            "NOT modelled: only searched, in a supervised child process",
            "stack size of the worker's main thread (ulimit -s, 8 MiB here) and the harness build profile (opt-level 1) "
            "determine the aborting depths reported; they are observations, not bounds",
            "the graph-layer corollaries rest on Graph.v (C06) and its own correspondence"]))
    res.assumptions = [
        "source texts are valid UTF-8 (Rust &str); byte-level mutations are decoded lossily before they are parsed",
        "a returned anyhow/miette error is a return; only a caught panic, a dead worker or a timeout count as 'did not return'",
        "per-input timeout %s s" % os.environ.get("C14_TIMEOUT_S", "20")]

    if not violations:
        if disagreements:
            disagreements.sort(key=lambda d: len(d[1]))
            c, t, line, M = disagreements[0]
            res.violation(dict(kind="correspondence-broken",
                               what="parser model and implementation differ on a text input; the property predicate "
                                    "(returns, spans inside the source, renders) holds on every implementation "
                                    "observation of this run outside the known findings",
                               correspondence="Lexer.v/Parser.v vs lexer.rs/ast*.rs (C12 driver)", cases=[c],
                               source=short(t, 2000), implementation=short(line, 1500), model=short(M, 1500),
                               n=len(disagreements)), no_input=True)
        if res.proof_broken:
            res.violation(res.proof_broken, no_input=True)
