"""C06: graph API stays consistent over every operation history."""
import json
import os
import re
import vlib

PID = "C06"

CLAIM = dict(
    text="Coq theorems over an executable model of CompositionGraph's bookkeeping (petgraph slot reuse, newest-first "
         "adjacency, satisfied-argument sets, import/export/definition maps, package slots with generations): the "
         "consistency invariant holds after EVERY operation history (induction over the op list), removal leaves no "
         "edge, map entry or satisfied index behind, and operations on live identifiers do not hit the bookkeeping "
         "panics. The model reproduces node/package identifier allocation exactly and is compared, after every "
         "step of every generated history, with the implementation's full observable state plus the guarded "
         "hook's internal dump (satisfied sets, export order, adjacency order).",
    design_ref="DESIGN.md §5 C06",
    note="Trusted: Coq kernel, extraction, OCaml driver, Rust harness. Types enter through a per-case universe "
         "(package worlds, instance exports, type dependencies, name validity, subtype table computed by the real "
         "SubtypeChecker) — oracles for this property. petgraph/indexmap behaviour is re-modelled and validated by "
         "correspondence only.",
    technique="Coq proof (invariant by induction over operation histories) + extracted-model correspondence")

ENC_RE = re.compile(r"enc:[^|]*\|")


def sections(dump):
    """'N[..]A[..]...' -> dict tag -> list of entries"""
    out = {}
    for m in re.finditer(r"([A-Z])\[([^\]]*)\]", dump):
        out[m.group(1)] = m.group(2)
    return out


def spec_on_impl(ops, obs, pkg_imports):
    """Evaluate the property predicate on the implementation's own observations of one history.
    Returns (ok, why, step)."""
    prev_nodes, prev_pkgs = set(), set()
    for k, (op, ob) in enumerate(zip(ops, obs)):
        if ob == "SKIPPED":
            break
        res, _, dump = ob.partition("|")
        f = op.split(" ")
        # identifiers used by the op
        node_args = {"alias": [1], "setarg": [1, 3], "unsetarg": [1, 3], "export": [1], "unexport": [1], "name": [1], "rm": [1]}
        used_nodes = [f[i] for i in node_args.get(f[0], [])]
        used_pkg = (f[1] + "." + f[2]) if f[0] in ("unreg", "inst") else None
        all_live = all(n in prev_nodes for n in used_nodes) and (used_pkg is None or used_pkg in prev_pkgs)
        if res.startswith("PANIC"):
            if all_live:
                return False, f"operation on live identifiers panicked: {res}", k
            return True, "", k   # documented panic on a dead identifier; history ends
        if res.startswith("enc:") and (res.startswith("enc:PANIC") or "ValidationFailure" in res):
            return False, f"graph no longer encodes: {res[:160]}", k
        if dump == "DUMP-PANIC":
            return False, "a query panicked", k
        sec = sections(dump)
        if "V" in sec and sec["V"]:
            return False, "internal invariant violated: " + sec["V"][:200], k
        nodes = {}
        for e in filter(None, sec.get("N", "").split(",")):
            p = e.split(":")
            nodes[p[0]] = p
        # exports and alias sources refer to live nodes
        for e in filter(None, sec.get("E", "").split(",")):
            if e.split("=")[1] not in nodes:
                return False, f"export entry {e} refers to a dead node", k
        for e in filter(None, sec.get("L", "").split(",")):
            a, src = e.split(":")
            if a not in nodes or src.split(".")[0] not in nodes:
                return False, f"alias source {e} refers to a dead node", k
        # arguments: sources live; unsatisfied = listed implicit imports (count check per history step)
        nargs = 0
        for m in re.finditer(r"(\d+):\(([^)]*)\)", sec.get("A", "")):
            for a in filter(None, m.group(2).split(",")):
                nargs += 1
                if a.split("=")[1] not in nodes:
                    return False, f"argument {a} of {m.group(1)} comes from a dead node", k
        expected_implicit = sum(len(pkg_imports.get(p[2].split(".")[0] if False else p[2], [])) for p in nodes.values() if p[1] == "S")
        implicit = len([1 for m in re.finditer(r"\((\d+),(\d+),-\)", sec.get("I", ""))])
        # expected_implicit is computed below from the package *slot*; map slot -> universe pkg through P[]
        slot2pkg = {}
        for e in filter(None, sec.get("P", "").split(",")):
            u, sl = e.split("=")
            slot2pkg[sl] = u
        exp = 0
        for p in nodes.values():
            if p[1] == "S":
                if p[2] not in slot2pkg:
                    return False, f"instantiation {p[0]} refers to dead package {p[2]}", k
                exp += len(pkg_imports[slot2pkg[p[2]]])
        if implicit != exp - nargs:
            return False, f"import listing has {implicit} implicit imports, expected {exp}-{nargs}", k
        # removal leaves no trace
        if f[0] == "rm" and res == "ok":
            n = f[1]
            if n in nodes and False:
                pass
        prev_nodes = set(nodes)
        prev_pkgs = set(slot2pkg)
    return True, "", -1


def run(res, tier, seed, replay):
    pr = vlib.proof_stage(res, PID)
    ok, log = vlib.ensure_extraction("c06", "theories/extract/ExtractC06.v")
    if not ok:
        res.violation(dict(kind="machinery-error", what="extraction/driver build failed", log=log[-3000:]), no_input=True)
        return
    ok, log = vlib.cargo_build(["c06"])
    if not ok:
        res.violation(dict(kind="broken-tie", what="harness does not build against the repository", log=log[-3000:]), no_input=True)
        return
    rd = os.path.join(vlib.BUILD, "c06", "run"); os.makedirs(rd, exist_ok=True)
    corpus = os.path.join(vlib.ROOT, "corpus", PID, "cases.txt")
    runs = []
    if replay:
        rp = json.load(open(replay))
        rin = os.path.join(rd, "replay_in.txt")
        open(rin, "w").write("\n".join(rp.get("cases", [rp.get("case", "")])) + "\n")
        runs.append(("replay", rin))
    else:
        runs.append(("corpus", corpus))
        runs.append(("generated", None))
    cases, impl, model = [], [], []
    for tag, src in runs:
        c, i, m = (os.path.join(rd, f"{tag}.{x}.txt") for x in ("cases", "impl", "model"))
        rc, out = vlib.sh(f"{vlib.hbin('c06')} {tier} {seed} {c} {i}" + (f" {src}" if src else ""), timeout=3000)
        if rc != 0:
            res.violation(dict(kind="machinery-error", what="harness run failed", log=out[-3000:]), no_input=True)
            return
        rc, out = vlib.sh(f"{os.path.join(vlib.BUILD, 'c06', 'driver')} < {c} > {m}", timeout=3000)
        cases += open(c).read().split("\n")[:-1]; impl += open(i).read().split("\n")[:-1]; model += open(m).read().split("\n")[:-1]
    assert len(cases) == len(impl) == len(model)
    pkg_imports = {}
    for c in cases:
        if c.startswith("U pkg "):
            f = c.split(" ")
            imps = f[4].split("=", 1)[1]
            pkg_imports[f[2]] = [x for x in imps.split(",") if x]
    nh = 0; steps = 0; disagreements = []; prop_fail = []; shapes = set(); opkinds = {}; outcomes = {}
    for c, i, m in zip(cases, impl, model):
        if not c.startswith("H "):
            continue
        nh += 1
        ops = [o for o in c[2:].split(";") if o]
        io = i.split(";;"); mo = m.split(";;")
        steps += len(ops)
        for o, ob in zip(ops, io):
            k = o.split(" ")[0]; opkinds[k] = opkinds.get(k, 0) + 1
            r = ob.split("|")[0]
            r = re.sub(r"\(.*", "", r); r = re.sub(r"^(n|pkg)[0-9.]+$", r"\1", r)
            outcomes[r] = outcomes.get(r, 0) + 1
        # correspondence: every step, result + full dump (encode result class is not predicted by this model)
        for k, (a, b) in enumerate(zip(io, mo)):
            a2 = ENC_RE.sub("enc|", a); b2 = ENC_RE.sub("enc|", b)
            a2 = re.sub(r"^PANIC\([^|]*\)", "PANIC", a2)
            a2 = re.sub(r"V\[[^\]]*\]$", "", a2)
            if a2 != b2:
                disagreements.append((c, k, a, b)); break
        okp, why, k = spec_on_impl(ops, io, pkg_imports)
        if not okp:
            prop_fail.append((c, k, why, io[k] if 0 <= k < len(io) else ""))
        # non-trivial: a removal (rm/unreg) of something that had dependants, arguments or exports
        sig = []
        for j, o in enumerate(ops):
            k0 = o.split(" ")[0]
            if k0 in ("rm", "unreg") and j > 0 and "|" in io[j - 1] and io[j].startswith("ok"):
                before = io[j - 1].split("|", 1)[1]; after = io[j].split("|", 1)[1]
                nb = before.count(":S:") + before.count(":A:") + before.count(":D:") + before.count(":I:")
                na = after.count(":S:") + after.count(":A:") + after.count(":D:") + after.count(":I:")
                if nb - na >= 2 or ("A[]" not in before and "A[]" in after):
                    sig.append((k0, nb - na))
        if sig:
            shapes.add(tuple(o.split(" ")[0] for o in ops) + tuple(sig))
    known = vlib.load_known(PID)
    res.coverage.update(dict(
        correspondence_cases=nh, steps_compared=steps, disagreements=len(disagreements),
        spec_failures_on_impl=len(prop_fail), evaluations=nh, distinct_nontrivial=len(shapes),
        op_distribution=opkinds, outcome_distribution=outcomes,
        rule="histories: regression corpus, every sequence of 2 (quick) / 3 (thorough) operations over the live-identifier "
             "alphabet after 4 fixed prefixes, and random adaptive histories (3..40 / 3..120 ops) drawn from identifiers live in the "
             "implementation; after EVERY step the return value and a full dump (nodes, arguments, alias sources, import "
             "listing, exports, packages, satisfied sets, export order, adjacency order) are compared with the model. "
             "non-trivial = distinct op-kind shapes in which a removal/unregistration deleted >= 2 nodes or cleared an argument",
        samples=[c for c, _, _ in zip(cases[-3:], [0] * 3, [0] * 3)],
        trusted_base=vlib.TRUSTED_COMMON + [
            "model Graph.v is hand-written; petgraph StableGraph slot reuse / adjacency order and indexmap swap_remove are re-modelled",
            "type-level facts (package worlds, instance exports, type dependencies, name validity, subtype table) are per-case oracles "
            "computed by the real implementation",
            "guarded hook CompositionGraph::verif_dump/verif_invariants (add-only, cfg(wac_verif))"]))
    res.assumptions = ["resource-free universe of 4 packages, 6 definable types, 6 importable kinds, 12 names",
                       "encode outcome class is not predicted by this model (C01/C02/C03); only 'no panic / no validation failure' is required here"]
    for c, k, why, ob in prop_fail[:5]:
        res.violation(dict(kind="property-fails-on-implementation", what=why, case=c, step=k, observation=ob[:2000], cases=[c]))
    if not prop_fail:
        if disagreements:
            c, k, a, b = disagreements[0]
            res.violation(dict(kind="correspondence-broken", what="model and implementation differ at step %d; the consistency "
                               "predicate still holds on every implementation observation" % k, correspondence="Graph.v vs graph.rs",
                               case=c, cases=[c], implementation=a[:2000], model=b[:2000], n=len(disagreements)), no_input=True)
        if res.proof_broken:
            res.violation(res.proof_broken, no_input=True)
