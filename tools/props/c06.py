"""C06: graph API stays consistent over every operation history."""
import json
import os
import re
import vlib

PID = "C06"

CLAIM = dict(
    text="Coq theorems over an executable model of CompositionGraph's bookkeeping (petgraph slot reuse, newest-first "
         "adjacency, satisfied-argument sets, import/export/definition maps, package slots with generations): the "
         "consistency invariant holds after EVERY operation history (induction over the op list), removal leaves no "
         "edge, map entry or satisfied index behind, and operations on live identifiers do not hit the bookkeeping "
         "panics. The model reproduces node/package identifier allocation exactly and is compared, after every "
         "step of every generated history, with the implementation's full observable state plus the guarded "
         "hook's internal dump (satisfied sets, export order, adjacency order).",
    design_ref="DESIGN.md §5 C06",
    note="Trusted: Coq kernel, extraction, OCaml driver, Rust harness. Types enter through a per-case universe "
         "(package worlds, instance exports, type dependencies, name validity, subtype table computed by the real "
         "SubtypeChecker) — oracles for this property. petgraph/indexmap behaviour is re-modelled and validated by "
         "correspondence only.",
    technique="Coq proof (invariant by induction over operation histories) + extracted-model correspondence")

ENC_RE = re.compile(r"enc:[^|]*\|")


def sections(dump):
    """'N[..]A[..]...' -> dict tag -> list of entries"""
    out = {}
    for m in re.finditer(r"([A-Z])\[([^\]]*)\]", dump):
        out[m.group(1)] = m.group(2)
    return out


def parse_dump(dump):
    sec = sections(dump)
    nodes = {}
    for e in filter(None, sec.get("N", "").split(",")):
        p = e.split(":")
        nodes[p[0]] = p
    args = {}
    for m in re.finditer(r"(\d+):\(([^)]*)\)", sec.get("A", "")):
        args[m.group(1)] = [tuple(a.split("=")) for a in m.group(2).split(",") if a]
    aliases = {}
    for e in filter(None, sec.get("L", "").split(",")):
        a, src = e.split(":")
        aliases[a] = tuple(src.split("."))
    exports = {}
    for e in filter(None, sec.get("E", "").split(",")):
        n, x = e.split("=")
        exports[n] = x
    slot2pkg = {}
    for e in filter(None, sec.get("P", "").split(",")):
        u, sl = e.split("=")
        slot2pkg[sl] = u
    edges = set()
    for e in filter(None, sec.get("G", "").split(",")):
        a, rest = e.split(">")
        b, k = rest.split(":")
        edges.add((a, b, k))
    implicit = len(re.findall(r"\((\d+),(\d+),-\)", sec.get("I", "")))
    return dict(sec=sec, nodes=nodes, args=args, aliases=aliases, exports=exports, slot2pkg=slot2pkg,
                edges=edges, implicit=implicit)


def spec_on_impl(ops, obs, uni):
    """Evaluate the property predicate on the implementation's own observations of one history:
    no panic on live identifiers, documented post-condition of every operation, failed operations leave no trace,
    queries mutually consistent, internal invariants (hook), dependants tracked. Returns (ok, why, step)."""
    pkg_imports, ty_of_kind, ty_deps = uni["pkg_imports"], uni["ty_of_kind"], uni["ty_deps"]
    prev = None
    prev_dump = None
    for k, (op, ob) in enumerate(zip(ops, obs)):
        if ob == "SKIPPED":
            break
        res, _, dump = ob.partition("|")
        f = op.split(" ")
        node_args = {"alias": [1], "setarg": [1, 3], "unsetarg": [1, 3], "export": [1], "unexport": [1], "name": [1], "rm": [1]}
        used_nodes = [f[i] for i in node_args.get(f[0], [])]
        used_pkg = (f[1] + "." + f[2]) if f[0] in ("unreg", "inst") else None
        pn = prev["nodes"] if prev else {}
        pp = prev["slot2pkg"] if prev else {}
        all_live = all(n in pn for n in used_nodes) and (used_pkg is None or used_pkg in pp)
        if res.startswith("PANIC"):
            if all_live:
                return False, f"operation on live identifiers panicked: {res}", k
            return True, "", k   # documented panic on a dead identifier; history ends
        if res.startswith("enc:") and (res.startswith("enc:PANIC") or "ValidationFailure" in res):
            return False, f"graph no longer encodes: {res[:160]}", k
        if dump == "DUMP-PANIC":
            return False, "a query panicked", k
        d = parse_dump(dump)
        sec, nodes = d["sec"], d["nodes"]
        if sec.get("V"):
            return False, "internal invariant violated: " + sec["V"][:200], k
        # a failed operation (documented error) and a query leave no trace
        if (res.startswith("E:") or res.startswith("enc:")) and prev_dump is not None and dump != prev_dump:
            return False, f"operation failed with {res} but changed the graph", k
        for nm, x in d["exports"].items():
            if x not in nodes:
                return False, f"export {nm}={x} refers to a dead node", k
        for a, (src, _) in d["aliases"].items():
            if a not in nodes or src not in nodes:
                return False, f"alias source {a}:{src} refers to a dead node", k
        # a type definition is exported under exactly one name: the one its node records (and is encoded with)
        for p in nodes.values():
            if p[1] == "D":
                names = sorted(nm for nm, x in d["exports"].items() if x == p[0])
                if names != [p[4]]:
                    return False, (f"definition {p[0]} records export name {p[4]} but the export map designates it "
                                   f"under {names}"), k
        nargs = 0
        for i, l in d["args"].items():
            for (a, src) in l:
                nargs += 1
                if src not in nodes:
                    return False, f"argument {a} of {i} comes from a dead node", k
        exp = 0
        for p in nodes.values():
            if p[1] == "S":
                if p[2] not in d["slot2pkg"]:
                    return False, f"instantiation {p[0]} refers to dead package {p[2]}", k
                exp += len(pkg_imports[d["slot2pkg"][p[2]]])
            if p[1] == "A" and p[0] not in d["aliases"]:
                return False, f"alias node {p[0]} has no source", k
            if p[2] != "-" and p[2] not in d["slot2pkg"]:
                return False, f"node {p[0]} belongs to dead package {p[2]}", k
        if d["implicit"] != exp - nargs:
            return False, f"import listing has {d['implicit']} implicit imports, expected {exp}-{nargs}", k
        # dependants are tracked: every live definition that refers to another live definition has the edge
        defs = {p[0]: ty_of_kind.get(p[3]) for p in nodes.values() if p[1] == "D"}
        for b, tb in defs.items():
            for a, ta in defs.items():
                if a != b and tb is not None and ta is not None and ta in ty_deps.get(tb, []) and (a, b, "d") not in d["edges"]:
                    return False, f"definition {b} depends on definition {a} but no dependency is recorded", k
        # documented post-conditions of successful operations
        ok = res == "ok" or res.startswith("n") or res.startswith("pkg")
        if ok and prev is not None or ok:
            if f[0] == "setarg" and (f[2], f[3]) not in d["args"].get(f[1], []):
                return False, "set argument is not listed", k
            if f[0] == "unsetarg" and (f[2], f[3]) in d["args"].get(f[1], []):
                return False, "unset argument is still listed", k
            if f[0] == "rm":
                if f[1] in nodes:
                    return False, "removed node is still listed", k
                # its alias/dependency descendants are gone as well
                gone = {f[1]}
                changed = True
                pe = prev["edges"] if prev else set()
                while changed:
                    changed = False
                    for (a, b, kk) in pe:
                        if a in gone and b not in gone and (kk.startswith("a") or kk == "d"):
                            gone.add(b); changed = True
                if set(pn) - gone != set(nodes):
                    return False, f"removal did not remove exactly the node and its dependants: expected {sorted(set(pn) - gone)} got {sorted(nodes)}", k
            if f[0] == "unreg":
                if any(p[2] == used_pkg for p in nodes.values()):
                    return False, "node of the unregistered package survives", k
                survivors = {n for n, p in pn.items() if p[2] != used_pkg}
                if survivors != set(nodes):
                    return False, "unregister removed or kept the wrong nodes", k
            if f[0] == "export" and d["exports"].get(f[2]) != f[1]:
                return False, "exported name does not map to the node", k
            if f[0] == "export" and f[1] in pn:
                # exporting a definition under another name RENAMES it; any other node keeps its earlier names
                before = {nm for nm, x in prev["exports"].items() if x == f[1]}
                after = {nm for nm, x in d["exports"].items() if x == f[1]}
                want = {f[2]} if pn[f[1]][1] == "D" else before | {f[2]}
                if after != want:
                    return False, (f"after export the node is designated by {sorted(after)}, expected {sorted(want)} "
                                   f"({'definition: renamed' if pn[f[1]][1] == 'D' else 'earlier names kept'})"), k
                others_before = {nm: x for nm, x in prev["exports"].items() if x != f[1]}
                others_after = {nm: x for nm, x in d["exports"].items() if x != f[1]}
                if others_before != others_after:
                    return False, "export changed the export names of another node", k
            if f[0] == "unexport" and f[1] in d["exports"].values():
                return False, "unexported node still has an export name", k
            if f[0] == "alias" and res.startswith("n"):
                if d["aliases"].get(res[1:]) != (f[1], f[2]):
                    return False, "alias node does not report the requested source/export", k
            if f[0] in ("def", "imp", "inst") and res.startswith("n") and res[1:] not in nodes:
                return False, "created node is not listed", k
        prev = d
        prev_dump = dump
    return True, "", -1


def run(res, tier, seed, replay):
    pr = vlib.proof_stage(res, PID)
    ok, log = vlib.ensure_extraction("c06", "theories/extract/ExtractC06.v")
    if not ok:
        res.violation(dict(kind="machinery-error", what="extraction/driver build failed", log=log[-3000:]), no_input=True)
        return
    ok, log = vlib.cargo_build(["c06"])
    if not ok:
        res.violation(dict(kind="broken-tie", what="harness does not build against the repository", log=log[-3000:]), no_input=True)
        return
    rd = os.path.join(vlib.BUILD, "c06", "run"); os.makedirs(rd, exist_ok=True)
    corpus = os.path.join(vlib.ROOT, "corpus", PID, "cases.txt")
    runs = []
    if replay:
        rp = json.load(open(replay))
        rin = os.path.join(rd, "replay_in.txt")
        open(rin, "w").write("\n".join(rp.get("cases", [rp.get("case", "")])) + "\n")
        runs.append(("replay", rin))
    else:
        runs.append(("corpus", corpus))
        runs.append(("generated", None))
    cases, impl, model = [], [], []
    for tag, src in runs:
        c, i, m = (os.path.join(rd, f"{tag}.{x}.txt") for x in ("cases", "impl", "model"))
        rc, out = vlib.sh(f"{vlib.hbin('c06')} {tier} {seed} {c} {i}" + (f" {src}" if src else ""), timeout=3000)
        if rc != 0:
            res.violation(dict(kind="machinery-error", what="harness run failed", log=out[-3000:]), no_input=True)
            return
        rc, out = vlib.sh(f"{os.path.join(vlib.BUILD, 'c06', 'driver')} < {c} > {m}", timeout=3000)
        cases += open(c).read().split("\n")[:-1]; impl += open(i).read().split("\n")[:-1]; model += open(m).read().split("\n")[:-1]
    assert len(cases) == len(impl) == len(model)
    uni = dict(pkg_imports={}, ty_of_kind={}, ty_deps={})
    for c in cases:
        f = c.split(" ")
        if c.startswith("U pkg "):
            uni["pkg_imports"][f[2]] = [x for x in f[4].split("=", 1)[1].split(",") if x]
        if c.startswith("U ty "):
            uni["ty_of_kind"][f[4].split("=")[1]] = f[2]
            uni["ty_deps"][f[2]] = [x for x in f[5].split("=", 1)[1].split(",") if x and x != f[2]]
    # hypothesis of step_no_panic_live / reach_acyclic: UniverseWF (every in-range dependency of type t has index <= t)
    wf_bad = [(t, d) for t, ds in uni["ty_deps"].items() for d in ds if int(d) < len(uni["ty_deps"]) and int(d) > int(t)]
    res.coverage["universe_wf"] = not wf_bad
    if wf_bad:
        res.violation(dict(kind="machinery-error", what="case universe violates UniverseWF (hypothesis of the no-panic theorems)", detail=wf_bad), no_input=True)
    nh = 0; steps = 0; disagreements = []; prop_fail = []; shapes = set(); opkinds = {}; outcomes = {}
    for c, i, m in zip(cases, impl, model):
        if not c.startswith("H "):
            continue
        nh += 1
        ops = [o for o in c[2:].split(";") if o]
        io = i.split(";;"); mo = m.split(";;")
        steps += len(ops)
        for o, ob in zip(ops, io):
            k = o.split(" ")[0]; opkinds[k] = opkinds.get(k, 0) + 1
            r = ob.split("|")[0]
            r = re.sub(r"\(.*", "", r); r = re.sub(r"^(n|pkg)[0-9.]+$", r"\1", r)
            outcomes[r] = outcomes.get(r, 0) + 1
        # correspondence: every step, result + full dump (encode result class is not predicted by this model)
        for k, (a, b) in enumerate(zip(io, mo)):
            a2 = ENC_RE.sub("enc|", a); b2 = ENC_RE.sub("enc|", b)
            a2 = re.sub(r"^PANIC\([^|]*\)", "PANIC", a2)
            a2 = re.sub(r"V\[[^\]]*\]$", "", a2)
            if a2 != b2:
                disagreements.append((c, k, a, b)); break
        okp, why, k = spec_on_impl(ops, io, uni)
        if not okp:
            prop_fail.append((c, k, why, io[k] if 0 <= k < len(io) else ""))
        # non-trivial: a removal (rm/unreg) of something that had dependants, arguments or exports
        sig = []
        for j, o in enumerate(ops):
            k0 = o.split(" ")[0]
            if k0 in ("rm", "unreg") and j > 0 and "|" in io[j - 1] and io[j].startswith("ok"):
                before = io[j - 1].split("|", 1)[1]; after = io[j].split("|", 1)[1]
                nb = before.count(":S:") + before.count(":A:") + before.count(":D:") + before.count(":I:")
                na = after.count(":S:") + after.count(":A:") + after.count(":D:") + after.count(":I:")
                if nb - na >= 2 or ("A[]" not in before and "A[]" in after):
                    sig.append((k0, nb - na))
        if sig:
            shapes.add(tuple(o.split(" ")[0] for o in ops) + tuple(sig))
    known = vlib.load_known(PID)
    res.coverage.update(dict(
        correspondence_cases=nh, steps_compared=steps, disagreements=len(disagreements),
        spec_failures_on_impl=len(prop_fail), evaluations=nh, distinct_nontrivial=len(shapes),
        op_distribution=opkinds, outcome_distribution=outcomes,
        rule="histories: regression corpus, every sequence of 2 (quick) / 3 (thorough) operations over the live-identifier "
             "alphabet after 4 fixed prefixes, and random adaptive histories (3..40 / 3..120 ops) drawn from identifiers live in the "
             "implementation; after EVERY step the return value and a full dump (nodes, arguments, alias sources, import "
             "listing, exports, packages, satisfied sets, export order, adjacency order) are compared with the model. "
             "non-trivial = distinct op-kind shapes in which a removal/unregistration deleted >= 2 nodes or cleared an argument",
        samples=[c for c, _, _ in zip(cases[-3:], [0] * 3, [0] * 3)],
        trusted_base=vlib.TRUSTED_COMMON + [
            "model Graph.v is hand-written; petgraph StableGraph slot reuse / adjacency order and indexmap swap_remove are re-modelled",
            "type-level facts (package worlds, instance exports, type dependencies, name validity, subtype table) are per-case oracles "
            "computed by the real implementation",
            "guarded hook CompositionGraph::verif_dump/verif_invariants (add-only, cfg(wac_verif))"]))
    res.assumptions = ["resource-free universe of 4 packages, 6 definable types, 6 importable kinds, 12 names",
                       "encode outcome class is not predicted by this model (C01/C02/C03); only 'no panic / no validation failure' is required here"]
    for c, k, why, ob in prop_fail[:5]:
        res.violation(dict(kind="property-fails-on-implementation", what=why, case=c, step=k, observation=ob[:2000], cases=[c]))
    searched = 0
    if not prop_fail and (disagreements or res.proof_broken) and not replay:
        # search: extend the disagreeing prefixes (or, for a broken proof only, the corpus) by every 1- and 2-op continuation
        # and evaluate the property predicate on the implementation
        pref = []
        for c, k, a, b in disagreements[:6]:
            ops = [o for o in c[2:].split(";") if o]
            pref.append("H " + ";".join(ops[:k + 1]))
        if not pref:
            pref = [l for l in open(corpus).read().split("\n") if l.startswith("H ")][:4]
        pf = os.path.join(rd, "search_prefixes.txt"); open(pf, "w").write("\n".join(dict.fromkeys(pref)) + "\n")
        sc, si = os.path.join(rd, "search.cases.txt"), os.path.join(rd, "search.impl.txt")
        rc, out = vlib.sh(f"{vlib.hbin('c06')} extend {seed} {sc} {si} {pf}", timeout=3000)
        if rc == 0:
            for c, i in zip(open(sc).read().split("\n")[:-1], open(si).read().split("\n")[:-1]):
                if not c.startswith("H "):
                    continue
                searched += 1
                ops = [o for o in c[2:].split(";") if o]
                io = i.split(";;")
                okp, why, k = spec_on_impl(ops, io, uni)
                if not okp:
                    prop_fail.append((c, k, why, io[k] if 0 <= k < len(io) else "")); break
        for c, k, why, ob in prop_fail[:1]:
            res.violation(dict(kind="property-fails-on-implementation", found_by="search from a broken correspondence/proof",
                               what=why, case=c, step=k, observation=ob[:2000], cases=[c]))
    res.coverage["search_cases"] = searched
    if not prop_fail:
        if disagreements:
            c, k, a, b = disagreements[0]
            res.violation(dict(kind="correspondence-broken", what="model and implementation differ at step %d; the consistency "
                               "predicate still holds on every implementation observation" % k, correspondence="Graph.v vs graph.rs",
                               case=c, cases=[c], implementation=a[:2000], model=b[:2000], n=len(disagreements)), no_input=True)
        if res.proof_broken:
            res.violation(res.proof_broken, no_input=True)
