"""C05: WIT declarations in WAC mean what WIT means (superset claim).  PARTIAL by design."""
import json
import os
import re
import subprocess
import vlib

PID = "C05"

CLAIM = dict(
    text="PARTIAL. Machine-checked Coq theorems relate an executable model of the declaration half of the WAC resolver "
         "(resolution.rs: type statements, interfaces, worlds, use with renames, include-with, all type declarations, "
         "resources and their [constructor]/[method]/[static] naming with implicit self and own result, func types, "
         "borrow-in-result rejection) to an environment-passing denotation of the shared WIT/WAC subset written from the "
         "WIT specification: the unfolding of every resolved declaration is its denotation. Equivalence with the reference "
         "WIT toolchain (wit-parser/wit-component, Rust code) cannot be a theorem; it is checked on every run by "
         "correspondence: generated WIT packages are rendered as WIT and as WAC, both encodings are loaded into one type "
         "collection and compared with the validator-side subtype relations (wac-types SubtypeChecker per interface and "
         "per explicit world item in both directions, and wasmparser's own component subtyping with both binaries nested in "
         "one component). The encoder (encoding.rs) is covered by that correspondence only, not by theorems.",
    design_ref="DESIGN.md §5 C05, §10",
    note="Trusted: Coq kernel; extraction; OCaml driver; Rust harness (generator, renderers, comparison); wit-parser, "
         "wit-component, wasmparser, wasm-encoder as the reference; the C12 parser model is reused to read the same source "
         "text. Resources are denoted by their definition name in the trees (identity behind `use` is stated on arena slots).",
    technique="Coq proof (simulation between arena-building resolver model and tree denotation) + extracted-model "
              "correspondence + differential comparison against the reference toolchain through two subtype checkers")

# Findings on the unchanged tree (recorded in /verif/known-findings.json by the main session; this local list is only the
# fallback when an entry is missing there).  C05-include-with-first-side-only was FIXED in /repo (0d98072): it suppresses
# nothing; its witness is the regression case `c-include-with-both-sides` in corpus/C05/cases.txt and must pass.
# A failing case is attributed to an entry only if BOTH the failure shape (regex on the verdict) and the input shape
# (feature computed by the harness from the parsed document and the resolved types) match.
PROPOSED_KNOWN = [
    dict(property="C05", id="C05-encode-dup-import", status="known", signature="encode-dup-import",
         witness="corpus/C05/known.txt#k-dup-import",
         text="world that imports interface I explicitly and also depends on I through `use` (own use, or use inside an "
              "earlier imported interface): TypeEncoder::component imports the dependency first and then the explicit "
              "import again -> encode fails validation (`import name conflicts with previous name`); valid WIT"),
    dict(property="C05", id="C05-encoder-resource-name-key", status="known", signature="encoder-resource-name-key",
         witness="corpus/C05/known.txt#k-res-key",
         text="TypeEncoder keys `state.current.resources` by the resource's definition NAME: two externs of one body "
              "that are the same resource under two names, or different resources with the same definition name "
              "(`use a.{r}; use b.{r as q}`), are conflated: export dropped / wrong handle type / panic `no entry found "
              "for key` / invalid alias"),
    dict(property="C05", id="C05-include-drops-uses", status="known", signature="include-drops-uses",
         witness="corpus/C05/known.txt#k-include-use",
         text="`include w` copies the imports/exports of w but not its `uses`: types that w obtained by `use` become "
              "fresh local types in the including world (a used resource becomes a new `sub resource`), the interface "
              "is no longer imported; WIT keeps the alias to the interface's type"),
    dict(property="C05", id="C05-encoder-alias-name-leak", status="known", signature="encoder-alias-name-leak",
         witness="corpus/C05/known.txt#k-alias-leak",
         text="TypeEncoder::instance calls use_aliases on the ENCLOSING scope: the local names of the `use`s of an imported "
              "interface stay in `type_aliases` of the world, and a later world-level type with the same name is encoded as "
              "an alias of the interface's used type (`import ia2; type t = tuple<..>` with ia2 `use a1.{t}` imports `t` as a1's t); "
              "use_aliases also CLEARS the map, so a resource the world itself obtained by `use` and imports after any instance "
              "import loses its alias: it is encoded as a fresh `(sub resource)` (silently a different type; only the "
              "validator-level comparison sees it) or, for a resource alias, encode panics `should have owner`"),
    dict(property="C05", id="C05-encoder-alias-of-used-type", status="known", signature="encoder-alias-of-used-type",
         witness="corpus/C05/known.txt#k-alias-used",
         text="`type r = t` where `t` was obtained by `use` and t's definition mentions another named type: the alias is "
              "re-encoded structurally, inlining the inner named type anonymously -> encode fails validation "
              "(`instance not valid to be used as export`)"),
    dict(property="C05", id="C05-include-with-resource-members", status="known", signature="include-with-resource-members",
         witness="corpus/C05/known.txt#k-include-res",
         text="`include w with { r as q }` where r is a resource declared in world w with a constructor/method/static: the "
              "type import is renamed to q but its member functions keep the names `[constructor]r`, `[method]r.m`: encode "
              "fails validation (`function does not match expected resource name`); the reference toolchain accepts the text"),
]

RULES = [
    # (signature, required feature, regexes on the failing verdict)
    ("encode-dup-import", "dup-import", [r"wac encode fails: ValidationFailure.*import name `[^`]*` conflicts with previous name"]),
    ("encoder-resource-name-key", "res-name-collision", [
        r"wac encode fails: ValidationFailure.*instance \d+ has no export named",
        r"wac encode fails: ValidationFailure.*type index .* is not a resource type",
        r"wac encode fails: ValidationFailure",
        r"wac encode fails: PANIC in encode: encoding\.rs:\d+ no entry found for key",
        r"instance is missing expected resource export",
        r"REF-DIFF (interface|world) .*expected resource",
        r"WP-DIFF (interface|world)",
        r"REF-DIFF (interface|world)"]),
    ("encoder-resource-name-key", "res-alias-of-used", [
        r"wac encode fails: PANIC in encode: encoding\.rs:\d+ no entry found for key"]),
    ("include-drops-uses", "include-of-use", [
        r"REF-DIFF world \S+ export .*expected resource",
        r"REF-DIFF world .* import .*expected resource",
        r"REF-DIFF world .* import .*",
        r"wac encode fails: ValidationFailure.*type not valid to be used as import",
        r"wac encode fails: PANIC in encode: encoding\.rs:\d+ should have owner",
        r"wac encode fails: PANIC in encode: encoding\.rs:\d+ no entry found for key",
        r"WP-DIFF world .*reference<=wac false"]),
    ("encoder-alias-name-leak", "alias-name-leak", [
        r"REF-DIFF world \S+ (implicit )?import \S+: .*expected .*, found", r"REF-DIFF world \S+ export .*expected ",
        r"WP-DIFF world", r"wac encode fails: PANIC in encode: encoding\.rs:\d+ should have owner"]),
    ("encoder-alias-of-used-type", "alias-of-used-type", [
        r"wac encode fails: ValidationFailure.*(instance not valid to be used as export|type not valid to be used as import|"
        r"instance not valid to be used as import|component not valid to be used as export)",
        r"wac encode fails: PANIC in encode: encoding\.rs:\d+ no entry found for key"]),
    ("include-with-resource-members", "include-with-renames-resource", [
        r"wac encode fails: ValidationFailure.*function does not match expected resource name"]),
]


def classify(verdict, feats):
    for sig, feat, pats in RULES:
        if feat in feats and any(re.search(p, verdict) for p in pats):
            return sig
    return None


def norm_order(s):
    """sort the `;`-separated items of every `{...}` group (instance/component item lists), recursively.
    Used only for cases with a dependency package: the decoder lists the exports of a decoded interface in the
    order of the reference toolchain's binary (types before functions), not in source order; the order of
    instance exports carries no meaning."""
    out, i = [], 0
    while i < len(s):
        if s[i] == "{":
            d, j = 1, i + 1
            while d:
                d += {"{": 1, "}": -1}.get(s[j], 0); j += 1
            inner = norm_order(s[i + 1:j - 1])
            items, cur, dd = [], [], 0
            for ch in inner:
                if ch in "{(":
                    dd += 1
                elif ch in "})":
                    dd -= 1
                if ch == ";" and dd == 0:
                    items.append("".join(cur)); cur = []
                else:
                    cur.append(ch)
            items.append("".join(cur))
            out.append("{" + ";".join(sorted(items)) + "}")
            i = j
        else:
            out.append(s[i]); i += 1
    return "".join(out)


def dec(s):
    return "" if s in ("-", "") else "".join(chr(int(x)) for x in s.split(","))


def run_driver(cases_p, model_p, jobs=12):
    lines = open(cases_p).read().split("\n")[:-1]
    n = max(1, min(jobs, len(lines)))
    chunks = [lines[i::n] for i in range(n)]
    procs = []
    for i, ch in enumerate(chunks):
        inp = cases_p + ".%d" % i
        open(inp, "w").write("".join("\t".join(l.split("\t")[:3] + l.split("\t")[5:6]) + "\n" for l in ch))
        procs.append((i, subprocess.Popen(f"{os.path.join(vlib.BUILD, 'c05', 'driver')} < {inp} > {model_p}.{i}", shell=True)))
    for _, p in procs:
        p.wait()
    outs = [open(model_p + ".%d" % i).read().split("\n")[:-1] for i in range(n)]
    res = [None] * len(lines)
    for i in range(n):
        for j, o in enumerate(outs[i]):
            res[i + j * n] = o
    open(model_p, "w").write("".join((r or "MISSING") + "\n" for r in res))
    return res


def run(res, tier, seed, replay):
    pr = vlib.proof_stage(res, PID)
    ok, log = vlib.ensure_extraction("c05", "theories/extract/ExtractC05.v")
    if not ok:
        res.violation(dict(kind="machinery-error", what="extraction/driver build failed", log=log[-3000:]), no_input=True)
        return
    ok, log = vlib.cargo_build(["c05"])
    if not ok:
        res.violation(dict(kind="broken-tie", what="harness does not build against the repository", log=log[-3000:]), no_input=True)
        return
    rd = os.path.join(vlib.BUILD, "c05", "run"); os.makedirs(rd, exist_ok=True)
    cases_p, impl_p, model_p = (os.path.join(rd, x) for x in ("cases.txt", "impl.txt", "model.txt"))
    hb = vlib.hbin("c05")
    if replay:
        rp = json.load(open(replay))
        rin = os.path.join(rd, "replay_in.txt")
        open(rin, "w").write("\n".join(rp.get("cases", [rp.get("case", "")])) + "\n")
        rc, out = vlib.sh(f"{hb} {tier} {seed} {cases_p} {impl_p} {rin}", timeout=3000)
    else:
        rc, out = vlib.sh(f"{hb} {tier} {seed} {cases_p} {impl_p}", timeout=3000)
    if rc != 0:
        res.violation(dict(kind="machinery-error", what="harness run failed", log=out[-3000:]), no_input=True)
        return
    # corpus (regression cases and witnesses of known findings) first
    ncorpus = 0
    if not replay:
        cdir = os.path.join(vlib.ROOT, "corpus", PID)
        corp = []
        for fn in ("known.txt", "cases.txt"):
            p = os.path.join(cdir, fn)
            if os.path.exists(p):
                corp += [l for l in open(p).read().split("\n") if l.strip() and not l.startswith("#")]
        if corp:
            cin = os.path.join(rd, "corpus_in.txt"); open(cin, "w").write("\n".join(corp) + "\n")
            rc, out = vlib.sh(f"{hb} {tier} {seed} {cases_p}.c {impl_p}.c {cin}", timeout=3000)
            if rc != 0:
                res.violation(dict(kind="machinery-error", what="harness run on the corpus failed", log=out[-3000:]), no_input=True)
                return
            for a, b in ((cases_p, cases_p + ".c"), (impl_p, impl_p + ".c")):
                body = open(b).read() + open(a).read(); open(a, "w").write(body)
            ncorpus = len(corp)
    model = run_driver(cases_p, model_p, jobs=14)
    cases = open(cases_p).read().split("\n")[:-1]
    impl = open(impl_p).read().split("\n")[:-1]
    assert len(cases) == len(impl) == len(model), (len(cases), len(impl), len(model))

    # Which tree is this?  Decls.v follows the resolver WITH hooks/fix-c14-resolver-duplicate-names.patch (a type declared after a
    # function / import of the same name is a DuplicateInterfaceExport / DuplicateWorldItem error).  Without the patch the same
    # inputs panic (`assert!(prev.is_none(), "duplicate type in scope")`); that outcome is accepted for exactly those inputs
    # (model says one of the two error classes AND the panic message is one of the two asserts) only on such a tree.
    try:
        rsrc = open(os.path.join(vlib.REPO, "crates", "wac-parser", "src", "resolution.rs")).read()
    except OSError:
        rsrc = ""
    prefix_tree = '"duplicate type in scope"' in rsrc
    known = {e["signature"]: e for e in vlib.load_known(PID) if e.get("status") == "known"}
    for e in PROPOSED_KNOWN:
        known.setdefault(e["signature"], e)
    known_hits = {}
    disagreements, spec_fail, ref_fail = [], [], []
    stats = dict(pkg=0, neg=0, ref_ok=0, ref_skip=0, wp_ok=0, wp_skip=0, interfaces=0, worlds=0, impl_ok=0, impl_err=0,
                 impl_panic=0)
    errclasses = {}
    nontrivial = set()
    featcount = {}
    for c, i, m in zip(cases, impl, model):
        cf = c.split("\t"); f = i.split("\t"); mf = m.split("\t")
        kind, cid = cf[0], cf[1]
        stats["pkg" if kind == "pkg" else "neg"] += 1
        obs = f[0]; refv = f[1] if len(f) > 1 else "-"; wpv = f[2] if len(f) > 2 else "-"; feats = (f[3] if len(f) > 3 else "-").split(",")
        for x in feats:
            featcount[x] = featcount.get(x, 0) + 1
        mobs = mf[0]; den = mf[1] if len(mf) > 1 else "?"
        if len(cf) > 5 and cf[5] not in ("-", ""):
            stats["with_dependency_package"] = stats.get("with_dependency_package", 0) + 1
            # trees only (the uses/ids part follows ` ## ` and has no braces)
            obs, mobs, den = norm_order(obs), norm_order(mobs), norm_order(den)
        # (a) correspondence model <-> implementation.  A Rust panic carries its message; the model only its site.
        o1 = "PANIC" if obs.startswith("PANIC") else obs
        m1 = "PANIC" if mobs.startswith("PANIC") else mobs
        if (prefix_tree and obs.startswith("PANIC") and mobs in ("ERR DuplicateInterfaceExport", "ERR DuplicateWorldItem")
                and re.search(r"resolution\.rs:\d+ (duplicate type in scope|assertion failed: prev\.is_none\(\))", obs)):
            # known finding C14 resolver-dup-func-then-type: before hooks/fix-c14-resolver-duplicate-names.patch the resolver
            # panics where the repaired code (which Decls.v follows) returns the duplicate-name diagnostic
            stats["c14_pre_fix_resolver_panics"] = stats.get("c14_pre_fix_resolver_panics", 0) + 1
        elif mobs == "UNMODELLED":
            stats["unmodelled"] = stats.get("unmodelled", 0) + 1      # outside the declaration half (imports, lets, exports, targets)
        elif o1 != m1:
            disagreements.append((c, obs, mobs))
        # (b) the specification predicate on the implementation's own observation
        if obs.startswith("OK "):
            stats["impl_ok"] += 1
            trees = obs[3:].split(" ## ")[0]
            if den != "OK " + trees:
                sig = classify("SPEC-DIFF", feats)
                if sig and sig in known:
                    known_hits.setdefault(sig, []).append((cid, "resolved world differs from the WIT denotation"))
                else:
                    spec_fail.append((c, obs, den, "the resolved declarations do not unfold to their WIT denotation"))
        elif obs.startswith("ERR ") or obs.startswith("PANIC"):
            stats["impl_err" if obs.startswith("ERR") else "impl_panic"] += 1
            k = obs.split(" ")[1] if obs.startswith("ERR") else "PANIC"
            errclasses[k] = errclasses.get(k, 0) + 1
            if den.startswith("OK "):
                spec_fail.append((c, obs, den, "a declaration with a WIT denotation is rejected (superset claim)"))
        # (c) reference comparison
        if kind == "pkg":
            bad = []
            if refv.startswith("REF-OK"):
                stats["ref_ok"] += 1
                _, ni, nw = refv.split(" ")[:3]; stats["interfaces"] += int(ni); stats["worlds"] += int(nw)
            elif refv.startswith("REF-SKIP"):
                stats["ref_skip"] += 1
            else:
                bad.append(refv)
            if wpv.startswith("WP-OK"):
                stats["wp_ok"] += 1
            elif wpv.startswith("WP-SKIP"):
                stats["wp_skip"] += 1
            else:
                bad.append(wpv)
            for v in bad:
                # wac-types' SubtypeChecker compares resources by the NAME the decoder gave them (the first extern name it met,
                # which depends on the order of imports); when the validator's structural check accepts, a pure resource-name
                # mismatch is an artefact of that comparison, not a difference of the types
                if re.search(r"REF-DIFF .*expected resource `[^`]*`, found resource `[^`]*`$", v) and wpv.startswith("WP-OK"):
                    stats["resource_name_artefacts"] = stats.get("resource_name_artefacts", 0) + 1
                    continue
                sig = classify(v, feats)
                if sig and sig in known:
                    known_hits.setdefault(sig, []).append((cid, v))
                else:
                    ref_fail.append((c, obs, v, feats))
            if not bad and refv.startswith("REF-OK") and wpv.startswith("WP-OK"):
                if " use " in dec(cf[2]) or "resource" in dec(cf[2]):
                    nontrivial.add(cf[2])
        elif obs.startswith("ERR") or obs.startswith("PANIC"):
            nontrivial.add(cf[2])

    res.coverage.update(dict(
        correspondence_cases=len(cases), corpus_cases=ncorpus, evaluations=len(cases), disagreements=len(disagreements),
        spec_failures_on_impl=len(spec_fail), reference_failures=len(ref_fail),
        known_finding_hits={k: len(v) for k, v in known_hits.items()}, stats=stats,
        resolver_tree="without fix-c14-resolver-duplicate-names (panics tolerated for those inputs)" if prefix_tree else "with fix-c14-resolver-duplicate-names", error_classes=errclasses,
        features=featcount, distinct_nontrivial=len(nontrivial),
        rule="cases: generated packages (<=6 interfaces, <=3 worlds, value-type constructors, resources with constructor/"
             "method/static, own/borrow, use chains and diamonds with renames, versioned package ids, worlds with named func / "
             "inline interface / interface-path imports and exports, include with renames) rendered as WIT and as WAC, plus "
             "WAC-only negative documents (one per error class and panic site, and random single-line mutations). "
             "non-trivial = a package with `use` or a resource whose encodings are mutually subtype under BOTH checkers, or a "
             "negative document rejected with the class the model predicts",
        samples=[dec(c.split("\t")[2])[:400] for c in cases[ncorpus:ncorpus + 2]] + [dec(c.split("\t")[2])[:200] for c in cases[-2:]],
        trusted_base=vlib.TRUSTED_COMMON + [
            "model Decls.v (declaration half of resolution.rs) and denotation WitDenote.v are hand-written; tied to the code by this correspondence",
            "C12 front-end models (Token/Lexer/Parser.v) read the same WAC source text on the model side",
            "reference toolchain: wit-parser 0.247 (Resolve::push_str), wit-component 0.247 (encode), wasmparser 0.247 validator and "
            "its component subtyping, wasm-encoder (nesting) -- oracles, not verified",
            "wac-types Package::from_bytes + SubtypeChecker (compares resources by definition name) used as first comparison",
            "crates/wac-graph/src/encoding.rs (TypeEncoder) is not modelled: covered by the differential comparison only",
            "external packages (`use ns:pkg/iface`) are an oracle table in the model and are not exercised by the generator"]))
    res.assumptions = ["resources are denoted by the name of their defining declaration (Types.unfold)",
                       "world comparison is on explicit imports/exports; implicit interface imports may be trimmed to types by wac",
                       "documents consist of type statements only (imports/lets/exports are other properties)"]
    # known findings: print only if observed in this run (corpus witnesses are replayed on every run)
    for sig, hits in sorted(known_hits.items()):
        res.known.append(f"signature={sig} id={known[sig]['id']} cases={len(hits)} e.g. {hits[0][0]}: {hits[0][1][:160]}")

    for c, obs, v, feats in ref_fail[:5]:
        cf = c.split("\t")
        res.violation(dict(kind="property-fails-on-implementation",
                           what="WAC encoding of WIT declarations is not equivalent to the reference WIT toolchain's encoding",
                           verdict=v, features=feats, wit=dec(cf[3]), wac=dec(cf[2]), case=c, cases=[c]))
    for c, obs, den, why in spec_fail[:5]:
        cf = c.split("\t")
        res.violation(dict(kind="property-fails-on-implementation", what=why, wac=dec(cf[2]), implementation=obs[:3000],
                           denotation=den[:3000], case=c, cases=[c]))
    if not ref_fail and not spec_fail:
        if disagreements:
            c, obs, mobs = disagreements[0]
            res.violation(dict(kind="correspondence-broken", what="model Decls.v and resolution.rs differ; the specification "
                               "predicate still holds on every implementation observation of this run",
                               correspondence="Decls.v vs crates/wac-parser/src/resolution.rs", wac=dec(c.split("\t")[2]),
                               implementation=obs[:3000], model=mobs[:3000], n=len(disagreements), case=c, cases=[c]), no_input=True)
        if res.proof_broken:
            res.violation(res.proof_broken, no_input=True)
