"""C09: merged import requirements satisfy every contributor, order-independently."""
import json
import os
import re
import vlib

PID = "C09"

CLAIM = dict(
    text="Machine-checked Coq theorems (17, no axioms) over an executable model of TypeAggregator (aggregator.rs: aggregate, "
         "merge_*, remap_* with the remap table and the interface table, used types, owner imports, canonical-name "
         "bookkeeping) on top of the C07 checker model: for histories without owned resources every contributed name has "
         "ONE canonical name per semver track - the highest contributed version, equal to the executable specification "
         "spec_canonical - canonical is idempotent, redirects are total, other tracks are untouched, and two successful "
         "orders agree on it; for flat instance requirements (function / value / value-type exports, interfaces named by "
         "their import name) the merged import offers every export of every contributor with the contributor's tree "
         "(merged <: required in the declarative relation), a merge step yields the first-seen union of the export names, "
         "re-aggregation changes nothing observable, a conflict makes the history fail, and two successful orders give the "
         "same trees up to export order. The general statements are refuted by vm_compute witnesses that are replayed on "
         "the real aggregator and SubtypeChecker on every run (component imports, owned resources, one interface under two "
         "import names). The model is tied to the code by a correspondence "
         "over multisets of 2-5 contributors, each built in its own Types collection, under ALL permutations of the "
         "contributor order; the specification predicates are evaluated on the implementation's own observations.",
    design_ref="DESIGN.md §5 C09, Appendix A.5, Appendix B",
    note="Six defects of the real aggregator were found; three are repaired in the repository (commits 874f221, 0bf540d, and "
         "the per-mention copy of anonymous interfaces; the model follows the repaired code and their witnesses are regression "
         "cases), three remain known findings (see known-findings.json). Not proved: 'failure only on conflict' and order independence of SUCCESS even "
         "for flat requirements (needs completeness of the checker at the given fuel and panic-freedom of the copy); `use`d "
         "types and resources are covered by the model, the correspondence and the executable specification only. "
         "Trusted: Coq kernel; extraction; OCaml driver; Rust harness; the hand-written models Types.v/Checker.v/"
         "Aggregator.v (validated by correspondence, not derived from the Rust source).",
    technique="Coq proof (invariants over aggregation histories; induction on fuel for the remap/merge recursion; fuel "
              "monotonicity of accepting checker verdicts) + extracted-model correspondence under all permutations + "
              "executable specification evaluated on implementation observations")

# Findings of this check.  Recorded in /verif/known-findings.json by the main session: `nested-instance-not-united`,
# `remapped-defined-onto-primitive-panic` and `nested-interface-with-two-parents` as "fixed" (repository commits 0bf540d,
# 874f221 and the per-mention copy of anonymous interfaces: they suppress nothing, their witnesses are regression cases in
# corpus/C09/cases.txt), the three below as "known".  The local copy keeps the check
# self-contained (signature, witness); an entry marked "fixed" in known-findings.json is dropped at run time.
# Signatures are computed by `signatures()`.
PROPOSED_KNOWN = [
    dict(property="C09", id="component-imports-united", status="known",
         signature="merge_world: imports of two component requirements are merged by UNION (a new import of the contributor "
                   "is inserted), which yields a supertype, not a subtype, of the contributors",
         witness="agg\t3\tF 0 0 - ; W - 0 1 i f:0 0\tW - 0 0 0\tF 0 1 x p0 - ; W - 0 1 j f:0 0\t3\tfoo 0 c:0\tfoo 1 c:0\tfoo 2 c:0",
         text="component-typed requirements with different imports merge to a component type that no contributor's "
              "requirement is satisfied by (SubtypeChecker rejects merged <: every contributor)"),
    dict(property="C09", id="owner-import-bypasses-canonical-name", status="known",
         signature="remap_resource inserts the owning interface into `imports` under the interface's own id when that id is "
                   "not an import key, without looking at the semver track / name_redirects",
         witness="agg\t4\tR r - ; I dep:p/types@0.2.0 0 1 r tr:0\tR r - ; I dep:p/types@0.2.1 0 1 r tr:0\tR r - ; I dep:p/types@0.2.0 0 1 r tr:0 ; R r r0@i0 ; F 0 0 o1 ; I my:p/i@1.0.0 1 r i0 - 2 r tr:1 mk f:0\tR r - ; I dep:p/types@0.2.3 0 1 r tr:0\t4\tdep:p/types@0.2.0 0 i:0\tdep:p/types@0.2.1 1 i:0\tmy:p/i@1.0.0 2 i:1\tdep:p/types@0.2.3 3 i:0",
         text="a resource alias whose owner interface was superseded by a higher version re-imports the owner under its old "
              "name: two imports on one semver track, a later higher version retargets only one of them; re-aggregating "
              "the same requirements changes the result"),
    dict(property="C09", id="interface-id-under-two-import-names", status="known",
         signature="remap_interface unifies interfaces by identifier and by foreign identity (`remapped`): an interface whose "
                   "identifier is not on the track of its import name (or one foreign interface contributed under two import "
                   "names of different tracks, or the identifier of a nested instance export that also occurs under an import "
                   "of another track), while the identifier occurs elsewhere in the multiset, makes two imports share ONE "
                   "interface - but only when the interface is reached through remap_interface (new at that moment), not "
                   "when it is merged into an existing export",
         witness="agg\t3\tF 0 0 - ; I x:y/z@2.0.0 0 1 f f:0\tF 0 0 - ; I x:y/z@2.0.0 0 1 g f:0\tF 0 0 - ; I - 0 1 h f:0\t3\tx:y/z@2.0.0 0 i:0\tbar 1 i:0\tbar 2 i:0",
         text="an interface whose identifier equals that of an already aggregated interface, contributed under another import "
              "name, is merged into the existing interface and both import names then denote the same interface; if the other "
              "name was contributed first they stay separate: the name->tree map depends on the contributor order (every "
              "contributor is still satisfied)"),
]


# ------------------------------------------------------------------------------------------------ tree text
def split0(s, sep):
    """split at separators that are not nested inside brackets"""
    out, depth, cur = [], 0, []
    for ch in s:
        if ch in "{(<[":
            depth += 1
        elif ch in "})>]":
            depth -= 1
        if ch == sep and depth == 0:
            out.append("".join(cur)); cur = []
        else:
            cur.append(ch)
    out.append("".join(cur))
    return out


def inst_entries(t):
    """[(name, subtree)] of an instance tree, else None"""
    for p in ("inst{", "type-inst{"):
        if t.startswith(p) and t.endswith("}"):
            body = t[len(p):-1]
            if body == "":
                return []
            return [tuple(e.split("=", 1)) for e in split0(body, ",")]
    return None


def norm(t):
    """sort the exports of every instance level (export order is not part of a requirement)"""
    es = inst_entries(t)
    if es is None:
        m = re.match(r"^(type-comp|comp)\{(.*)\}$", t)
        if m:
            parts = split0(m.group(2), "/")
            if len(parts) == 2:
                def side(x):
                    if x == "":
                        return ""
                    return ",".join(sorted(n + "=" + norm(v) for n, v in (e.split("=", 1) for e in split0(x, ","))))
                return m.group(1) + "{" + side(parts[0]) + "/" + side(parts[1]) + "}"
        return t
    head = t[:t.index("{")]
    return head + "{" + ",".join(sorted(n + "=" + norm(v) for n, v in es)) + "}"


def parse_imports(s):
    if s == "":
        return []
    return [tuple(e.split("=", 1)) for e in s.split(";")]


def has_kind(t, prefix):
    return prefix in t


# ------------------------------------------------------------------------------------------------ signatures
def nested_instance_sig(names, reqs, spec_canon, any_pair=False):
    """two contributors of one track (of any two tracks when an interface is shared across import names) share an
    export that is an instance on both sides, with different trees"""
    for a in range(len(reqs)):
        for b in range(a + 1, len(reqs)):
            if spec_canon[a] != spec_canon[b] and not any_pair:
                continue
            if differing_nested(reqs[a], reqs[b], 0):
                return True
    return False


def differing_nested(ta, tb, depth):
    ea, eb = inst_entries(ta), inst_entries(tb)
    if ea is None or eb is None:
        return False
    if depth > 0 and norm(ta) != norm(tb):
        return True
    db = dict(eb)
    return any(n in db and differing_nested(v, db[n], depth + 1) for n, v in ea)


def component_sig(names, reqs, spec_canon):
    for a in range(len(reqs)):
        for b in range(a + 1, len(reqs)):
            if spec_canon[a] == spec_canon[b] and "comp{" in reqs[a] and "comp{" in reqs[b] and norm(reqs[a]) != norm(reqs[b]):
                return True
    return False


def alias_prim_sig(case_fields):
    """some contributor exports  name tv:dN  with  dN = `D alias pK`, another exports the same name as  tv:pK"""
    k = int(case_fields[1]); progs = case_fields[2:2 + k]
    m = int(case_fields[2 + k]); contribs = [c.split(" ") for c in case_fields[3 + k:3 + k + m]]
    exports = []                                     # per contributor: {export: kind text resolved one alias step}
    for name, ti, kd in contribs:
        defs = progs[int(ti)].split(" ; ")
        arenas = {}
        for d in defs:
            arenas.setdefault(d[0], []).append(d)
        if not kd.startswith("i:"):
            exports.append({}); continue
        toks = arenas["I"][int(kd[2:])].split(" ")
        nu = int(toks[2]); p = 3 + 3 * nu
        ne = int(toks[p]); e = {}
        for j in range(ne):
            en, ek = toks[p + 1 + 2 * j], toks[p + 2 + 2 * j]
            shape = ek
            for pre in ("tv:", "v:"):
                if ek.startswith(pre + "d"):
                    dd = arenas["D"][int(ek[len(pre) + 1:])].split(" ")
                    shape = pre + "alias(" + dd[2] + ")" if dd[1] == "alias" else pre + "defined"
            e[en] = shape
        exports.append(e)
    for a in range(len(exports)):
        for b in range(len(exports)):
            for en, sa in exports[a].items():
                sb = exports[b].get(en)
                for pre in ("tv:", "v:"):
                    if sb and sa.startswith(pre + "alias(p") and sb == pre + sa[len(pre) + 6:-1]:
                        return True
    return False


def compat_names(a, b):
    return a == b or (track_of(a) is not None and track_of(a) == track_of(b))


def contributor_ifaces(case_fields):
    """per contributor: (import name, top-level interface id or None, ids of `use`d interfaces, foreign identity,
    ids of the interfaces of nested instance exports at any depth)"""
    k = int(case_fields[1]); progs = case_fields[2:2 + k]
    m = int(case_fields[2 + k]); out = []
    for c in case_fields[3 + k:3 + k + m]:
        name, ti, kd = c.split(" ")
        iid, used, nested = None, [], []
        if kd.startswith("i:"):
            ifs = [d.split(" ") for d in progs[int(ti)].split(" ; ") if d.startswith("I ")]
            me = ifs[int(kd[2:])]
            iid = None if me[1] == "-" else me[1]
            for j in range(int(me[2])):
                dep = ifs[int(me[4 + 3 * j][1:])]
                if dep[1] != "-":
                    used.append(dep[1])

            def walk(x, depth):
                nu = int(x[2]); p = 3 + 3 * nu
                for j in range(int(x[p])):
                    ek = x[p + 2 + 2 * j]
                    if ek.startswith("i:") and depth < 6:
                        sub = ifs[int(ek[2:])]
                        if sub[1] != "-":
                            nested.append(sub[1])
                        walk(sub, depth + 1)
            walk(me, 0)
        out.append((name, iid, used, (ti, kd), nested))
    return out


def shared_id_sig(case_fields, spec_canon):
    """one interface reachable under two import names that are not on one track: the same foreign interface of one
    collection contributed under two such names, or an interface whose identifier is not on the track of its import
    name while that identifier (or a compatible one) occurs elsewhere in the multiset (as identifier, as a `use`d
    interface, or as an import name), or the identifier of a NESTED instance export of one contributor that occurs
    (nested, used, top-level or as import name) in a contributor of another track"""
    cs = contributor_ifaces(case_fields)
    for a in range(len(cs)):
        for b in range(len(cs)):
            if a == b:
                continue
            na, ia, ua, fa, xa = cs[a]; nb, ib, ub, fb, xb = cs[b]
            if fa == fb and fa[1].startswith("i:") and spec_canon[a] != spec_canon[b]:
                return True
            if ia and not compat_names(ia, na):
                if any(x and compat_names(ia, x) for x in [ib, nb] + ub + xb):
                    return True
            if spec_canon[a] != spec_canon[b]:
                if any(y and compat_names(x, y) for x in xa for y in [ib, nb] + ub + xb):
                    return True
    return False


def owner_sig(case_fields):
    k = int(case_fields[1])
    return any(re.search(r"\bR \S+ r\d+@i\d+", p) for p in case_fields[2:2 + k])


# ------------------------------------------------------------------------------------------------ the check
def evaluate(case, impl, model):
    """returns (correspondence_ok, [clause failures], info) for one multiset"""
    cf = case.split("\t")
    fi, mf = impl.split("\t"), model.split("\t")
    if len(fi) != 2 or len(mf) != 6:
        return False, [("machinery", "malformed output line")], {}
    corr = fi[0] == mf[0] and fi[1] == mf[1]
    k = int(cf[1]); m = int(cf[2 + k])
    names = [c.split(" ")[0] for c in cf[3 + k:3 + k + m]]
    reqs = fi[0].split(";")
    recs = fi[1].split("|")
    spec_sub = mf[2].split("|")
    spec_canon = mf[3].split(",")
    spec_merge = mf[4].split("|")
    fails = []
    oks = [r.startswith("ok~") for r in recs]
    info = dict(perms=len(recs), ok=sum(oks), names=names, reqs=reqs)
    # (a) success does not depend on the order
    if any(oks) and not all(oks):
        bad = next(r for r in recs if not r.startswith("ok~"))
        fails.append(("order-dependent-success", "succeeds under %d of %d orders; e.g. fails with %s" % (sum(oks), len(recs), bad)))
    if any(r.startswith("PANIC") for r in recs):
        fails.append(("panic", "aggregate panicked: " + next(r for r in recs if r.startswith("PANIC"))))
    maps = {}
    for pi, r in enumerate(recs):
        if not r.startswith("ok~"):
            # (e') the specification sees no conflict, the implementation fails
            if spec_merge[pi].startswith("S~"):
                fails.append(("fails-without-conflict", "order %d: %s although no two contributors conflict" % (pi, r)))
            continue
        f = r.split("~")
        imports = parse_imports(f[1]); canon = f[2].split(","); verdicts = f[3]; canon2 = f[5].split(",")
        imap = {}
        for n, t in imports:
            imap[n] = t
        # (c) upper bound, by the real checker
        for ci, v in enumerate(verdicts):
            if v != "1":
                fails.append(("upper-bound", "order %d: merged %s = %s does not satisfy contributor %d (%s: %s): checker verdict %s"
                              % (pi, canon[ci], imap.get(canon[ci], "<not imported>"), ci, names[ci], reqs[ci], v)))
                break
        # ... and by the specification's relation on the model's trees (equal to the implementation's when corresponding)
        if corr and "0" in spec_sub[pi]:
            ci = spec_sub[pi].index("0")
            fails.append(("upper-bound-spec", "order %d: Sub (merged %s) (required %s) is false for contributor %d" % (pi, canon[ci], reqs[ci], ci)))
        # (d) canonical names: highest contributed version of the track; idempotent; an import
        for ci in range(len(names)):
            if canon[ci] != spec_canon[ci]:
                fails.append(("canonical-not-highest", "order %d: canonical(%s) = %s, highest on the track is %s" % (pi, names[ci], canon[ci], spec_canon[ci])))
                break
            if canon2[ci] != canon[ci]:
                fails.append(("canonical-not-idempotent", "order %d: canonical(canonical(%s)) = %s <> %s" % (pi, names[ci], canon2[ci], canon[ci])))
                break
        tracks = {}
        for n, _ in imports:
            tracks.setdefault(track_of(n), []).append(n)
        for tk, ns in tracks.items():
            if tk is not None and len(ns) > 1:
                fails.append(("two-imports-on-one-track", "order %d: imports %s are on one semver track" % (pi, ns)))
        # (e) union / expected merged tree, where the executable specification applies
        sm = spec_merge[pi]
        if sm in ("conflict", "uses-conflict"):
            fails.append(("succeeds-despite-conflict", "order %d: aggregation succeeded although the specification sees a %s" % (pi, sm)))
        elif sm.startswith("S~"):
            smap = dict(parse_imports(sm[2:]))
            for n, t in imports:
                if n in smap:
                    if norm(smap[n]) != norm(t):
                        fails.append(("merged-tree-not-union", "order %d: import %s is %s, union merge of the contributors is %s" % (pi, n, t, smap[n])))
                        break
                    if smap[n] != t:
                        fails.append(("export-order-not-first-seen", "order %d: import %s is %s, first-seen order gives %s" % (pi, n, t, smap[n])))
                        break
                elif all(c != n for c in canon):
                    fails.append(("unexpected-import", "order %d: import %s was never contributed" % (pi, n)))
        key = (frozenset((n, norm(t)) for n, t in imports), tuple(canon))
        maps.setdefault(key, pi)
        if "idem=" in r:
            v = r.split("idem=")[1]
            if v != "1":
                fails.append(("not-idempotent", "aggregating every requirement a second time: " + ("observable state changed" if v == "0" else v)))
    # (b) the name -> tree map and the canonical names do not depend on the order
    if len(maps) > 1:
        (k1, p1), (k2, p2) = list(maps.items())[:2]
        fails.append(("order-dependent-result", "orders %d and %d give different name->tree maps / canonical names: %s vs %s"
                      % (p1, p2, sorted(k1[0] ^ k2[0]) or [k1[1], k2[1]], "")))
    if corr and "0" in mf[5]:
        fails.append(("hashmap-order", "model result depends on the iteration order of the `interfaces` HashMap"))
    info.update(spec_applicable=spec_merge[0] != "-", spec_conflict=spec_merge[0] in ("conflict", "uses-conflict"))
    return corr, fails, info


def track_of(name):
    m = re.match(r"^([^@]*)@(\d+)\.(\d+)\.(\d+)(\+[0-9A-Za-z.-]+)?$", name)
    if not m:
        return None
    ma, mi = int(m.group(2)), int(m.group(3))
    if ma > 0:
        return (m.group(1), ma, None)
    if mi > 0:
        return (m.group(1), 0, mi)
    return None


ALLOWED = {
    "component-imports-united": {"upper-bound", "upper-bound-spec", "order-dependent-result"},
    "interface-id-under-two-import-names": {"order-dependent-result", "merged-tree-not-union", "export-order-not-first-seen",
                                            "order-dependent-success", "fails-without-conflict", "succeeds-despite-conflict"},
    "owner-import-bypasses-canonical-name": {"two-imports-on-one-track", "not-idempotent", "canonical-not-highest",
                                             "order-dependent-result", "unexpected-import"},
}


def signatures(case, impl, model):
    cf = case.split("\t"); fi, mf = impl.split("\t"), model.split("\t")
    k = int(cf[1]); m = int(cf[2 + k])
    names = [c.split(" ")[0] for c in cf[3 + k:3 + k + m]]
    reqs = fi[0].split(";"); sc = mf[3].split(",")
    s = set()
    shared = shared_id_sig(cf, sc)
    # (nested_instance_sig / alias_prim_sig / two_parents_sig classified the three findings repaired in the repository
    #  (commits 0bf540d, 874f221, and the per-mention copy of anonymous interfaces); they suppress nothing any more: their
    #  witnesses are regression cases in corpus/C09/cases.txt)
    if component_sig(names, reqs, sc):
        s.add("component-imports-united")
    if owner_sig(cf):
        s.add("owner-import-bypasses-canonical-name")
    if shared:
        s.add("interface-id-under-two-import-names")
    return s


def two_parents_sig(cf, k):
    """some contributor's type list has an instance entry `I <id> <uses> <n> name ref ...` in which one anonymous interface
    reference `i:<j>` occurs under two export names"""
    for tl in cf[2:2 + k]:
        for ent in tl.split(" ; "):
            f = ent.split(" ")
            if f and f[0] == "I" and len(f) >= 4:
                refs = [f[i] for i in range(5, len(f), 2) if f[i].startswith("i:")]
                if len(refs) != len(set(refs)):
                    return True
    return False


def pretty(case):
    f = case.split("\t")
    k = int(f[1]); m = int(f[2 + k])
    return dict(types=[p for p in f[2:2 + k]], contributors=[dict(zip(("name", "types", "kind"), c.split(" "))) for c in f[3 + k:3 + k + m]])


def run(res, tier, seed, replay):
    pr = vlib.proof_stage(res, PID)
    ok, log = vlib.ensure_extraction("c09", "theories/extract/ExtractC09.v")
    if not ok:
        res.violation(dict(kind="machinery-error", what="extraction/driver build failed", log=log[-3000:]), no_input=True)
        return
    ok, log = vlib.cargo_build(["c09"])
    if not ok:
        res.violation(dict(kind="broken-tie", what="harness does not build against the repository", log=log[-3000:]),
                      no_input=True)
        return
    rd = os.path.join(vlib.BUILD, "c09", "run"); os.makedirs(rd, exist_ok=True)
    cases_p, impl_p, model_p = (os.path.join(rd, x) for x in ("cases.txt", "impl.txt", "model.txt"))
    extra = ""
    if replay:
        rp = json.load(open(replay))
        lines = rp.get("cases") or [rp.get("case", "")]
        open(os.path.join(rd, "replay_in.txt"), "w").write("\n".join(lines) + "\n")
        extra = " " + os.path.join(rd, "replay_in.txt")
    rc, out = vlib.sh(f"{vlib.hbin('c09')} {tier} {seed} {cases_p} {impl_p}{extra}", timeout=3000)
    if rc != 0:
        res.violation(dict(kind="machinery-error", what="harness run failed", log=out[-3000:]), no_input=True)
        return
    # witnesses of the known findings are replayed on every run (prepended)
    known = {e["id"]: e for e in PROPOSED_KNOWN if e.get("status") == "known"}
    for e in vlib.load_known(PID):
        if e.get("status") == "known":
            known[e["id"]] = e
        elif e.get("status") == "fixed":
            known.pop(e["id"], None)
    wit = [e["witness"] for e in known.values() if e["witness"].startswith("agg\t")]
    corpus = os.path.join(vlib.ROOT, "corpus", PID, "cases.txt")
    if os.path.exists(corpus):
        wit += [l for l in open(corpus).read().split("\n") if l.startswith("agg\t")]
    if wit and not replay:
        open(os.path.join(rd, "wit_in.txt"), "w").write("\n".join(wit) + "\n")
        rc, out = vlib.sh(f"{vlib.hbin('c09')} {tier} {seed} {cases_p}.c {impl_p}.c {os.path.join(rd, 'wit_in.txt')}")
        for a, b in ((cases_p, cases_p + ".c"), (impl_p, impl_p + ".c")):
            body = open(b).read() + open(a).read(); open(a, "w").write(body)
    rc, out = vlib.sh(f"{os.path.join(vlib.BUILD, 'c09', 'driver')} < {cases_p} > {model_p}", timeout=3000)
    cases = open(cases_p).read().split("\n")[:-1]
    impl = open(impl_p).read().split("\n")[:-1]
    model = open(model_p).read().split("\n")[:-1]
    assert len(cases) == len(impl) == len(model), (len(cases), len(impl), len(model))

    disagreements, prop_fail, known_hits = [], [], {}
    nontrivial = set()
    perms = 0; stats = {}
    for c, i, m in zip(cases, impl, model):
        corr, fails, info = evaluate(c, i, m)
        perms += info.get("perms", 0)
        if not corr:
            disagreements.append((c, i, m))
        # non-trivial: at least two contributors end up on one canonical name, and the multiset is neither rejected at the
        # first merge for a top-level kind mismatch only, nor made of identical requirements only
        if info:
            sc = m.split("\t")[3].split(",")
            shared = len(set(sc)) < len(sc)
            distinct_reqs = len(set(info["reqs"])) > 1
            if shared and distinct_reqs:
                nontrivial.add(c)
            for key in ("spec_applicable", "spec_conflict"):
                if info.get(key):
                    stats[key] = stats.get(key, 0) + 1
            if info["ok"] == info["perms"]:
                stats["all_orders_succeed"] = stats.get("all_orders_succeed", 0) + 1
            elif info["ok"] == 0:
                stats["all_orders_fail"] = stats.get("all_orders_fail", 0) + 1
        if fails:
            sigs = signatures(c, i, m) & set(known)
            unexplained = [f for f in fails if not any(f[0] in ALLOWED[s] for s in sigs)]
            if unexplained:
                prop_fail.append((c, i, m, unexplained))
            else:
                for s in sigs:
                    if any(f[0] in ALLOWED[s] for f in fails):
                        known_hits.setdefault(s, []).append((c, fails[0]))
    for sid, hits in sorted(known_hits.items()):
        e = known[sid]
        res.known.append("%s still reproduces on %d multisets of this run (e.g. %s): %s"
                         % (sid, len(hits), hits[0][1][1][:200].replace("\n", " "), e["text"]))

    samples = [pretty(c) for c in sorted(nontrivial)[:3]] or [pretty(cases[0])]
    res.coverage.update(dict(
        correspondence_cases=len(cases), permutations_run=perms, evaluations=perms, disagreements=len(disagreements),
        spec_failures_on_impl=len(prop_fail), known_finding_multisets={k: len(v) for k, v in known_hits.items()},
        distinct_nontrivial=len(nontrivial), outcome_stats=stats, exhaustive=False,
        rule="a case is a multiset of 2..5 contributors (import name, own Types collection built through add_*, required "
             "kind) run under ALL permutations of the contributor order (<=120) on a fresh TypeAggregator with one shared "
             "SubtypeChecker. Generated from one seed: instance requirements with 1..4 exports drawn from function / defined "
             "type / enum-flags-variant / nested instance (anonymous, or with an interface identifier equal to / different from the "
             "export name, versioned on one or several tracks; subset / superset / incomparable / conflicting export sets) / "
             "value / resource / component variants (a per-multiset default "
             "variant, conflicting variants with probability 1/4 in conflict families), interfaces that `use` a type or a "
             "resource of a dependency interface at compatible / incompatible / other versions, dependencies contributed "
             "directly, duplicates sharing one Types collection; names: plain, versioned triples on the same and on "
             "different tracks incl. 0.x, 0.0.x, pre-release and build metadata; plus hand-written multisets (upstream unit "
             "tests, three versions per track, nested instances, alias/primitive, owners, components, modules) and the "
             "witnesses of the known findings. evaluations = aggregation runs (multiset x permutation). non-trivial = "
             "distinct multiset in which at least two contributors share a canonical name and not all requirements are "
             "identical",
        samples=samples,
        trusted_base=vlib.TRUSTED_COMMON + [
            "models Types.v (component.rs arenas), Checker.v (checker.rs) and Aggregator.v (aggregator.rs) are hand-written; tied "
            "by this correspondence (observation = success / error class of the innermost aggregator-level message / position, "
            "imports() in order with unfolded trees, canonical names, interface ids and uses, idempotence probe, fresh-checker "
            "verdicts merged <: required)",
            "AggregatorSpec.v / SubSpec.v are the specification (highest-on-track, union merge, conflict, declarative subtyping)",
            "id_arena / indexmap / HashMap semantics are modelled (identifier equality includes the arena; IndexMap keeps "
            "insertion order; the `interfaces` table that is iterated takes its order as an argument of the model, run with "
            "identity and reversal)"]))
    res.assumptions = [
        "type collections are acyclic and closed (always true when built through add_*)",
        "each contributor collection has its own arena tag; collections shared by two contributors are the same value",
        "the executable specification of the merged tree / conflict is evaluated on the fragment described in driver/c09.ml "
        "(instance, function, value and type requirements; anonymous nested interfaces; no component or module types; no "
        "owned resources); upper bound, canonical names and order independence are evaluated on every case"]

    for c, i, m, fails in prop_fail[:5]:
        res.violation(dict(kind="property-fails-on-implementation", what=fails[0][0] + ": " + fails[0][1],
                           clauses=[list(f) for f in fails[:6]], case=c, contributors=pretty(c),
                           required=i.split("\t")[0].split(";"), implementation=i.split("\t")[1][:4000],
                           model_and_spec=m[:4000]))
    if not prop_fail:
        if disagreements:
            c, i, m = disagreements[0]
            fi, mf = i.split("\t"), m.split("\t")
            diff = ""
            if len(fi) == 2 and len(mf) >= 2:
                for pi, (x, y) in enumerate(zip(fi[1].split("|"), mf[1].split("|"))):
                    if x != y:
                        diff = dict(permutation=pi, implementation=x, model=y); break
            res.violation(dict(kind="correspondence-broken",
                               what="model and implementation differ; the specification predicates still hold on every "
                                    "implementation observation of this run",
                               correspondence="Aggregator.v/Checker.v/Types.v vs aggregator.rs", case=c, contributors=pretty(c),
                               first_difference=diff, n=len(disagreements)), no_input=True)
        if res.proof_broken:
            res.violation(res.proof_broken, no_input=True)
