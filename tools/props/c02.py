"""C02: encoded wiring is exactly the composition graph (translation validation)."""
import json
import os
import re
from props import enc_common as ec
import vlib

PID = "C02"

CLAIM = dict(
    text="Translation validation of CompositionGraph::encode with machine-checked Coq components: an independent "
         "section-level reader turns the REAL output bytes into an item log; the extracted, proved-well-scoped "
         "decode_wiring interprets it into provenance terms (which import / which instantiation / which export of which "
         "instance / which embedded component every argument, alias, export and name-section entry designates) and this "
         "must equal wiring_spec computed from the composition graph alone (Graph.v model replaying the same API "
         "history), up to the numbering of instances. Coq theorems: decode_scoped / structural_indices_in_scope (a decodable "
         "log has no dangling or ill-sorted index), wiring_correct and each_package_once for a model of the structural "
         "encoder (every topological emission order, every behaviour of the type encoder; name section included); "
         "wiring_correct_reachable for every graph built through the API (the side condition about the graph is derived: a "
         "definition has one export name since export() renames it), one _refuted witness showing the remaining side condition "
         "(import dedup by interface id) is needed (a finding of the real code), and the regression instance of the repaired "
         "definition-rename defect. The model encoder "
         "is tied to the code on every run: replaying the real type-encoder items it must reproduce the real item log and "
         "name section exactly.",
    design_ref="DESIGN.md §5 C02, Appendix A.3",
    note="Trusted: Coq kernel, extraction, OCaml driver, Rust harness incl. the payload-level section reader "
         "(wasmparser Parser, not the validator). TypeEncoder is a parameter of the model (its items are replayed from "
         "the real log); package worlds, instance exports, interface ids, subtype table are per-case oracles computed "
         "by the real implementation.",
    technique="translation validation of real outputs against a Coq specification + Coq proof of the encoder model")

W_DEF = "H def 6 0;export 0 7"
W_DEDUP = "H reg 4;inst 0 0;inst 0 0;imp 17 6;setarg 1 10 2;export 1 9"
W_DEPLOW = "H reg 11;reg 10;inst 1 0;alias 0 19;inst 0 0;setarg 2 30 1;inst 0 0"

# Findings proposed to the main session (which owns /verif/known-findings.json); consulted locally so that the check is
# strict (failing cases are evaluated and classified) without alarming on the unchanged tree.
PROPOSED_KNOWN = [
    dict(property=PID, id="C02-def-extra-export-name", status="fixed", signature=ec.SIG_DEF_EXTRA_NAME, witness=W_DEF,
         text="fixed: property=C02 1d500c2 export(definition_node, \"bar\") on a type definition `foo`: get_export answered for "
              "both names, the encoded component exported only `bar` (the definition's own name was lost, the extra name never bound)"),
    dict(property=PID, id="C02-import-dedup-by-interface-id", status="known", signature=ec.SIG_IMPORT_DEDUP, witness=W_DEDUP,
         text="an explicit import `my-t` whose interface id a:b/c@0.2.0 is also imported implicitly is not emitted; the "
              "instantiation argument that designates the `my-t` node is wired to the implicit import instead"),
    dict(property=PID, id="C02-dep-import-named-for-lower-version", status="known", signature=ec.SIG_DEP_LOWER, witness=W_DEPLOW,
         text="consumers of u:s/types@1.0.0 and @1.1.0 share one import; when `u:s/api@1.1.0` (which `use`s types) is imported "
              "first, the shared import is emitted by import_deps as `u:s/types@1.0.0` and the arguments named "
              "u:s/types@1.1.0 are wired to it instead of to an import named for the highest version"),
]

CORPUS = [
    W_DEF, W_DEDUP, W_DEPLOW,
    # diamond: one provider instance shared by two consumers, consumers' exports wired further, export under two names
    "H reg 8;reg 0;reg 3;inst 0 0;alias 0 0;alias 0 2;inst 1 0;setarg 3 0 1;setarg 3 2 2;inst 2 0;setarg 4 2 2;alias 3 4;alias 5 3;export 6 3;export 6 6;name 0 23",
    # two instantiations of one package, alias of alias, implicit imports shared on a semver track
    "H reg 4;reg 5;reg 7;inst 0 0;inst 0 0;inst 1 0;inst 2 0;alias 2 11;setarg 0 10 4;export 4 11",
    # explicit imports as arguments, definitions, names
    "H reg 1;reg 2;imp 0 0;imp 1 1;inst 0 0;inst 1 0;setarg 2 0 0;setarg 3 1 1;setarg 3 0 0;def 6 0;def 7 2;alias 2 1;export 4 1;name 2 24;name 4 25",
    # shared import named by version order (1.2.0 > 1.1.5) / separate imports for tracks that are textual prefixes of each other
    "H reg 13;reg 12;reg 15;inst 0 0;inst 1 0;inst 2 0;inst 1 0",
    "H reg 20;reg 19;reg 21;inst 0 0;inst 1 0;inst 2 0;alias 2 16;export 3 16",
    # toposort replay cases (emission order 1,2,alias,0; GraphContainsCycle(0))
    "H reg 0;inst 0 0;inst 0 0;inst 0 0;alias 2 1;setarg 0 0 3",
    "H reg 0;inst 0 0;alias 0 1;setarg 0 0 1",
    # identifier reuse: a node exported under two names, its package unregistered, a new node in the freed slot, export, encode
    "H reg 8;reg 1;inst 0 0;alias 0 0;export 1 22;export 1 6;unreg 0 0;inst 1 0;export 1 7",
    "H reg 8;inst 0 0;alias 0 2;export 1 22;export 1 6;export 0 4;unreg 0 0;reg 3;inst 0 1;imp 2 3;setarg 1 2 0;export 1 7",
    # ... removed with remove_node / unexported / argument unset, then re-created
    "H reg 8;reg 1;inst 0 0;alias 0 0;export 1 22;export 1 6;inst 1 0;setarg 2 0 1;rm 0;inst 0 0;alias 0 1;export 1 7;setarg 2 0 1",
    "H reg 8;reg 1;inst 0 0;alias 0 0;export 1 22;export 1 6;unexport 1;inst 1 0;setarg 2 0 1;unsetarg 2 0 1;rm 1;alias 0 1;export 1 6;setarg 2 0 1",
    "H reg 8;reg 1;inst 0 0;inst 1 0;alias 0 0;setarg 1 0 2;export 1 1;export 1 9;unreg 1 0;reg 2;inst 1 1;alias 0 1;export 1 9",
    # use-dependent interfaces: producer feeds consumer, shared `types`
    "H reg 9;reg 10;inst 1 0;alias 0 19;inst 0 0;setarg 2 19 1;alias 2 9;export 3 9",
]


def known_entries():
    listed = vlib.load_known(PID)
    ids = {e.get("id") for e in listed}
    return listed + [e for e in PROPOSED_KNOWN if e["id"] not in ids]


def normalise(row, m, spec_s, dec_s, names):
    """apply the known-finding normalisations; returns (spec', dec', matched ids)"""
    matched = []
    mm = ec.dedup_mismatches(row, m)
    for req, found in mm:
        matched.append("C02-" + ec.dedup_kind(req, found))
        spec_s = spec_s.replace(f"i({req})", f"i({found})")
    md = ec.multi_named_defs(row)
    if md:
        matched.append("C02-def-extra-export-name")
        bad = {names[i] for v in md.values() for i in v}

        def strip(s):
            parts = dict(p.split("=", 1) for p in s.split("#"))
            parts["exports"] = ";".join(e for e in parts["exports"].split(";") if e and e.split("~")[0] not in bad)
            s2 = "#".join(f"{k}={parts[k]}" for k in ("insts", "exports", "comps", "names"))
            for b in bad:
                s2 = s2.replace(f"x({b})", "x(*)")
            return s2
        spec_s, dec_s = strip(spec_s), strip(dec_s)
    return spec_s, dec_s, matched


def check_row(row, names):
    """the C02 predicate on the implementation's observation. Returns list of (mode, why, known_ids)."""
    fails = []
    im, mo = row["impl"], row["model"]
    if im.get("dead") or mo.get("dead"):
        return fails
    for m in ec.MODES:
        if ec.outcome_class(im.get(m + ".enc0")) != "ok":
            continue
        if im.get(m + ".bad"):
            fails.append((m, "output not readable at section level: " + im[m + ".bad"][:200], [])); continue
        if mo.get(m + ".scope") != "1" or mo.get(m + ".dec") in (None, "NONE"):
            fails.append((m, "an instantiate/alias/export item uses a dangling or ill-sorted index", [])); continue
        # the exports of the REAL output are exactly the names of the export map of the IMPLEMENTATION's graph
        # (get_export over the name pool), definitions included
        dec_exports = {e.split("~")[0] for e in dict(p.split("=", 1) for p in mo[m + ".dec"].split("#"))["exports"].split(";") if e}
        map_names = ec.impl_export_names(row, names)
        if dec_exports != map_names:
            md = ec.multi_named_defs(row)
            bad = {names[i] for v in md.values() for i in v}
            ids = ["C02-def-extra-export-name"] if md and dec_exports - bad == map_names - bad else []
            fails.append((m, f"the output exports {sorted(dec_exports)} but the graph's export map has {sorted(map_names)}"
                          + (" (a type definition designated by several names: only its last name is encoded)" if ids else ""), ids))
            continue
        if mo.get(m + ".tv") == "1":
            continue
        if m + ".specasc" not in mo:
            continue   # no specification available (model graph cyclic): reported as correspondence failure
        dec_s, spec_s = mo[m + ".dec"], mo[m + ".specasc"]
        r1 = iso_bounded(ec.parse_wiring(dec_s), ec.parse_wiring(spec_s))
        if r1 or r1 is None:
            continue       # equal up to instance numbering, or undecided within the search budget (counted in the evidence)
        s2, d2, ids = normalise(row, m, spec_s, dec_s, names)
        ids = sorted(set(ids))
        r2 = iso_bounded(ec.parse_wiring(d2), ec.parse_wiring(s2)) if ids else False
        if r2 is None:
            continue
        if ids and r2:
            fails.append((m, "wiring differs from the composition graph exactly as described by the known finding(s)", ids)); continue
        fails.append((m, "decoded wiring of the real output differs from the composition graph", []))
    return fails


def iso_bounded(a, b):
    """ec.iso, or None when its search budget is exhausted (many indistinguishable instances): undecided, never a failure"""
    try:
        return ec.iso(a, b)
    except ec.IsoUndecided:
        ec.ISO_STATS["undecided"] += 1
        try:      # kept for inspection
            with open(os.path.join(vlib.BUILD, "c02", "run", "undecided.txt"), "a") as f:
                f.write(json.dumps([a, b]) + "\n")
        except Exception:
            pass
        return None


def run(res, tier, seed, replay):
    vlib.proof_stage(res, PID)
    known = known_entries()
    corpus = list(dict.fromkeys(CORPUS + [e["witness"] for e in known if e.get("witness")]))
    pr = ec.pipeline(res, PID, tier, seed, replay, corpus)
    if pr is None:
        return
    header, rows = pr
    u = ec.universe(header)
    names = u["names"]
    known_ok = {e["id"] for e in known if e.get("status") == "known"}
    disagreements, prop_fail, known_hits = [], [], {}
    shapes, encodable, modes_checked, c01 = set(), 0, 0, {}
    outcome_hist = {}
    for row in rows:
        d = ec.correspondence(row)
        if d:
            disagreements.append((row, d))
        for m in ec.MODES:
            oc = ec.outcome_class(row["impl"].get(m + ".enc0"))
            outcome_hist[oc] = outcome_hist.get(oc, 0) + 1
            if oc == "ok":
                modes_checked += 1
                v, e1 = row["impl"].get(m + ".valid", ""), row["impl"].get(m + ".enc1", "")
                if v != "ok" or ec.outcome_class(e1) != "ok" or row["impl"].get(m + ".same") != "1":
                    key = re.sub(r"0x[0-9a-f]+", "0x..", (v if v != "ok" else e1))[:120]
                    c01.setdefault(key, row["case"])
        if ec.outcome_class(row["impl"].get("D.enc0")) == "ok":
            encodable += 1
            sa = row["model"].get("D.specasc")
            if sa and ec.has_feature(ec.parse_wiring(sa)):
                shapes.add(sa)
        for m, why, ids in check_row(row, names):
            if ids and all(i in known_ok for i in ids):
                for i in ids:
                    known_hits.setdefault(i, []).append(row)
            else:
                prop_fail.append((row, m, why))
    for e in known:
        hits = known_hits.get(e["id"], [])
        if e.get("status") == "known" and hits:
            wit = [r for r in hits if r["case"] == e.get("witness")]
            res.known.append(f"{e['id']}: {e['text']} [witness `{e.get('witness')}` {'still fails' if wit else 'not replayed'}; "
                             f"{len(hits)} composition/mode observations in this run match the signature]")
    res.coverage.update(dict(
        evaluations=len(rows) * 2, correspondence_cases=len(rows), encodable_compositions=encodable,
        outputs_translation_validated=modes_checked, disagreements=len(disagreements),
        spec_failures_on_impl=len(prop_fail), distinct_nontrivial=len(shapes), encode_outcomes=outcome_hist,
        known_finding_observations={k: len(v) for k, v in known_hits.items()},
        c01_class_observations=c01,
        rule="every fourth composition is an adaptive history WITH removals (remove_node, unregister_package, unexport, unset_instantiation_argument; nodes exported under several names before they disappear) followed by re-creation that reuses node and package identifiers, before the encode (no permutations for those); the others: compositions: regression corpus + random accepted API histories over a universe of 23 packages (4 from C06, 4 with "
             "versioned interface-style imports on same/different semver tracks, 1 provider, 3 WIT-derived with `use`, 11 importing one "
             "interface at versions whose numeric and textual/field-wise orders disagree: v:w/i@1.1.5/1.2.0/1.10.0/1.4.0/12.0.1/1.3.0-rc.1/"
             "1.2.0+b5, p:q/r@0.2.0/0.2.10/0.21.0/0.3.0), local type "
             "definitions, explicit imports (incl. kinds carrying interface ids), aliases of aliases, exports under several names, "
             "node names; each abstract composition is replayed under up to 3 (quick) / 4 (thorough) dependency-preserving creation "
             "orders; every one is encoded with define_components on/off x validate on/off. non-trivial = distinct wiring "
             "specifications (instances numbered by node id) with >= 2 instantiations and at least one argument that designates "
             "an instance or an export of an instance",
        samples=[r["case"] for r in rows[:2]] + [r["case"] for r in rows if r["src"] == "generated"][:3],
        trusted_base=vlib.TRUSTED_COMMON + [
            "Rust section reader in harness/src/bin/c02.rs (wasmparser::Parser payloads of the outermost component only; nested "
            "components are opaque byte ranges compared with the registered package bytes)",
            "TypeEncoder (crates/wac-graph/src/encoding.rs) is a parameter of the Coq model; its items are replayed from the real log",
            "models Graph.v / EncodeModel.v are hand-written; tied by this correspondence (final graph dump, encode outcome, item log, "
            "name section, toposort order)",
            "per-case universe (package worlds, instance exports, interface ids, name validity, subtype table) computed by the real implementation"]))
    res.assumptions = ["resource-free universe; ImportTypeMergeConflict between same-class kinds is not predicted by the model (accepted as observed)",
                       "argument lists are compared as name -> item maps, exports and name-section entries as sets (their order is not part of the property)",
                       "equality up to instance numbering is a bounded backtracking search (%d steps per comparison): %d comparisons, %d undecided "
                       "(counted, not failures), largest search %d steps" % (ec.ISO_BUDGET, ec.ISO_STATS["calls"], ec.ISO_STATS["undecided"], ec.ISO_STATS["max_steps"]),
                       "%d generated histories name a node identifier that was already removed (the harness cannot build such a NodeId): not compared" % len(set(ec.DEAD_ID_HISTORIES))]
    for row, m, why in prop_fail[:5]:
        res.violation(dict(kind="property-fails-on-implementation", what=why, mode=m, case=row["case"], cases=[row["case"]],
                           decoded=row["model"].get(m + ".dec", "")[:3000], specified=row["model"].get(m + ".specasc", "")[:3000],
                           real_log=row["impl"].get(m + ".log", "")[:3000]))
    if not prop_fail:
        if disagreements:
            row, d = disagreements[0]
            res.violation(dict(kind="correspondence-broken", what="model and implementation differ: " + "; ".join(d)[:500] +
                               " — the wiring predicate still holds on every implementation observation of this run",
                               correspondence="Graph.v/EncodeModel.v vs graph.rs", case=row["case"], cases=[row["case"]],
                               implementation={k: v[:1500] for k, v in row["impl"].items() if k.endswith(("enc0", "log")) or k in ("res", "dump")},
                               model={k: v[:1500] for k, v in row["model"].items() if k.endswith(("model", "modellog")) or k in ("res", "dump")},
                               n=len(disagreements)), no_input=True)
        if res.proof_broken:
            res.violation(res.proof_broken, no_input=True)
