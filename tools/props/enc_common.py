"""Shared by C02 and C03 (and later C01): run the composition harness (harness/src/bin/c02.rs) and the extracted
model (driver/c02.ml), parse both, evaluate graph/encoder correspondence, provide the known-finding signatures.

One *row* per composition: dict(case='H ...', impl={...}, model={...}).  Per dependency mode m in ('D','I'):
  impl  m.enc1/m.enc0/m.same/m.valid/m.log/m.names/m.imp/m.bad   (real encode + independent section reader)
  model m.model (outcome of the model encoder replaying the real type-encoder items), m.logeq (model log == real log),
        m.spec / m.specasc (wiring_spec from the model graph), m.dec (decode_wiring of the REAL log), m.tv, m.scope, ...
"""
import json
import os
import re
import vlib

HB = "c02"
MODES = ("D", "I")


def kvs(fields):
    d = {}
    for f in fields:
        if "=" in f:
            k, v = f.split("=", 1)
            d[k] = v
    return d


def build(res):
    ok, log = vlib.ensure_extraction("c02", "theories/extract/ExtractC02.v")
    if not ok:
        res.violation(dict(kind="machinery-error", what="extraction/driver build failed", log=log[-3000:]), no_input=True)
        return False
    ok, log = vlib.cargo_build([HB])
    if not ok:
        res.violation(dict(kind="broken-tie", what="harness does not build against the repository", log=log[-3000:]), no_input=True)
        return False
    return True


def run_one(res, tag, tier, seed, src, rd):
    """harness (generate or replay `src`) + driver; returns (header_lines, rows) or None on machinery failure."""
    c, i, d, m = (os.path.join(rd, f"{tag}.{x}.txt") for x in ("cases", "impl", "din", "model"))
    env = dict(vlib.ENV, C02_FLUSH="1")
    rc, out = vlib.sh(f"{vlib.hbin(HB)} {tier} {seed} {c} {i}" + (f" {src}" if src else ""), timeout=3000, env=env)
    if rc != 0:
        last = [l for l in open(c).read().split("\n") if l.startswith("H ")][-1:] if os.path.exists(c) else []
        return dict(crash=True, rc=rc, log=out[-1500:], case=(last[0] if last else ""))
    cases = open(c).read().split("\n")[:-1]; impl = open(i).read().split("\n")[:-1]
    assert len(cases) == len(impl), (len(cases), len(impl))
    with open(d, "w") as f:
        for a, b in zip(cases, impl):
            f.write(a + "\n" if a.startswith("U") else a + "\t" + b + "\n")
    rc, out = vlib.sh(f"{os.path.join(vlib.BUILD, 'c02', 'driver')} < {d} > {m}", timeout=3000)
    model = open(m).read().split("\n")[:-1]
    assert len(model) == len(cases), (len(model), len(cases))
    header, rows = [], []
    for a, b, mm in zip(cases, impl, model):
        if a.startswith("U"):
            header.append(a); continue
        rows.append(dict(case=a, impl=kvs(b.split("\t")), model=kvs(mm.split("\t")), raw_model=mm, src=tag))
    return dict(crash=False, header=header, rows=rows)


def pipeline(res, pid, tier, seed, replay, corpus_cases):
    """returns (header, rows) or None (a violation has been recorded)."""
    if not build(res):
        return None
    rd = os.path.join(vlib.BUILD, "c02", "run-" + pid.lower()); os.makedirs(rd, exist_ok=True)
    runs = []
    if replay:
        rp = json.load(open(replay))
        rin = os.path.join(rd, "replay_in.txt")
        open(rin, "w").write("\n".join(rp.get("cases", [rp.get("case", "")])) + "\n")
        runs.append(("replay", rin))
    else:
        cin = os.path.join(rd, "corpus_in.txt")
        open(cin, "w").write("\n".join(corpus_cases) + "\n")
        runs.append(("corpus", cin))
        runs.append(("generated", None))
    header, rows = [], []
    for tag, src in runs:
        r = run_one(res, tag, tier, seed, src, rd)
        if r["crash"]:
            res.violation(dict(kind="encode-crash", what="the harness process died while building/encoding a composition accepted by "
                               "the graph API (uncatchable abort, e.g. stack overflow in the encoder)", case=r["case"], cases=[r["case"]],
                               rc=r["rc"], log=r["log"]))
            return None
        header = r["header"]; rows += r["rows"]
    return header, rows


# ------------------------------------------------------------------ universe facts

def universe(header):
    u = dict(kind_class={}, kind_exports={}, iid={}, pkg_imports={}, names={}, pkgname={})
    dec = lambda s: "" if s in ("-", "") else "".join(chr(int(x)) for x in s.split(","))
    for l in header:
        f = l.split(" ")
        if f[1] == "kind":
            u["kind_class"][f[2]] = f[3]
            u["kind_exports"][f[2]] = [p.split("=") for p in (f[4] if len(f) > 4 else "").split(",") if p]
        elif f[1] == "iid":
            u["iid"][f[2]] = dec(f[3])
        elif f[1] == "name" and len(f) == 4:
            u["names"][f[2]] = dec(f[3])
        elif f[1] == "pkg":
            u["pkg_imports"][f[2]] = [p.split("=") for p in f[4].split("=", 1)[1].split(",") if p]
        elif f[1] == "pkgname":
            u["pkgname"][f[2]] = (dec(f[3]), dec(f[4]) if f[4] != "-" else None)
    return u


def dec_name(s):
    return "" if s in ("-", "") else "".join(chr(int(x)) for x in s.split(","))


# ------------------------------------------------------------------ correspondence (a): model vs implementation

def outcome_class(s):
    s = s or ""
    if s.startswith("PANIC"):
        return "PANIC"
    return re.sub(r"\(.*", "", s)


def is_explicit_merge_unwrap(real):
    """the harness prints `PANIC(@file:line message)`: an `unwrap()` of an Err in wac-graph's graph.rs (resolve_imports)"""
    return real.startswith("PANIC") and "Result::unwrap()" in real and "wac-graph/src/graph.rs" in real


DEAD_ID_HISTORIES = []


def correspondence(row):
    """list of human-readable disagreements between the model and the implementation for one composition"""
    out = []
    im, mo = row["impl"], row["model"]
    if "harness: dead node id" in im.get("res", ""):
        # the history names a node identifier that no longer exists: the harness cannot even build such a NodeId, so
        # the call is never made. The property quantifies over live identifiers; the history is not compared (counted).
        DEAD_ID_HISTORIES.append(row.get("case", ""))
        return out
    ires = [re.sub(r"^PANIC\(.*", "PANIC", x) for x in im.get("res", "").split(";")]
    if ires != mo.get("res", "").split(";"):
        out.append("operation results differ")
    if im.get("dead") or mo.get("dead"):
        if bool(im.get("dead")) != bool(mo.get("dead")):
            out.append("one side died on a graph operation")
        return out
    if im.get("dump") != mo.get("dump"):
        out.append("final graph state differs (Graph.v vs graph.rs)")
    for m in MODES:
        real, model = im.get(m + ".enc0", ""), mo.get(m + ".model", "")
        rc, mc = outcome_class(real), outcome_class(model)
        if rc == "ok":
            if mc != "ok":
                out.append(f"{m}: real encode succeeded, model encoder says {model}")
            else:
                if mo.get(m + ".logeq") != "1":
                    out.append(f"{m}: model log differs from the real item log")
                if mo.get(m + ".nameseq") != "1":
                    out.append(f"{m}: model name section differs from the real one")
                if mo.get(m + ".topook") != "1":
                    out.append(f"{m}: model toposort order is not a topological order")
        elif rc == "E:ImplicitImportConflict":
            if real != model.replace(" ", ""):
                # the harness prints the name as code points
                mm = re.match(r"E:ImplicitImportConflict\((\d+),(\d+),(.*)\)$", real)
                want = f"E:ImplicitImportConflict({mm.group(1)},{mm.group(2)},{dec_name(mm.group(3))})" if mm else real
                if want != model:
                    out.append(f"{m}: conflict report differs: real {want} model {model}")
        elif rc == "E:ImportTypeMergeConflict":
            # PANIC(BadNode) is the model's rendering of the `.unwrap()` on an explicit import's failed merge (current code);
            # a repaired implementation reports ImportTypeMergeConflict there
            if mc not in ("ok", "E:ImportTypeMergeConflict", "PANIC", "ORACLE"):
                out.append(f"{m}: real merge conflict, model says {model}")
        elif rc == "PANIC" and is_explicit_merge_unwrap(real):
            # resolve_imports `.unwrap()`: the model predicts it for kinds of different classes (PANIC(BadNode)); a type-level
            # conflict between kinds of one class is not modelled (model: ok, or ORACLE because there is no real log to replay)
            if mc not in ("PANIC", "ok", "ORACLE"):
                out.append(f"{m}: real unwrap panic, model says {model}")
        elif rc != mc:
            out.append(f"{m}: encode outcome differs: real {real[:80]} model {model[:80]}")
    return out


# ------------------------------------------------------------------ wiring terms

def parse_pargs(s):
    out = []
    for a in filter(None, s.split("&")):
        nm, so, pv = a.split("~", 2)
        out.append((nm, so, pv))
    return out


def parse_wiring(s):
    parts = dict(p.split("=", 1) for p in s.split("#"))
    insts = []
    for w in filter(None, parts["insts"].split(";")):
        kind, body = w[0], w[2:-1]
        if kind == "N":
            comp, args = body.split("|", 1)
            insts.append(("N", comp, parse_pargs(args)))
        else:
            insts.append(("B", "", parse_pargs(body)))
    exports = parse_pargs(parts["exports"].replace(";", "&"))
    comps = [c for c in parts["comps"].split(";") if c]
    names = [tuple(n.split("~", 2)) for n in parts["names"].split(";") if n]
    return dict(insts=insts, exports=exports, comps=comps, names=names)


def rename(pv, pi):
    return re.sub(r"\bn(\d+)\b", lambda m: "n%s" % pi.get(int(m.group(1)), "?" + m.group(1)), pv)


ISO_BUDGET = 200000          # search steps per comparison; exhausting it is reported as "undecided", never as a failure
ISO_STATS = dict(calls=0, undecided=0, max_steps=0)


class IsoUndecided(Exception):
    pass


def _labels(items, n):
    """per instance index: the export / name entries that mention it, with the instance itself written SELF and any
    other instance written ?, as a sorted tuple (a permutation-invariant description used to prune the search)"""
    lab = [[] for _ in range(n)]
    for tag, ents in items:
        for a, b, c in ents:
            for k in {int(x) for x in re.findall(r"\bn(\d+)\b", c)}:
                if k < n:
                    pat = re.sub(r"\bn(\d+)\b", lambda m: "SELF" if int(m.group(1)) == k else "?", c)
                    lab[k].append((tag, a, b, pat))
    return [tuple(sorted(l)) for l in lab]


_NREF = re.compile(r"\bn(\d+)\b")


def _refine(D, Dl, S, Sl, n, rounds=4):
    table = {}

    def intern(x):
        return table.setdefault(x, len(table))

    def start(insts, lab):
        return [intern((kind, _NREF.sub("?", comp), tuple(sorted((a, b, _NREF.sub("?", c)) for a, b, c in args)), lab[k]))
                for k, (kind, comp, args) in enumerate(insts)]

    def step(insts, col):
        col_of = lambda m: "c%d" % col[int(m.group(1))] if int(m.group(1)) < len(col) else "c?"
        out_desc = [(_NREF.sub(col_of, comp), tuple(sorted((a, b, _NREF.sub(col_of, c)) for a, b, c in args)))
                    for (kind, comp, args) in insts]
        used_by = [[] for _ in insts]
        for j, (kind, comp, args) in enumerate(insts):
            for a, b, c in list(args) + [("", "", comp)]:
                for k in {int(x) for x in _NREF.findall(c)}:
                    if k < len(insts):
                        used_by[k].append((col[j], a, b, _NREF.sub(lambda m: "SELF" if int(m.group(1)) == k else "?", c)))
        return [intern((col[k], out_desc[k], tuple(sorted(used_by[k])))) for k in range(len(insts))]
    cd, cs = start(D, Dl), start(S, Sl)
    for _ in range(rounds):
        cd, cs = step(D, cd), step(S, cs)
    return cd, cs


def iso(dec, spec):
    """is there a bijection between the instance items of `dec` (real) and `spec` making them equal?
    arguments are compared as name -> (sort, prov) maps, exports and names as sets.
    Backtracking search, pruned by what exports / names say about each instance; bounded by ISO_BUDGET steps
    (IsoUndecided is raised when the budget is exhausted: callers count the case as undecided)."""
    D, S = dec["insts"], spec["insts"]
    if len(D) != len(S) or sorted(dec["comps"]) != sorted(spec["comps"]) or len(set(dec["comps"])) != len(dec["comps"]):
        return False
    n = len(D)
    ISO_STATS["calls"] += 1

    def norm(inst, pi):
        kind, comp, args = inst
        return (kind, rename(comp, pi) if pi is not None else comp,
                frozenset((a, b, rename(c, pi) if pi is not None else c) for a, b, c in args), len(args))
    Sn = [norm(x, None) for x in S]
    Dl = _labels([("e", dec["exports"]), ("n", dec["names"])], n)
    Sl = _labels([("e", spec["exports"]), ("n", spec["names"])], n)
    if sorted(Dl) != sorted(Sl):
        return False
    # colour refinement (an isomorphism invariant): an instance's colour is refined by the colours of the instances its
    # component / arguments mention and of the instances that mention it; only equally coloured instances are matched
    Dl, Sl = _refine(D, Dl, S, Sl, n)
    if sorted(Dl) != sorted(Sl):
        return False
    # exports and names with every instance reference replaced by the instance's colour: a permutation-invariant
    # description that must agree (catches differences that no bijection can repair before the search starts)
    def coloured(side, col):
        f = lambda m: "c%d" % col[int(m.group(1))] if int(m.group(1)) < n else "c?"
        return (sorted((a, b, _NREF.sub(f, c)) for a, b, c in side["exports"]),
                sorted((a, b, _NREF.sub(f, c)) for a, b, c in side["names"]))
    if coloured(dec, Dl) != coloured(spec, Sl):
        return False

    def rest_ok(pi):
        de = {(a, b, rename(c, pi)) for a, b, c in dec["exports"]}
        dn = {(a, b, rename(c, pi)) for a, b, c in dec["names"]}
        return (de == set(spec["exports"]) and len(dec["exports"]) == len(spec["exports"])
                and dn == set(spec["names"]) and len(dec["names"]) == len(spec["names"]))
    steps = [0]

    def go(k, pi, used):
        steps[0] += 1
        if steps[0] > ISO_BUDGET:
            raise IsoUndecided()
        if k == n:
            return rest_ok(pi)
        want = norm(D[k], pi)
        for j in range(n):
            if j not in used and Dl[k] == Sl[j] and Sn[j] == want:
                pi[k] = j; used.add(j)
                if go(k + 1, pi, used):
                    return True
                del pi[k]; used.discard(j)
        return False
    try:
        return go(0, {}, set())
    finally:
        ISO_STATS["max_steps"] = max(ISO_STATS["max_steps"], steps[0])


# ------------------------------------------------------------------ known-finding signatures

SIG_DEF_EXTRA_NAME = ("CompositionGraph::export(definition_node, other_name): node.export is overwritten and the exports loop of "
                      "CompositionGraphEncoder::encode skips every definition -> only the last name of a type definition is exported")
# (repaired: export() renames a definition. The classification below is kept so that a regression is named; it reads the
#  IMPLEMENTATION's own dump, since the model follows the repaired code and never shows a definition under two names.)
SIG_IMPORT_DEDUP = ("CompositionGraphEncoder::import returns the index of an already imported instance with the same (semver-track) "
                    "interface id (state.current.instances): an explicit import under another name is not emitted and its node is "
                    "wired to the other import")
SIG_EXPLICIT_UNWRAP = ("CompositionGraphEncoder::resolve_imports: `.unwrap()` on the aggregate of an explicit import whose name is "
                       "semver-compatible with (or equal in track to) another import of a different kind -> panic instead of an EncodeError")


def dump_sections(row, side):
    dump = row[side].get("dump", "")
    return dict((m.group(1), m.group(2)) for m in re.finditer(r"([A-Z])\[([^\]]*)\]", dump))


def impl_export_names(row, names):
    """the names of the graph's export map as the IMPLEMENTATION reports them (get_export over the name pool)"""
    sec = dump_sections(row, "impl")
    return {names[e.split("=")[0]] for e in filter(None, sec.get("E", "").split(","))}


def multi_named_defs(row, side="impl"):
    """export names bound to definition nodes that carry more than one export name in the export map of the
    implementation's graph (regression signature of the repaired finding: only the last name was encoded)"""
    dump = row[side].get("dump", "")
    sec = dict((m.group(1), m.group(2)) for m in re.finditer(r"([A-Z])\[([^\]]*)\]", dump))
    defs = {e.split(":")[0] for e in filter(None, sec.get("N", "").split(",")) if e.split(":")[1] == "D"}
    by_node = {}
    for e in filter(None, sec.get("E", "").split(",")):
        nm, nd = e.split("=")
        if nd in defs:
            by_node.setdefault(nd, []).append(nm)
    return {nd: v for nd, v in by_node.items() if len(v) > 1}


def dedup_mismatches(row, m):
    out = []
    for p in filter(None, row["model"].get(m + ".dedup", "").split(";")):
        a, b = p.split(">", 1)
        if a != b:
            out.append((a, b))
    return out


SIG_DEP_LOWER = ("TypeEncoder::import_deps imports a `use`d interface under the id of the first-merged (lower) version before the "
                 "canonical import of that track is emitted; CompositionGraphEncoder::import then answers the canonical (highest) "
                 "name with that instance -> the shared import is named for a lower version, depending on aggregation order")


def dedup_kind(req, found):
    """which finding a (requested, found) interface-id de-duplication belongs to"""
    if "@" in req and "@" in found and req.split("@")[0] == found.split("@")[0]:
        return "dep-import-named-for-lower-version"
    return "import-dedup-by-interface-id"


def has_feature(spec):
    """non-triviality of a wiring: >= 2 instantiations and an argument or export that designates an instance (export)"""
    return len(spec["insts"]) >= 2 and any(re.search(r"\bn\d+\b", c) for _, _, args in spec["insts"] for _, _, c in args)
