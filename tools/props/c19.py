"""C19: the CLI does what the library does with the flags as documented.

Proof stage: coq/theories/props/C19.v over model/Cli.v and the GENERATED gen/CliTable.v.
Correspondence: the real `wac` binary (built from the current tree) is run over the full flag matrix of
compose / plug / parse / targets on the compositions of corpus/C19 (+ generated ones); the in-process library
results computed by harness/src/bin/c19.rs instantiate the stage oracles of the model, which is evaluated by one
coqc call on a generated cases.v (vm_compute, no extraction)."""
import hashlib
import itertools
import json
import os
import pty
import random
import re
import shutil
import subprocess
import termios
from concurrent.futures import ThreadPoolExecutor

import vlib

PID = "C19"

CLAIM = dict(
    text="Machine-checked Coq theorems over an executable model of the wac CLI plumbing (compose, plug, parse, "
         "targets) whose flag tables, flag->EncodeOptions mapping, terminal guard, --dep separator, plug prefix and "
         "plug grouping container are regenerated from src/commands/*.rs on every run: for ALL flag combinations and "
         "ALL stage behaviours (value/error/panic of every library, file-system, registry and terminal stage) the "
         "process exits 0 iff the documented library pipeline with the documented options succeeds and the sink "
         "accepts the result; a failing run writes nothing to stdout and no file; -o writes exactly the bytes "
         "otherwise sent to stdout; -t prints the text of that same component; dependencies are embedded unless "
         "--import-dependencies and validated unless --no-validate (stated against the generated table); the generated "
         "flag table equals the documented one. The model is tied to the built `wac` binary on every run by the full "
         "flag matrix over compositions failing at every stage, with byte-exact comparison against in-process library results.",
    design_ref="DESIGN.md §5 C19, §2.3 (gen_cli_table.py)",
    note="Trusted: Coq kernel; tools/gen/gen_cli_table.py (regex-level reader of table-like source fragments); the "
         "hand-written model Cli.v of the control flow of the four exec functions and of src/lib.rs, validated by "
         "correspondence; clap's argument matching is modelled by `accepts` and validated on the argv of every run; "
         "wasmprinter/wat round trip, registry and file system are oracles. Three findings of the first round were repaired (415d296 plug "
         "registration order, 9a9d9f7 default world, 9cbb1bc README --wit); the extra newline of text sent to stdout "
         "remains a known finding.",
    technique="Coq proof over generated tables + differential run of the real binary (vm_compute-evaluated model)")

# Findings established while building this check (see the final report of the builder). The main session decides
# whether they go to /verif/known-findings.json; until then they are honoured from here.
PROPOSED_KNOWN = [
    dict(property="C19", id="C19-plug-hash-order", status="known",
         signature="plug:hash-order",
         witness="wac plug --plug hello.wasm --plug plug-b.wasm --plug plug-c.wasm --plug plug-d.wasm socket4.wasm -o out.wasm (run 8 times)",
         text="src/commands/plug.rs groups plugs in a std HashMap and iterates it: with >= 2 differently named plugs the "
              "registration order, and with it the output bytes, depend on the per-process hash seed (several SHA-256 "
              "digests for one command line); the result is a permutation-variant of the library pipeline result, not "
              "the result for the command-line order. Repair: hooks/fix-c19-plug-order.patch (IndexMap)."),
    dict(property="C19", id="C19-targets-default-world", status="known",
         signature="targets:default-world:non-world-exports-counted",
         witness="wac targets hello.wasm --wit iface-and-world.wit   (one world `w`, one interface `api`)",
         text="`wac targets` without --world fails with 'wit package has multiple worlds' when the WIT package has exactly "
              "one world and also an interface: get_wit_world counts every export of the encoded package. --help says "
              "'If the wit package only has one world definition, this does not need to be specified'. "
              "Repair: hooks/fix-c19-targets-default-world.patch."),
    dict(property="C19", id="C19-readme-targets-wit", status="known",
         signature="readme:targets-positional-wit",
         witness="wac targets my-component.wasm my-wit.wit",
         text="README.md documents `wac targets my-component.wasm my-wit.wit`; the binary rejects it (exit 2, unexpected "
              "argument): the WIT path is the value of the required --wit option. Repair: hooks/fix-c19-readme-targets.patch."),
    dict(property="C19", id="C19-text-stdout-newline", status="known",
         signature="sink:text-stdout-trailing-newline",
         witness="wac compose -t x.wac  vs  wac compose -t -o f x.wac",
         text="With -t the bytes on stdout are the bytes -o would write plus one trailing newline (println!()), so '-o writes "
              "exactly the bytes otherwise sent to stdout' holds literally only for binary output. Interpretation candidate: "
              "the check accepts exactly one extra 0x0A after text on stdout and nothing else."),
]

CORPUS = os.path.join(vlib.ROOT, "corpus", PID)
WORK = os.path.join(vlib.BUILD, "c19", "work")
# One cargo target directory PER SOURCE ROOT. Cargo names the artifacts of a workspace member independently of the
# absolute path of the workspace and records its sources relative to the package root, so a target directory shared
# between /repo and a scratch worktree (VERIF_REPO) can hand back the other tree's binary as "fresh".
# Scratch directories (build/cli-target-<hash>) are ~2 GB each: remove them together with the scratch worktree.
CLI_TARGET = os.path.join(vlib.BUILD, "cli-target" if vlib.REPO == "/repo" else
                          "cli-target-" + hashlib.sha256(os.path.realpath(vlib.REPO).encode()).hexdigest()[:8])
WAC = os.path.join(CLI_TARGET, "debug", "wac")


# ------------------------------------------------------------------ helpers

def known_entries():
    ents = {e["id"]: e for e in PROPOSED_KNOWN}
    for e in vlib.load_known(PID):
        ents[e.get("id")] = e          # the registered file overrides the local proposal (e.g. status "fixed")
    return {e["signature"]: e for e in ents.values() if e.get("status") == "known"}


def sha(b):
    return hashlib.sha256(b).hexdigest()


def build_cli():
    with vlib.Lock("cargo-cli"):
        cmd = (f"cargo build --offline --manifest-path {vlib.REPO}/Cargo.toml --bin wac --target-dir {CLI_TARGET}")
        return vlib.sh(cmd, timeout=2400)


def cli_env():
    home = os.path.join(WORK, "home")
    os.makedirs(home, exist_ok=True)
    return dict(PATH=os.environ.get("PATH", "/usr/bin:/bin"), HOME=home, RUST_BACKTRACE="0", NO_COLOR="1",
                XDG_CONFIG_HOME=os.path.join(home, ".config"), XDG_CACHE_HOME=os.path.join(home, ".cache"))


def run_cli(argv, tty=False, timeout=120):
    """Run the real binary. Returns dict(rc, out, err)."""
    env = cli_env()
    if not tty:
        try:
            p = subprocess.run([WAC] + argv, cwd=WORK, env=env, stdin=subprocess.DEVNULL,
                               stdout=subprocess.PIPE, stderr=subprocess.PIPE, timeout=timeout)
            return dict(rc=p.returncode, out=p.stdout, err=p.stderr)
        except subprocess.TimeoutExpired:
            return dict(rc=-9, out=b"", err=b"TIMEOUT")
    m, s = pty.openpty()
    a = termios.tcgetattr(s)
    a[1] = a[1] & ~termios.OPOST          # no \n -> \r\n translation
    termios.tcsetattr(s, termios.TCSANOW, a)
    p = subprocess.Popen([WAC] + argv, cwd=WORK, env=env, stdin=subprocess.DEVNULL, stdout=s, stderr=subprocess.PIPE)
    os.close(s)
    out = b""
    while True:
        try:
            d = os.read(m, 65536)
        except OSError:
            break
        if not d:
            break
        out += d
    err = p.stderr.read()
    rc = p.wait()
    os.close(m)
    return dict(rc=rc, out=out, err=err)


def harness(jobs, tag):
    jp = os.path.join(WORK, f"jobs-{tag}.json")
    rp = os.path.join(WORK, f"res-{tag}.json")
    json.dump(jobs, open(jp, "w"))
    rc, out = vlib.sh(f"{vlib.hbin('c19')} {jp} {rp}", timeout=1200)
    if rc != 0:
        raise RuntimeError("harness c19 failed: " + out[-2000:])
    return json.load(open(rp))


def coq_str(s):
    return "[" + ";".join(str(ord(c)) for c in s) + "]"


def coq_opt(s):
    return "None" if s is None else f"(Some {coq_str(s)})"


def coq_list(xs):
    return "[" + "; ".join(xs) + "]"


def dec_toks(t):
    """'-' or '49,50' -> list of ints."""
    return [] if t in ("-", "") else [int(x) for x in t.split(",")]


def dec_text(t):
    return "".join(chr(x) for x in dec_toks(t))


GEN_TABLE = os.path.join(vlib.COQ, "theories", "gen", "CliTable.v")
MY_TABLE = os.path.join(vlib.BUILD, "c19", "CliTable.expected.v")


LASTGOOD_TABLE = os.path.join(vlib.ROOT, "tools", "gen", "CliTable.lastgood.v")
TABLE_STATE = dict(error=None, model_tie=None)


def my_table():
    """The table for vlib.REPO, written to a private file (the shared gen/ file may be regenerated at any time by a
    concurrently running check of another property, possibly for another VERIF_REPO).  If the translator cannot read
    the sources the LAST GOOD table (committed snapshot tools/gen/CliTable.lastgood.v, else the gen/ file on disk) is
    used, so that the correspondence and the property predicate still run; the failure is a broken tie."""
    os.makedirs(os.path.dirname(MY_TABLE), exist_ok=True)
    rc, out = vlib.sh("python3 " + os.path.join(vlib.ROOT, "tools", "gen", "gen_cli_table.py"),
                      env=dict(vlib.ENV, VERIF_CLI_TABLE_OUT=MY_TABLE), timeout=120)
    if rc == 0:
        TABLE_STATE["error"] = None
        return open(MY_TABLE).read()
    TABLE_STATE["error"] = out.strip()[-1500:]
    for p in (LASTGOOD_TABLE, GEN_TABLE):
        if os.path.exists(p):
            return open(p).read()
    raise RuntimeError("translator failed and there is no last good table: " + out[-1500:])


PRIVATE_FILES = ["lib/Str.v", "lib/Show.v", "lib/Ord.v", "model/Semver.v", "model/CliTypes.v", "gen/CliTable.v",
                 "model/Cli.v", "model/CliWorlds.v", "spec/CliSpec.v"]


def private_model(want_table):
    """Compile a private copy of the model (with the given table) under build/c19/coq, so that the
    evaluation cannot be disturbed by a concurrent regeneration of the shared gen/CliTable.v. Cached by content."""
    pd = os.path.join(vlib.BUILD, "c19", "coq")
    texts = {}
    for rel in PRIVATE_FILES:
        texts[rel] = want_table if rel == "gen/CliTable.v" else open(os.path.join(vlib.COQ, "theories", rel)).read()
    key = hashlib.sha256("\0".join(rel + "\0" + texts[rel] for rel in PRIVATE_FILES).encode()).hexdigest()
    stamp = os.path.join(pd, "stamp")
    if os.path.exists(stamp) and open(stamp).read() == key:
        return pd
    shutil.rmtree(pd, ignore_errors=True)
    for rel in PRIVATE_FILES:
        os.makedirs(os.path.dirname(os.path.join(pd, "theories", rel)), exist_ok=True)
        open(os.path.join(pd, "theories", rel), "w").write(texts[rel])
    for rel in PRIVATE_FILES:
        rc, out = vlib.sh(f"timeout 600 coqc -Q theories WacV -w -all theories/{rel}", cwd=pd, timeout=630)
        if rc != 0:
            raise RuntimeError(f"private model build failed at {rel}: " + out[-3000:])
    open(stamp, "w").write(key)
    return pd


def coq_eval(exprs):
    """Evaluate Coq terms of type str with vm_compute in one coqc call; returns the decoded strings."""
    d = os.path.join(vlib.BUILD, "c19")
    src = ["From WacV Require Import Str Show CliTypes CliTable Semver Cli CliWorlds CliSpec.",
           "Set Printing Depth 10000000.", "Set Printing Width 100000."]
    for e in exprs:
        src.append(f"Eval vm_compute in ({e}).")
    open(os.path.join(d, "cases.v"), "w").write("\n".join(src) + "\n")
    try:
        pd = private_model(my_table())
    except RuntimeError as e:
        # the model does not compile against the table of the current sources: evaluate with the last good table
        TABLE_STATE["model_tie"] = str(e)[-2500:]
        if not os.path.exists(LASTGOOD_TABLE):
            raise
        TABLE_STATE["error"] = TABLE_STATE["error"] or "model/Cli.v does not compile against the table generated from the current sources"
        pd = private_model(open(LASTGOOD_TABLE).read())
    rc, out = vlib.sh(f"timeout 900 coqc -Q {pd}/theories WacV -w -all {d}/cases.v", cwd=d, timeout=930)
    if rc != 0:
        raise RuntimeError("coqc on cases.v failed: " + out[-3000:])
    vals = re.findall(r"=\s*(\[[^\]]*\])\s*:\s*(?:str|list N)", out, re.S)
    if len(vals) != len(exprs):
        raise RuntimeError(f"cases.v: {len(exprs)} evaluations, {len(vals)} results parsed")
    res = []
    for v in vals:
        body = v.strip()[1:-1].strip()
        res.append("" if not body else "".join(chr(int(x)) for x in re.split(r"\s*;\s*", body)))
    return res


def norm_ws(b):
    s = b.decode("utf-8", "replace") if isinstance(b, bytes) else b
    return re.sub(r"[\s│╰─▶×]+", " ", s)


# ------------------------------------------------------------------ scenarios

COMPONENTS = ["hello", "greeter", "foo-bar", "bar-baz", "merge-instance", "merge-func", "plug-b", "plug-c", "plug-d",
              "socket4", "core-module"]


def comp(n):
    return os.path.join(WORK, "comp", n + ".wasm")


def setup_work():
    shutil.rmtree(WORK, ignore_errors=True)
    os.makedirs(os.path.join(WORK, "comp"))
    jobs = [dict(op="assemble", wat=os.path.join(CORPUS, "components", c + ".wat"), out=comp(c)) for c in COMPONENTS]
    rs = harness(jobs, "assemble")
    bad = [c for c, r in zip(COMPONENTS, rs) if r.get("st") != "ok"]
    if bad:
        raise RuntimeError(f"corpus components do not assemble: {bad}")

    def put(src, *dst):
        p = os.path.join(WORK, *dst)
        os.makedirs(os.path.dirname(p), exist_ok=True)
        shutil.copy(src, p)
    # deps directories
    put(comp("hello"), "deps", "example", "hello.wasm")
    put(comp("greeter"), "deps", "example", "greeter.wasm")
    put(comp("foo-bar"), "deps", "foo", "bar.wasm")
    put(comp("bar-baz"), "deps", "bar", "baz.wasm")
    # package names with more than two ':' segments: one directory per segment (README: deps/<namespace>/<package>.wasm)
    put(comp("hello"), "deps", "acme", "util", "hello.wasm")
    put(comp("greeter"), "deps", "acme", "util", "greeter.wasm")
    put(comp("greeter"), "deps", "acme", "util", "more", "greeter.wasm")
    put(comp("foo-bar"), "deps", "acme", "util", "more", "bar.wasm")
    put(os.path.join(CORPUS, "wit", "types", "api.wit"), "deps", "example", "types", "api.wit")
    put(comp("merge-instance"), "deps-merge", "foo", "bar.wasm")
    put(comp("merge-func"), "deps-merge", "bar", "baz.wasm")
    put(comp("core-module"), "deps-bad", "example", "hello.wasm")
    put(comp("greeter"), "deps-bad", "example", "greeter.wasm")
    os.makedirs(os.path.join(WORK, "deps-empty"))
    open(os.path.join(WORK, "garbage.wasm"), "wb").write(b"this is not wasm")
    open(os.path.join(WORK, "invalid-utf8.wac"), "wb").write(b"package a:b;\n\xff\xfe\n")
    # plugs with equal stems in different directories
    put(comp("hello"), "pa", "same.wasm")
    put(comp("plug-b"), "pb", "same.wasm")
    put(comp("plug-c"), "same1.wasm")
    os.makedirs(os.path.join(WORK, "out"))


def wacf(n):
    return os.path.join(CORPUS, "wac", n + ".wac")


def compose_scenarios(tier, seed):
    S = []

    def add(name, wac, deps_dir="deps", deps=(), registry=None):
        S.append(dict(name=name, wac=wac, deps_dir=deps_dir, deps=list(deps), registry=registry))
    add("ok-embed", wacf("ok-embed"))
    add("ok-implicit", wacf("ok-implicit"))
    add("ok-witdir", wacf("ok-witdir"))
    add("ok-nested-ns", wacf("ok-nested-ns"))
    add("ok-nested-ns-mixed", wacf("ok-nested-ns-mixed"))
    add("ok-nested-ns-four", wacf("ok-nested-ns-four"))
    add("fail-nested-ns-missing", wacf("fail-nested-ns-missing"))
    add("ok-dep-flags", wacf("ok-embed"), "deps-empty",
        ["example:hello=" + comp("hello"), " example:greeter\t= " + comp("greeter") + "  "])
    add("ok-dep-last-wins", wacf("ok-embed"), "deps-empty",
        ["example:hello=" + os.path.join(WORK, "garbage.wasm"), "example:greeter=" + comp("greeter"),
         "example:hello=" + comp("hello")])
    add("ok-dep-overrides-dir", wacf("ok-embed"), "deps-bad", ["example:hello=" + comp("hello")])
    add("fail-read-missing", os.path.join(WORK, "no-such-file.wac"))
    add("fail-read-utf8", os.path.join(WORK, "invalid-utf8.wac"))
    add("fail-parse", wacf("fail-parse"))
    add("fail-discover", wacf("fail-discover"))
    add("fail-missing-dep", wacf("fail-missing"))
    add("fail-dep-path-missing", wacf("ok-embed"), "deps", ["example:hello=" + os.path.join(WORK, "nope.wasm")])
    add("fail-dep-first-eq", wacf("ok-embed"), "deps-empty",
        ["example:hello=" + comp("hello"), "example:greeter=" + comp("greeter") + "=x"])
    add("fail-resolve-undefined", wacf("fail-resolve-undefined"))
    add("fail-resolve-type", wacf("fail-resolve-type"))
    add("fail-resolve-bad-dep", wacf("ok-embed"), "deps-bad")
    add("fail-encode", wacf("fail-encode"), "deps-merge")
    add("fail-registry-flag", wacf("ok-embed"), "deps", [], "http://127.0.0.1:9")
    n_gen = 6 if tier == "quick" else 60
    S += generated_compositions(n_gen, seed)
    return S


def generated_compositions(n, seed):
    """Compositions built from the corpus components by a seeded generator: a random subset of instantiations,
    random wiring, then possibly one injected fault (syntax, unknown package, undefined name, wrong argument kind,
    unmergeable implicit imports). Where a composition fails is decided by the library, not assumed here."""
    r = random.Random(seed * 7919 + 19)
    out = []
    gd = os.path.join(WORK, "gen")
    os.makedirs(gd, exist_ok=True)
    for i in range(n):
        lines = ["package gen:comp%d;" % i, ""]
        fault = r.choice(["none", "none", "none", "syntax", "unknown-pkg", "undefined", "kind", "merge", "self"])
        use_hello = r.random() < 0.8
        use_greeter = r.random() < 0.8
        use_foo = r.random() < 0.5
        nested = r.random() < 0.35
        if use_hello:
            lines.append("let h = new %s {};" % ("acme:util:hello" if nested else "example:hello"))
        if use_greeter:
            if use_hello and r.random() < 0.7:
                arg = "h" if fault == "kind" else "h.hello"
                lines.append("let g = new %s { hello: %s };" % (r.choice(["acme:util:greeter", "acme:util:more:greeter"]) if nested else "example:greeter", arg))
            else:
                lines.append("let g = new %s { ... };" % ("acme:util:greeter" if nested else "example:greeter"))
            lines.append("export g.greet;")
        if use_foo:
            lines.append("let x = new foo:bar { ... };")
            if r.random() < 0.5:
                lines.append("let y = new bar:baz { foo: x };")
            lines.append("export x.foo;" if not use_greeter or r.random() < 0.5 else "export x.foo as \"other\";")
        if use_hello and not use_greeter:
            lines.append("export h.hello;")
        if not (use_hello or use_greeter or use_foo):
            lines.append("import f: func();")
            lines.append("export f as \"g\";")
        if fault == "syntax":
            k = r.randrange(2, len(lines))
            lines[k] = lines[k].replace(";", "", 1) if r.random() < 0.5 else "let = " + lines[k]
        elif fault == "unknown-pkg":
            lines.append("let z = new example:missing%d { ... };" % r.randrange(3))
        elif fault == "undefined":
            lines.append("export nothing%d.x;" % r.randrange(3))
        elif fault == "self":
            lines.append("let me = new gen:comp%d {};" % i)
        deps_dir, deps = "deps", []
        if fault == "merge":
            deps_dir = "deps-merge"
            lines = ["package gen:comp%d;" % i, "", "let a = new foo:bar { ... };", "let b = new bar:baz { ... };"]
        elif not nested and r.random() < 0.4:
            deps_dir = "deps-empty"
            pad = lambda: r.choice(["", " ", "\t", "  "])
            for pkg, c in (("example:hello", "hello"), ("example:greeter", "greeter"), ("foo:bar", "foo-bar"), ("bar:baz", "bar-baz")):
                if r.random() < 0.9:
                    deps.append(pad() + pkg + pad() + "=" + pad() + comp(c) + pad())
        p = os.path.join(gd, "gen%d.wac" % i)
        open(p, "w").write("\n".join(lines) + "\n")
        out.append(dict(name="gen%d-%s" % (i, fault), wac=p, deps_dir=deps_dir, deps=deps, registry=None))
    return out


def py_parse_dep(s):
    """Mirror of parse_dep, cross-checked against the model on every value."""
    if "=" not in s:
        return None
    k, v = s.split("=", 1)
    return k.strip(), v.strip()


SWITCHES = list(itertools.product([False, True], repeat=3))     # (no_validate, wat, import_dependencies)

# What the -o path holds BEFORE the run: nothing, something longer than any output, something shorter.
LONGER = (b"previous content of the output file; none of these bytes may survive the run\n" * 128) + bytes(range(256)) * 8
SHORTER = b"old"
PRE_STATES = [("fresh", None), ("longer", LONGER), ("shorter", SHORTER)]


def precreate(runs):
    for rn in runs:
        if rn.get("out") and rn.get("pre") is not None:
            open(rn["out"], "wb").write(rn["pre"])


def compose_argv(sc, sw, out_path, r):
    nv, wat, imp = sw
    parts = []
    dd = os.path.join(WORK, sc["deps_dir"])
    parts.append(["--deps-dir", dd] if r.random() < 0.5 else ["--deps-dir=" + dd])
    for d in sc["deps"]:
        parts.append([r.choice(["--dep", "-d"]), d])
    if sc.get("registry"):
        parts.append(["--registry", sc["registry"]])
    if nv:
        parts.append(["--no-validate"])
    if wat:
        parts.append([r.choice(["-t", "--wat"])])
    if imp:
        parts.append([r.choice(["-i", "--import-dependencies"])])
    if out_path:
        parts.append([r.choice(["-o", "--output"]), out_path])
    parts.append([sc["wac"]])
    r.shuffle(parts)
    # the relative order of the --dep values is significant (a later one replaces an earlier one): restore it
    dep_pos = [i for i, p in enumerate(parts) if p[0] in ("--dep", "-d")]
    for i, d in zip(dep_pos, sc["deps"]):
        parts[i] = [parts[i][0], d]
    return ["compose"] + [x for p in parts for x in p]


def st_code(st):
    return {"ok": 0, "err": 1, "panic": 2}[st]


def ccase_of(lib, write_ok=True, tty=False, registry=None):
    """Instantiate the stage oracles of the model from the in-process library results."""
    def code(k):
        return st_code(lib[k]["st"]) if k in lib else 0
    fs = code("fs")
    if "fs" in lib and lib["fs"]["st"] == "ok" and lib["fs"].get("missing"):
        fs = 3
    enc = {}
    for key in ("11", "10", "01", "00"):
        e = lib.get("encode", {}).get(key)
        enc[key] = 0 if e is None else {"err": 0, "panic": 1}.get(e["st"], None)
    # tokens: 2..5 for the four option pairs
    tok = {"11": 2, "10": 3, "01": 4, "00": 5}
    for key in enc:
        if enc[key] is None:
            enc[key] = tok[key]
    pr = 0
    for key in ("11", "10", "01", "00"):
        e = lib.get("encode", {}).get(key)
        if e and e["st"] == "ok" and e["print"]["st"] != "ok":
            pr = st_code(e["print"]["st"])
    # registry: unreachable in the check environment (no network, empty HOME): creation fails
    return ("(mk_ccase %d %d 1 1 %d %d 1 %d %d %d %d %d %d %s %s)" % (
        code("read"), code("parse"), code("discover"), fs, code("resolve"),
        enc["11"], enc["10"], enc["01"], enc["00"], pr, "true" if write_ok else "false", "true" if tty else "false"))


def cflags_of(sc, sw, out_path):
    nv, wat, imp = sw
    return "(mk_cf %s %s (mk_sw %s %s %s) %s %s %s)" % (
        coq_str(os.path.join(WORK, sc["deps_dir"])), coq_list([coq_str(d) for d in sc["deps"]]),
        str(nv).lower(), str(wat).lower(), str(imp).lower(), coq_opt(out_path), coq_opt(sc.get("registry")),
        coq_str(sc["wac"]))


def parse_model_outcome(line):
    """'<exit> <ok|Fx|Px> <stdout toks> <file>' -> dict."""
    f = line.split(" ")
    d = dict(exit=int(f[0]), status=f[1], stdout=dec_toks(f[2]))
    if f[3] == "-":
        d["file"] = None
    else:
        p, b = f[3].split(":")
        d["file"] = (dec_text(p), dec_toks(b))
    return d


STAGE_MSG = {
    "U": None, "R": "failed to read file", "P": "failed to parse document", "T": "cannot print binary wasm output to a terminal",
    "W": "failed to write output file", "N": "registry", "D": "failed to resolve document", "F": "failed to resolve document",
    "S": "failed to resolve document", "K": "unknown package", "G": "registry",
    "n": "was not a file", "r": "failed to read socket component", "l": None, "v": None, "w": None, "d": None, "c": "failed to read file",
    "o": None, "p": None, "g": None, "a": None, "f": None, "E": None, "X": "failed to convert binary wasm output to text", "j": None,
}


class Bag:
    """Collects per-case verdicts."""

    def __init__(self):
        self.cases = 0
        self.nontrivial = set()
        self.disagree = []      # model vs implementation
        self.spec_fail = []     # specification predicate fails on the implementation's own observation
        self.known_hits = {}    # signature -> example text
        self.samples = []
        self.kinds = {}

    def count(self, kind):
        self.cases += 1
        self.kinds[kind] = self.kinds.get(kind, 0) + 1


def tokens_to_bytes(toks, table):
    out = b""
    for t in toks:
        if t == 10:
            out += b"\n"
        else:
            out += table[t]
    return out


# ------------------------------------------------------------------ the run

def run(res, tier, seed, replay):
    # one run at a time: the work directory and the cli target directory are shared
    with vlib.Lock("c19-run"):
        try:
            _run(res, tier, seed, replay)
        except Exception as e:      # never let a machinery failure escape: report it and keep the evidence file valid
            import traceback
            res.violation(dict(kind="machinery-error", what=repr(e), trace=traceback.format_exc()[-3000:]), no_input=True)
            if getattr(res, "proof_broken", None):
                res.violation(res.proof_broken, no_input=True)
            if not res.coverage.get("correspondence_cases"):
                fill_min(res)


def _run(res, tier, seed, replay):
    import time
    t0 = time.time()
    phases = {}

    def lap(name):
        nonlocal t0
        phases[name] = round(time.time() - t0, 1)
        t0 = time.time()
    pr = vlib.proof_stage(res, PID)
    pr = restate_proof_against_my_table(res, pr)
    name_broken_statement(res)
    lap("proof_stage")
    rc, out = build_cli()
    if rc != 0:
        res.violation(dict(kind="broken-tie", what="the wac binary does not build from the current tree", log=out[-3000:]),
                      no_input=True)
        fill_min(res)
        return
    ok, log = vlib.cargo_build(["c19"])
    if not ok:
        res.violation(dict(kind="broken-tie", what="harness does not build against the repository", log=log[-3000:]),
                      no_input=True)
        fill_min(res)
        return
    # (the model is evaluated from a private compiled copy, see private_model; a broken proof does not stop the run)
    lap("builds")
    only = None
    if replay:
        rp = json.load(open(replay))
        only = set(rp.get("case_ids") or ([rp["case_id"]] if "case_id" in rp else []))
    setup_work()
    known = known_entries()
    bag = Bag()
    r = random.Random(seed)
    exprs = []          # Coq terms to evaluate
    pending = []        # (kind, info) in the order of exprs consumption

    def want(expr):
        exprs.append(expr)
        return len(exprs) - 1

    # ---------------- compose: library side
    scs = compose_scenarios(tier, seed)
    jobs = []
    for sc in scs:
        pd = [py_parse_dep(d) for d in sc["deps"]]
        sc["parsed_deps"] = pd
        jobs.append(dict(op="compose", wac=sc["wac"], deps_dir=os.path.join(WORK, sc["deps_dir"]),
                         deps=[list(x) for x in pd if x is not None], outdir=os.path.join(WORK, "lib", sc["name"])))
    libs = harness(jobs, "compose")
    # ---------------- compose: CLI matrix
    runs = []
    for sc, lib in zip(scs, libs):
        sc["lib"] = lib
        for sw in SWITCHES:
            for sink in ("file", "pipe"):
                cid = "compose/%s/%d%d%d/%s" % (sc["name"], *map(int, sw), sink)
                if only is not None and cid not in only:
                    continue
                outp = os.path.join(WORK, "out", hashlib.md5(cid.encode()).hexdigest()[:10] + (".wat" if sw[1] else ".wasm")) \
                    if sink == "file" else None
                # with and without -t every composition sees a fresh, a longer and a shorter pre-existing -o file
                pre_name, pre = PRE_STATES[(2 * int(sw[0]) + int(sw[2]) + 1) % 3] if sink == "file" else ("-", None)
                runs.append(dict(id=cid, kind="compose", sc=sc, sw=sw, sink=sink, out=outp, tty=False, pre=pre, pre_name=pre_name,
                                 argv=compose_argv(sc, sw, outp, r)))
    # terminal runs (stdout is a pty): guard, text to terminal, guard before encode, unwritable -o
    for name, sw in (("ok-embed", (False, False, False)), ("ok-embed", (False, True, False)), ("fail-encode", (False, False, False)),
                     ("fail-encode", (False, True, True)), ("fail-parse", (False, False, False))):
        sc = next(s for s in scs if s["name"] == name)
        cid = "compose-tty/%s/%d%d%d" % (name, *map(int, sw))
        if only is None or cid in only:
            runs.append(dict(id=cid, kind="compose", sc=sc, sw=sw, sink="tty", out=None, tty=True, argv=compose_argv(sc, sw, None, r)))
    sc = next(s for s in scs if s["name"] == "ok-embed")
    for sw in ((False, False, False), (False, True, False)):
        cid = "compose-unwritable/%d%d%d" % tuple(map(int, sw))
        if only is None or cid in only:
            outp = os.path.join(WORK, "no-such-dir", "x.wasm")
            runs.append(dict(id=cid, kind="compose", sc=sc, sw=sw, sink="file", out=outp, tty=False, write_ok=False,
                             argv=compose_argv(sc, sw, outp, r)))
    for rn in runs:
        rn["model_ix"] = want("show_outcome (compose_in (world_of_ccase %s) %s)" % (
            ccase_of(rn["sc"]["lib"], rn.get("write_ok", True), rn["tty"]), cflags_of(rn["sc"], rn["sw"], rn["out"])))
        rn["accept_ix"] = want("show_bool (accepts cli_flags %s)" % coq_list([coq_str(a) for a in rn["argv"]]))
    dep_ix = {}
    for sc in scs:
        for d in sc["deps"]:
            if d not in dep_ix:
                dep_ix[d] = want("show_opt_pair (parse_dep %s)" % coq_str(d))

    # ---------------- plug
    plug_runs, plug_scs = plug_matrix(only, r, want)
    # ---------------- parse
    parse_runs = []
    seen_wac = set()
    for sc in scs:
        if sc["wac"] in seen_wac:
            continue
        seen_wac.add(sc["wac"])
        cid = "parse/" + sc["name"]
        if only is not None and cid not in only:
            continue
        lib = sc["lib"]
        rd, ps = st_code(lib["read"]["st"]), st_code(lib.get("parse", {"st": "ok"})["st"])
        parse_runs.append(dict(id=cid, kind="parse", sc=sc, argv=["parse", sc["wac"]],
                               model_ix=want("show_outcome (parse_in (world_of_acase (mk_acase %d %d 0)) %s)" % (rd, ps, coq_str(sc["wac"]))),
                               accept_ix=want("show_bool (accepts cli_flags %s)" % coq_list([coq_str(a) for a in ["parse", sc["wac"]]]))))
    # ---------------- targets
    target_runs = targets_matrix(only, want)
    # ---------------- usage (clap) matrix
    usage_runs = usage_matrix(only, want)

    lap("library_side")
    # ---------------- execute everything
    all_runs = runs + plug_runs + parse_runs + target_runs + usage_runs
    precreate(all_runs)
    with ThreadPoolExecutor(max_workers=16) as ex:
        obs = list(ex.map(lambda rn: run_cli(rn["argv"], tty=rn.get("tty", False)), all_runs))
    for rn, o in zip(all_runs, obs):
        rn["obs"] = o
        if rn.get("out"):
            rn["obs"]["file"] = open(rn["out"], "rb").read() if os.path.exists(rn["out"]) else None
    # plug needs the observation to pick the hash order before the model can be evaluated
    lap("cli_runs")
    plug_after_obs(plug_runs, plug_scs, want)
    vals = coq_eval(exprs)
    lap("model_eval")
    if TABLE_STATE["model_tie"]:
        res.violation(dict(kind="broken-tie", what="model/Cli.v does not compile against the table generated from the current "
                           "sources; the correspondence was evaluated with the last good table", log=TABLE_STATE["model_tie"]), no_input=True)

    # ---------------- judge
    for d, ix in dep_ix.items():
        m = vals[ix]
        p = py_parse_dep(d)
        mm = None if m == "!" else tuple(dec_text(x) for x in m.split("|"))
        if mm != p:
            bag.disagree.append(dict(case_id="dep/" + d, what="--dep parsing: the matrix driver and the model disagree",
                                     value=d, model=mm, driver=p))
    judge_compose(runs, vals, bag, known)
    judge_plug(plug_runs, plug_scs, vals, bag, known)
    judge_parse(parse_runs, vals, bag)
    judge_targets(target_runs, vals, bag, known)
    judge_usage(usage_runs, vals, bag, known)
    digest_check(bag, known, only)
    lap("judging")

    # which stage each composition stops at in process (distribution written to the evidence file), and whether any
    # composition encodes without validation to bytes that the validator rejects (a validation-stage failure)
    stage_hist, invalid_unvalidated = {}, []
    for sc in scs:
        lib = sc["lib"]
        stop = "success"
        for stg in ("read", "parse", "discover", "fs", "resolve"):
            if lib.get(stg, {}).get("st", "ok") != "ok" or (stg == "fs" and lib.get("fs", {}).get("missing")):
                stop = stg if stg != "fs" or lib["fs"]["st"] != "ok" else "missing-package"
                break
            if stg not in lib:
                break
        else:
            encs = lib.get("encode", {})
            if encs and all(e["st"] != "ok" for e in encs.values()):
                stop = "encode"
            elif encs and any(e["st"] != "ok" for e in encs.values()):
                stop = "encode(some options)"
            for key in ("10", "00"):
                e = encs.get(key)
                if e and e["st"] == "ok" and not e.get("valid", True):
                    invalid_unvalidated.append(sc["name"])
        stage_hist[stop] = stage_hist.get(stop, 0) + 1
    # ---------------- evidence + outcome
    res.coverage.update(dict(
        correspondence_cases=bag.cases, evaluations=bag.cases, case_kinds=bag.kinds, phase_seconds=phases,
        generated_table=("current sources" if not TABLE_STATE["error"] else
                         "LAST GOOD table (tools/gen/CliTable.lastgood.v): the translator could not read the current sources: "
                         + TABLE_STATE["error"][-400:]),
        compositions=len(scs), compositions_by_stopping_stage=stage_hist,
        compositions_failing_only_at_validation=sorted(set(invalid_unvalidated)),
        disagreements=len(bag.disagree), spec_failures_on_impl=len(bag.spec_fail),
        distinct_nontrivial=len(bag.nontrivial),
        rule="every case is one execution of the built wac binary. compose: %d compositions (corpus/C19 + seeded generator) x "
             "2^3 switches (--no-validate, -t, --import-dependencies) x {-o file, stdout pipe}, the -o path being absent / holding a "
             "longer file / holding a shorter file before the run (each composition sees all three, with and without -t), plus pty "
             "runs (terminal guard) and an unwritable -o; dependencies with 2, 3 and 4 ':' segments from --deps-dir, the reference "
             "package map being read from the documented locations by the harness itself; plug: plug sets x {-t} x {-o fresh, "
             "-o over longer, -o over shorter, pipe}, 8 repetitions of one 4-plug command line (digests); "
             "parse: every composition; targets: component x WIT x --world; clap: README lines and malformed command lines. "
             "Compared byte-exactly with in-process library results (harness bin c19) and with the vm_compute-evaluated model. "
             "non-trivial = distinct (command, inputs, flags, sink) whose library pipeline got past parsing the arguments and "
             "the source (i.e. exercised package resolution or a later stage) -- counted from the harness stage tables"
             % len(scs),
        samples=bag.samples[:6],
        known_findings_seen=sorted(bag.known_hits),
        trusted_base=vlib.TRUSTED_COMMON[:2] + [
            "cases.v evaluated by coqc/vm_compute (no extraction, no OCaml driver for this property)",
            "tools/gen/gen_cli_table.py reads clap attributes, the EncodeOptions literal, the terminal-guard condition, fn parse<T,U>, "
            "the plugs_by_name container, get_wit_world's default arms and README code blocks with regular expressions; unknown shapes abort",
            "model/Cli.v (control flow of ComposeCommand/PlugCommand/ParseCommand/TargetsCommand::exec, PackageResolver::resolve, "
            "PackageRef::from_str, Path::file_stem, str::trim) is hand-written; tied by this correspondence",
            "stage oracles: Document::parse/resolve, packages(), FileSystemPackageResolver, Resolution::encode, CompositionGraph, "
            "wac_graph::plug, wasmprinter, wit-parser/wit-component, validate_target, fs, registry, is_terminal -- instantiated per "
            "case from in-process library calls (harness/src/bin/c19.rs, built against the current tree)",
            "clap 4 argument matching is modelled by Cli.accepts (validated on every argv of the run, exit code 2 iff rejected)",
            "registry stages are instantiated as 'error': the check environment has no network and an empty HOME",
            "a failed fs::write is modelled as leaving no file; stdout is assumed writable",
            "Rust harness crate /verif/harness built against the current tree; tools/vlib.py + tools/props/c19.py"]))
    res.assumptions = [
        "text emitted with -t is compared after re-assembly: valid, same top-level imports/exports, identical re-printed text",
        "error messages are compared by class (stage headline / library message head), never literally",
        "hash iteration order of plugs_by_name is an oracle; the order used by a run is inferred from its output bytes",
    ]
    for sig, txt in sorted(bag.known_hits.items()):
        res.known.append(f"id={known[sig].get('id')} signature={sig} {txt}")
    # one witness per kind of failure (subcommand x first words of the reason), at most 8
    picked, seen_kinds = [], set()
    for f in bag.spec_fail:
        k = (f.get("case_id", "").split("/")[0], re.sub(r"[0-9]+", "N", f.get("what", ""))[:48])
        if k not in seen_kinds:
            seen_kinds.add(k)
            picked.append(f)
    for f in picked[:8]:
        res.violation(dict(kind="property-fails-on-implementation", proof_status=(res.proof_broken or {}).get("what", "all theorems check"), **f))
    if not bag.spec_fail:
        if bag.disagree:
            res.violation(dict(kind="correspondence-broken", n=len(bag.disagree),
                               correspondence="model/Cli.v + gen/CliTable.v vs the wac binary", **bag.disagree[0]), no_input=True)
        if res.proof_broken:
            res.violation(res.proof_broken, no_input=True)


def restate_proof_against_my_table(res, pr):
    """gen/CliTable.v is shared by all checks. When this check runs for a scratch worktree (VERIF_REPO) while checks of
    other properties run for /repo, they regenerate the table for /repo under our feet. Re-run the proof build until
    the table it was compiled against is the one of OUR repository path."""
    want_table = my_table()
    if vlib.REPO == "/repo" and open(GEN_TABLE).read() == want_table:
        return pr
    for attempt in range(4):
        if open(GEN_TABLE).read() != want_table:
            open(GEN_TABLE, "w").write(want_table)
        pr = vlib.coq_props(PID)
        if open(GEN_TABLE).read() == want_table:
            break
    else:
        res.violation(dict(kind="machinery-error", what="gen/CliTable.v keeps being regenerated for another repository path"), no_input=True)
    res.coverage["discharged"] = len([t for t in pr["theorems"] if t in pr["closed"]]) if pr["ok"] else 0
    res.proof_table_repo = vlib.REPO
    if not pr["ok"]:
        res.proof_broken = dict(kind="proof-broken", what=f"Coq build failed at {pr['failing']}", log=pr["log"][-4000:])
    elif pr["open"]:
        res.proof_broken = dict(kind="assumptions", what="theorem depends on axioms / no Print Assumptions", detail=pr["open"])
    else:
        res.proof_broken = None
    return pr


def name_broken_statement(res):
    """Turn 'Coq build failed at file:line' into the name of the lemma and of the property theorems resting on it."""
    pb = getattr(res, "proof_broken", None)
    if not pb or pb.get("kind") != "proof-broken":
        return
    m = re.search(r"at (theories/\S+\.v):(\d+)", pb.get("what", ""))
    if not m:
        return
    try:
        lines = open(os.path.join(vlib.COQ, m.group(1))).read().split("\n")[:int(m.group(2))]
    except OSError:
        return
    name = None
    for ln in lines:
        mm = re.match(r"\s*(?:Lemma|Theorem|Example|Definition|Fixpoint)\s+([A-Za-z0-9_']+)", ln)
        if mm:
            name = mm.group(1)
    if not name:
        return
    users = []
    try:
        src = open(os.path.join(vlib.COQ, "theories", "props", PID + ".v")).read()
        for blk in re.findall(r"Theorem\s+([A-Za-z0-9_']+).*?Qed\.", src, re.S):
            pass
        for tm in re.finditer(r"Theorem\s+([A-Za-z0-9_']+)(.*?)Qed\.", src, re.S):
            if re.search(r"\b" + re.escape(name) + r"\b", tm.group(2)) or tm.group(1) == name:
                users.append(tm.group(1))
    except OSError:
        pass
    pb["statement"] = name
    pb["property_theorems_resting_on_it"] = users
    pb["what"] = pb["what"] + f" (statement `{name}`" + (f", used by {', '.join(users)}" if users else "") + ")"


def fill_min(res):
    res.coverage.setdefault("trusted_base", vlib.TRUSTED_COMMON)
    res.coverage.update(dict(correspondence_cases=0, evaluations=0, distinct_nontrivial=0, disagreements=0,
                             rule="run aborted before the correspondence", samples=[]))


# ------------------------------------------------------------------ compose judging

def lib_bytes(sc):
    """token -> bytes table of a composition (2..5 binaries, 102..105 texts)."""
    t = {}
    for key, tok in (("11", 2), ("10", 3), ("01", 4), ("00", 5)):
        e = sc["lib"].get("encode", {}).get(key)
        if e and e["st"] == "ok":
            t[tok] = open(e["file"], "rb").read()
            if e["print"]["st"] == "ok":
                t[100 + tok] = open(e["print"]["file"], "rb").read()
    return t


def past_parsing(lib):
    return lib.get("read", {}).get("st") == "ok" and lib.get("parse", {}).get("st") == "ok"


def documented_key(sw):
    nv, wat, imp = sw
    return ("0" if imp else "1") + ("0" if nv else "1")


def judge_compose(runs, vals, bag, known):
    text_checks = []
    for rn in runs:
        bag.count("compose")
        sc, o, sw = rn["sc"], rn["obs"], rn["sw"]
        lib = sc["lib"]
        table = lib_bytes(sc)
        m = parse_model_outcome(vals[rn["model_ix"]])
        acc = vals[rn["accept_ix"]] == "1"
        argv = ["wac"] + rn["argv"]
        base = dict(case_id=rn["id"], argv=argv, cwd=WORK, output_path_before_the_run=rn.get("pre_name", "-"),
                    repository_fs_resolver_agrees_with_documented_lookup=lib.get("fs_lib", {}).get("same_as_documented"), library_stages={k: v.get("st") for k, v in lib.items() if isinstance(v, dict) and "st" in v})
        if past_parsing(lib):
            bag.nontrivial.add(rn["id"])
        # ---- (a) correspondence: implementation == model
        exp_out = tokens_to_bytes(m["stdout"], table)
        # content of the -o path after the run: fs_after prev outcome (model/Cli.v) -- the written bytes, else what was there
        pre = rn.get("pre")
        exp_file = tokens_to_bytes(m["file"][1], table) if m["file"] else pre
        mism = []
        if not acc:
            mism.append("model of clap rejects an argv the driver built")
        if o["rc"] != m["exit"]:
            mism.append(f"exit status {o['rc']} vs model {m['exit']} ({m['status']})")
        if o["out"] != exp_out:
            mism.append(f"stdout ({len(o['out'])} bytes, sha {sha(o['out'])[:12]}) vs model ({len(exp_out)} bytes, sha {sha(exp_out)[:12]})")
        if rn["out"] and not rn.get("write_ok", True):
            pass
        elif rn["out"]:
            if o.get("file") != exp_file:
                mism.append("output file %s vs model %s" % ("absent" if o.get("file") is None else sha(o["file"])[:12],
                                                             "absent" if exp_file is None else sha(exp_file)[:12]))
        if (len(o["err"]) > 0) != (m["exit"] != 0):
            mism.append("stderr %s vs model exit %d" % ("non-empty" if o["err"] else "empty", m["exit"]))
        if m["status"] != "ok" and o["rc"] == m["exit"]:
            want_msg = STAGE_MSG.get(m["status"][1:])
            if m["status"][1:] == "F" and lib.get("fs", {}).get("st") == "ok":
                want_msg = "registry"          # fs found not everything, registry consulted and unreachable
            if m["status"][1:] == "N":
                want_msg = "registry"
            if want_msg and want_msg not in norm_ws(o["err"]):
                mism.append(f"stderr class: expected `{want_msg}` for stage {m['status']}, got `{norm_ws(o['err'])[:160]}`")
            if m["status"] == "FE":
                head = norm_ws(lib["encode"][documented_key(sw)].get("msg", ""))[:50]
                if head and head not in norm_ws(o["err"]):
                    mism.append(f"stderr does not carry the library's encode error `{head}`")
        if mism:
            bag.disagree.append(dict(base, what="; ".join(mism), model=vals[rn["model_ix"]],
                                     stderr=o["err"].decode("utf-8", "replace")[:400]))
        # ---- (b) the specification on the implementation's own observation
        key = documented_key(sw)
        enc = lib.get("encode", {}).get(key)
        lib_ok = bool(enc and enc["st"] == "ok" and (not sw[1] or enc["print"]["st"] == "ok"))
        sink_ok = not (rn["tty"] and not sw[1]) and rn.get("write_ok", True)
        registry_env = sc.get("registry") is not None
        why = []
        if o["rc"] == 2:
            why.append("a documented command line was rejected as a usage error")
        if not registry_env and (o["rc"] == 0) != (lib_ok and sink_ok):
            why.append("exit status %d but the library pipeline with the documented options (define_components=%s, validate=%s) %s"
                       % (o["rc"], key[0] == "1", key[1] == "1", "succeeds" if lib_ok else "fails"))
        if o["rc"] != 0 and (o["out"] or o.get("file") != pre):
            why.append("a failing run produced output (stdout %d bytes, -o path %s)" % (
                len(o["out"]), "unchanged" if o.get("file") == pre else ("created" if pre is None else "modified/removed")))
        if o["rc"] != 0 and not o["err"]:
            why.append("a failing run printed no diagnostic")
        if o["rc"] == 0 and lib_ok:
            want = open(enc["print"]["file"], "rb").read() if sw[1] else open(enc["file"], "rb").read()
            got = o.get("file") if rn["out"] else o["out"]
            if rn["out"]:
                if got != want:
                    tail = ""
                    if got is not None and pre is not None and got[:len(want)] == want and got[len(want):] == pre[len(want):]:
                        tail = " -- the file starts with the right bytes but keeps the tail of its previous content"
                    why.append("after -o the file (previously %s) holds %s, the library pipeline with the documented options / stdout gives %s%s" % (
                        "absent" if pre is None else f"{len(pre)} bytes",
                        "nothing" if got is None else f"{len(got)} bytes sha {sha(got)[:12]}", f"{len(want)} bytes sha {sha(want)[:12]}", tail))
                if o["out"]:
                    why.append("-o given but %d bytes were also written to stdout" % len(o["out"]))
            else:
                if sw[1] and got == want + b"\n":
                    if "sink:text-stdout-trailing-newline" in known:
                        bag.known_hits.setdefault("sink:text-stdout-trailing-newline",
                                                  f"stdout of `{' '.join(argv[:3])} ...` = text + 0x0A ({len(got)} vs {len(want)} bytes)")
                    else:
                        why.append("text on stdout is followed by an extra newline (not the bytes -o writes)")
                elif got != want:
                    why.append("stdout carries %d bytes sha %s, the library pipeline with the documented options gives %d bytes sha %s"
                               % (len(got), sha(got)[:12], len(want), sha(want)[:12]))
            if sw[1]:
                text = got if (rn["out"] or got != want + b"\n") else got[:-1]
                if text is not None:
                    text_checks.append((rn, text, open(enc["file"], "rb").read()))
        if why:
            bag.spec_fail.append(dict(base, what="; ".join(why), stderr=o["err"].decode("utf-8", "replace")[:300]))
        if len(bag.samples) < 3 and past_parsing(lib) and rn["sink"] == "file":
            bag.samples.append(dict(argv=argv, exit=o["rc"], stdout_bytes=len(o["out"]),
                                    file_sha256=sha(o["file"])[:16] if o.get("file") is not None else None,
                                    model=dict(m, stdout=m["stdout"], file=list(m["file"]) if m["file"] else None),
                                    library_stages=base["library_stages"]))
    # -t: the text assembles to a valid component with the same interface; its re-print is the text itself
    uniq = {}
    for rn, text, binary in text_checks:
        uniq.setdefault((sha(text), sha(binary)), (rn, text, binary))
    jobs, meta = [], []
    for i, (rn, text, binary) in enumerate(uniq.values()):
        tp = os.path.join(WORK, "out", "tcheck%d.wat" % i)
        bp = os.path.join(WORK, "out", "tcheck%d.wasm" % i)
        open(tp, "wb").write(text)
        open(bp, "wb").write(binary)
        jobs += [dict(op="inspect", wat=tp, text_out=tp + ".reprint"), dict(op="inspect", wasm=bp)]
        meta.append((rn, tp))
    if jobs:
        rs = harness(jobs, "textcheck")
        for (rn, tp), a, b in zip(meta, rs[0::2], rs[1::2]):
            bag.count("text-roundtrip")
            why = []
            if a.get("st") != "ok" or not a.get("valid"):
                why.append("the -t output does not assemble to a valid component: %s" % a.get("msg", "invalid"))
            elif (a["imports"], a["exports"], a["nested_top"]) != (b["imports"], b["exports"], b["nested_top"]):
                why.append("the -t output assembles to a component with another interface: %s / %s vs %s / %s"
                           % (a["imports"], a["exports"], b["imports"], b["exports"]))
            elif open(tp + ".reprint", "rb").read() != open(tp, "rb").read():
                why.append("re-printing the assembled -t output gives a different text (wiring changed)")
            if why:
                bag.spec_fail.append(dict(case_id=rn["id"], argv=["wac"] + rn["argv"], cwd=WORK, what="; ".join(why)))


# ------------------------------------------------------------------ plug

def py_file_stem(p):
    segs = [s for s in p.split("/") if s not in ("", ".")]
    if not segs or segs[-1] == "..":
        return None
    n = segs[-1]
    i = n.rfind(".")
    return n if i <= 0 else n[:i]


def py_groups(plugs):
    """[(key, [paths])] in first-occurrence order (local paths only)."""
    g = []
    for p in plugs:
        k = py_file_stem(p)
        for e in g:
            if e[0] == k:
                e[1].append(p); break
        else:
            g.append((k, [p]))
    return g


def py_regs(groups):
    out = []
    for k, ps in groups:
        for i, p in enumerate(ps):
            out.append(("plug:" + k + (str(i) if len(ps) > 1 else ""), p))
    return out


def plug_matrix(only, r, want):
    P = []

    def add(name, plugs, socket, pkg_names=()):
        P.append(dict(name=name, plugs=plugs, socket=socket, pkg_names=list(pkg_names)))
    add("one", [comp("hello")], comp("greeter"))
    add("four", [comp("hello"), comp("plug-b"), comp("plug-c"), comp("plug-d")], comp("socket4"))
    add("two-b-first", [comp("plug-b"), comp("hello")], comp("socket4"))
    add("same-stem", [os.path.join(WORK, "pa", "same.wasm"), os.path.join(WORK, "pb", "same.wasm")], comp("socket4"))
    add("same-stem-interleaved", [os.path.join(WORK, "pa", "same.wasm"), comp("plug-c"), os.path.join(WORK, "pb", "same.wasm")], comp("socket4"))
    add("name-collision", [os.path.join(WORK, "pa", "same.wasm"), os.path.join(WORK, "pb", "same.wasm"), os.path.join(WORK, "same1.wasm")], comp("socket4"))
    add("dup-export", [comp("hello"), os.path.join(WORK, "pa", "same.wasm")], comp("socket4"))
    add("no-match", [comp("plug-b")], comp("greeter"))
    add("plug-missing", [os.path.join(WORK, "nope.wasm")], comp("greeter"))
    add("plug-not-component", [os.path.join(WORK, "garbage.wasm")], comp("greeter"))
    add("plug-no-stem", [os.path.join(WORK, "comp", "..")], comp("greeter"))
    add("socket-missing", [comp("hello")], os.path.join(WORK, "nope.wasm"))
    add("socket-not-component", [comp("hello")], os.path.join(WORK, "garbage.wasm"))
    add("registry-plug", ["test-ns:pkg"], comp("greeter"), ["test-ns:pkg"])
    add("registry-plug-version", ["test-ns:pkg@1.0.0"], comp("greeter"), ["test-ns:pkg"])
    add("registry-plug-bad-version", ["test-ns:pkg@one"], comp("greeter"), ["test-ns:pkg"])
    add("at-in-path", [os.path.join(WORK, "comp", "hello.wasm@x")], comp("greeter"))
    runs = []
    for sc in P:
        for wat in (False, True):
            for sink_label, pre in (("file", None), ("file-longer", LONGER), ("file-shorter", SHORTER), ("pipe", None)):
                sink = "pipe" if sink_label == "pipe" else "file"
                cid = "plug/%s/%d/%s" % (sc["name"], int(wat), sink_label)
                if only is not None and cid not in only:
                    continue
                outp = os.path.join(WORK, "out", hashlib.md5(cid.encode()).hexdigest()[:10] + (".wat" if wat else ".wasm")) if sink == "file" else None
                parts = [["--plug", p] for p in sc["plugs"]]        # order of --plug values is significant: keep it
                extra = [[sc["socket"]]]
                if wat:
                    extra.append([r.choice(["-t", "--wat"])])
                if outp:
                    extra.append([r.choice(["-o", "--output"]), outp])
                # interleave the other arguments at random positions
                seq = parts[:]
                for e in extra:
                    seq.insert(r.randrange(len(seq) + 1), e)
                argv = ["plug"] + [x for p in seq for x in p]
                runs.append(dict(id=cid, kind="plug", sc=sc, wat=wat, sink=sink, out=outp, argv=argv, tty=False, pre=pre,
                                 pre_name=sink_label,
                                 accept_ix=want("show_bool (accepts cli_flags %s)" % coq_list([coq_str(a) for a in argv]))))
        for wat in (False, True):
            cid = "plug-tty/%s/%d" % (sc["name"], int(wat))
            if sc["name"] in ("one", "no-match") and (only is None or cid in only):
                argv = ["plug"] + [x for p in sc["plugs"] for x in ("--plug", p)] + [sc["socket"]] + (["-t"] if wat else [])
                runs.append(dict(id=cid, kind="plug", sc=sc, wat=wat, sink="tty", out=None, argv=argv, tty=True,
                                 accept_ix=want("show_bool (accepts cli_flags %s)" % coq_list([coq_str(a) for a in argv]))))
    # library side: every order of the groups
    jobs, meta = [], []
    for sc in P:
        local = all("/" in p for p in sc["plugs"])
        sc["local"] = local
        sc["perms"] = []
        if not local or any(py_file_stem(p) is None for p in sc["plugs"]):
            continue
        groups = py_groups(sc["plugs"])
        sc["groups"] = groups
        for perm in itertools.permutations(range(len(groups))):
            regs = py_regs([groups[i] for i in perm])
            ix = len(sc["perms"])
            sc["perms"].append(dict(order=[groups[i][0] for i in perm], regs=regs))
            jobs.append(dict(op="plug", socket=sc["socket"], plugs=[list(x) for x in regs],
                             out=os.path.join(WORK, "lib", "plug-%s-%d.wasm" % (sc["name"], ix))))
            meta.append((sc, ix))
        sc["regs_ix"] = want("show_regs (registrations (fun l => l) %s)" % coq_list(
            ["(%s, LocalPath %s)" % (coq_str(py_file_stem(p)), coq_str(p)) for p in sc["plugs"]]))
        sc["docregs_ix"] = want("show_regs (documented_registrations %s)" % coq_list(
            ["(%s, LocalPath %s)" % (coq_str(py_file_stem(p)), coq_str(p)) for p in sc["plugs"]]))
        sc["keyed_ix"] = want("match keyed %s with Some ks => show_regs (map (fun kr => (fst kr, snd kr)) ks) | None => [33] end" % coq_list(
            ["LocalPath " + coq_str(p) for p in sc["plugs"]]))
    rs = harness(jobs, "plug") if jobs else []
    for (sc, ix), rr in zip(meta, rs):
        sc["perms"][ix]["lib"] = rr
    return runs, P


def plug_after_obs(runs, P, want):
    """Choose, per run, the hash order that explains the observed bytes; then ask the model."""
    for rn in runs:
        sc, o = rn["sc"], rn["obs"]
        got = o.get("file") if rn["out"] else o["out"]
        chosen = None
        if sc["perms"]:
            for ix, pm in enumerate(sc["perms"]):
                lr = pm["lib"]
                if o["rc"] == 0 and lr["st"] == "ok":
                    want_b = open(lr["print"]["file"], "rb").read() + (b"" if rn["out"] else b"\n") if rn["wat"] else open(lr["file"], "rb").read()
                    if got == want_b:
                        chosen = ix; break
                    if chosen is None and got is not None and rn.get("pre") is not None and got[:len(want_b)] == want_b:
                        chosen = ix      # right bytes followed by something else: judged below
                elif o["rc"] != 0 and lr["st"] != "ok":
                    if norm_ws(lr.get("msg", "").split(": ", 1)[-1])[:40] in norm_ws(o["err"]):
                        chosen = ix; break
            if chosen is None:
                chosen = 0
        rn["chosen"] = chosen
        # results table for the model: registration list -> code
        results, bad_files = [], []
        if sc["perms"]:
            for ix, pm in enumerate(sc["perms"]):
                lr = pm["lib"]
                code = 20 + ix if lr["st"] == "ok" else (1 if lr.get("stage") == "encode" else 0)
                if lr["st"] != "ok" and lr.get("stage") in ("plug-load", "register"):
                    # which file failed is not reported per file by the library job; mark the registration list as failing at add
                    pass
                results.append("(%s, %d)" % (coq_list(["(%s, %s)" % (coq_str(n), coq_str(p)) for n, p in pm["regs"]]), code))
            pm = sc["perms"][chosen]
            lr = pm["lib"]
            if lr["st"] != "ok" and lr.get("stage") in ("plug-load", "register"):
                bad_files = [p for _, p in pm["regs"]][-1:] if lr.get("stage") == "register" else [p for _, p in pm["regs"] if not plug_loadable(p)]
            order = "[(%s, %s)]" % (coq_list([coq_str(k) for k, _ in sc["groups"]]), coq_list([coq_str(k) for k in pm["order"]]))
            s_read = s_add = 0
            if lr["st"] != "ok" and lr.get("stage") == "read-socket":
                s_read = 1
            if lr["st"] != "ok" and lr.get("stage") in ("socket",):
                s_add = 1
        else:
            order, s_read, s_add = "[]", 0, 0
        pc = "(mk_pcase %s %s %d %d %s %s 0 true %s)" % (
            coq_list([coq_str(n) for n in sc["pkg_names"]]), order, s_read, s_add,
            coq_list([coq_str(p) for p in bad_files]), coq_list(results), "true" if rn["tty"] else "false")
        pf = "(mk_pf %s %s (mk_psw %s) %s None)" % (coq_list([coq_str(p) for p in sc["plugs"]]), coq_str(sc["socket"]),
                                                    str(rn["wat"]).lower(), coq_opt(rn["out"]))
        rn["model_ix"] = want("show_outcome (plug_in (world_of_pcase %s) %s)" % (pc, pf))


def plug_loadable(p):
    try:
        return open(p, "rb").read(8) == b"\x00asm\x0d\x00\x01\x00"
    except OSError:
        return False


def judge_plug(runs, P, vals, bag, known):
    for sc in P:
        if "regs_ix" in sc:
            # the driver's naming mirror against the model and the documented registrations
            mine = "".join("%s=%s;" % (",".join(str(ord(c)) for c in n) or "-", ",".join(str(ord(c)) for c in p)) for n, p in py_regs(sc["groups"]))
            if vals[sc["regs_ix"]] != mine or vals[sc["docregs_ix"]] != mine:
                bag.disagree.append(dict(case_id="plug-names/" + sc["name"], what="plug naming: driver mirror, model (insertion order) and "
                                         "documented registrations differ", model=vals[sc["regs_ix"]], documented=vals[sc["docregs_ix"]], driver=mine))
    for rn in runs:
        bag.count("plug")
        sc, o = rn["sc"], rn["obs"]
        argv = ["wac"] + rn["argv"]
        base = dict(case_id=rn["id"], argv=argv, cwd=WORK, output_path_before_the_run=rn.get("pre_name", "-"))
        m = parse_model_outcome(vals[rn["model_ix"]])
        acc = vals[rn["accept_ix"]] == "1"
        table = {}
        for ix, pm in enumerate(sc["perms"]):
            if pm["lib"]["st"] == "ok":
                table[20 + ix] = open(pm["lib"]["file"], "rb").read()
                table[120 + ix] = open(pm["lib"]["print"]["file"], "rb").read()
        if sc["perms"]:
            bag.nontrivial.add(rn["id"])
        mism = []
        exp_out = tokens_to_bytes(m["stdout"], table)
        pre = rn.get("pre")
        exp_file = tokens_to_bytes(m["file"][1], table) if m["file"] else pre
        if not acc and m["exit"] != 2:
            mism.append("model of clap rejects the argv but the model of the command does not")
        if o["rc"] != m["exit"]:
            mism.append(f"exit status {o['rc']} vs model {m['exit']} ({m['status']})")
        if o["out"] != exp_out:
            mism.append(f"stdout sha {sha(o['out'])[:12]} ({len(o['out'])}) vs model sha {sha(exp_out)[:12]} ({len(exp_out)})")
        if rn["out"] and o.get("file") != exp_file:
            mism.append("output file %s vs model %s" % ("absent" if o.get("file") is None else sha(o["file"])[:12],
                                                         "absent" if exp_file is None else sha(exp_file)[:12]))
        if (len(o["err"]) > 0) != (m["exit"] != 0):
            mism.append("stderr %s vs model exit %d" % ("non-empty" if o["err"] else "empty", m["exit"]))
        if m["status"] in ("FT", "Fn", "Fr") and o["rc"] == m["exit"] and STAGE_MSG[m["status"][1:]] not in norm_ws(o["err"]):
            mism.append(f"stderr class for {m['status']}: `{norm_ws(o['err'])[:120]}`")
        if mism:
            bag.disagree.append(dict(base, what="; ".join(mism), model=vals[rn["model_ix"]], hash_order=sc["perms"][rn["chosen"]]["order"] if sc["perms"] else None,
                                     stderr=o["err"].decode("utf-8", "replace")[:300]))
        # (b) documented: the library pipeline with the plugs registered in command-line (first occurrence) order
        why = []
        if o["rc"] != 0 and (o["out"] or o.get("file") != pre):
            why.append("a failing run produced output or changed the -o path")
        if o["rc"] != 0 and not o["err"]:
            why.append("a failing run printed no diagnostic")
        if sc["perms"]:
            doc = sc["perms"][0]["lib"]          # permutation 0 is the identity
            doc_ok = doc["st"] == "ok"
            sink_ok = not (rn["tty"] and not rn["wat"])
            if (o["rc"] == 0) != (doc_ok and sink_ok) and not any(pm["lib"]["st"] != doc["st"] for pm in sc["perms"]):
                why.append("exit status %d but the library pipeline %s" % (o["rc"], "succeeds" if doc_ok else "fails"))
            if o["rc"] == 0 and doc_ok:
                want_b = open(doc["print"]["file"], "rb").read() if rn["wat"] else open(doc["file"], "rb").read()
                got = o.get("file") if rn["out"] else o["out"]
                if rn["out"] and o["out"]:
                    why.append("-o given but %d bytes were also written to stdout" % len(o["out"]))
                if not rn["out"] and rn["wat"] and got is not None and got.endswith(b"\n") and "sink:text-stdout-trailing-newline" in known:
                    got = got[:-1]
                if rn["out"] and got != want_b and got is not None and pre is not None and got[:len(want_b)] == want_b \
                        and got[len(want_b):] == pre[len(want_b):]:
                    why.append("after -o the file (previously %d bytes) holds %d bytes: the right %d bytes followed by the tail of its "
                               "previous content -- not the bytes otherwise sent to stdout" % (len(pre), len(got), len(want_b)))
                elif got != want_b:
                    if rn["chosen"] not in (None, 0) and len(sc["groups"]) >= 2 and "plug:hash-order" in known:
                        bag.known_hits.setdefault("plug:hash-order",
                                                  "`%s`: output is the library result for registration order %s, not for the command-line order %s"
                                                  % (" ".join(os.path.basename(a) for a in argv[:8]), sc["perms"][rn["chosen"]]["order"], sc["perms"][0]["order"]))
                    else:
                        why.append("output (sha %s) is not the library result for the plugs in command-line order (sha %s)%s"
                                   % (sha(got or b"")[:12], sha(want_b)[:12],
                                      "; it is the result for order %s" % sc["perms"][rn["chosen"]]["order"] if rn["chosen"] else ""))
        if why:
            bag.spec_fail.append(dict(base, what="; ".join(why), stderr=o["err"].decode("utf-8", "replace")[:300]))
        if rn["id"].startswith("plug/four/0/file"):
            bag.samples.append(dict(argv=argv, exit=o["rc"], model=vals[rn["model_ix"]]))


def digest_check(bag, known, only):
    """The same 4-plug command line eight times: one digest if the output is a function of the command line."""
    if only is not None and "plug-digests" not in only:
        return
    plugs = [comp("hello"), comp("plug-b"), comp("plug-c"), comp("plug-d")]
    outs = []
    def one(i):
        outp = os.path.join(WORK, "out", "digest%d.wasm" % i)
        o = run_cli(["plug"] + [x for p in plugs for x in ("--plug", p)] + [comp("socket4"), "-o", outp])
        return (o["rc"], sha(open(outp, "rb").read()) if os.path.exists(outp) else None)
    with ThreadPoolExecutor(max_workers=8) as ex:
        outs = list(ex.map(one, range(8)))
    for _ in outs:
        bag.count("plug-digest")
    ds = sorted({d for _, d in outs if d})
    bag.nontrivial.add("plug-digests")
    if len(ds) > 1:
        txt = "8 runs of one `wac plug` command line with 4 plugs gave %d different SHA-256 digests (%s)" % (len(ds), ", ".join(d[:10] for d in ds))
        if "plug:hash-order" in known:
            bag.known_hits["plug:hash-order"] = txt
        else:
            bag.spec_fail.append(dict(case_id="plug-digests", what=txt, cwd=WORK,
                                      argv=["wac", "plug"] + [x for p in plugs for x in ("--plug", p)] + [comp("socket4"), "-o", "out.wasm"]))


# ------------------------------------------------------------------ parse

def judge_parse(runs, vals, bag):
    for rn in runs:
        bag.count("parse")
        o, lib = rn["obs"], rn["sc"]["lib"]
        m = parse_model_outcome(vals[rn["model_ix"]])
        js = None
        if lib.get("parse", {}).get("st") == "ok":
            js = open(os.path.join(WORK, "lib", rn["sc"]["name"], "ast.json"), "rb").read()
            bag.nontrivial.add(rn["id"])
        exp_out = tokens_to_bytes(m["stdout"], {2: js or b""})
        base = dict(case_id=rn["id"], argv=["wac"] + rn["argv"], cwd=WORK)
        mism = []
        if o["rc"] != m["exit"]:
            mism.append(f"exit status {o['rc']} vs model {m['exit']}")
        if o["out"] != exp_out:
            mism.append("stdout differs from the model (library JSON + newline)")
        if (len(o["err"]) > 0) != (m["exit"] != 0):
            mism.append("stderr presence")
        if vals[rn["accept_ix"]] != "1":
            mism.append("model of clap rejects the argv")
        if mism:
            bag.disagree.append(dict(base, what="; ".join(mism), model=vals[rn["model_ix"]]))
        why = []
        if (o["rc"] == 0) != (js is not None):
            why.append("exit status %d but Document::parse %s" % (o["rc"], "succeeds" if js is not None else "fails"))
        if o["rc"] == 0 and js is not None and o["out"] != js + b"\n":
            why.append("stdout is not the pretty JSON of the library's AST followed by a newline")
        if o["rc"] != 0 and o["out"]:
            why.append("a failing run wrote to stdout")
        if why:
            bag.spec_fail.append(dict(base, what="; ".join(why)))


# ------------------------------------------------------------------ targets

def targets_matrix(only, want):
    wit = lambda n: os.path.join(CORPUS, "wit", n)
    T = []
    for comp_name, comp_path in (("hello", comp("hello")), ("greeter", comp("greeter")), ("garbage", os.path.join(WORK, "garbage.wasm")),
                                 ("missing", os.path.join(WORK, "nope.wasm"))):
        for w, worlds in (("one-world.wit", [None, "w", "nope"]), ("world-mismatch.wit", [None]), ("two-worlds.wit", [None, "w1", "w2", "zz"]),
                          ("two-worlds-rev.wit", [None, "w1", "w2"]), ("three-worlds.wit", [None, "w1", "w2", "w3", "api"]),
                          ("iface-and-world.wit", [None, "w", "api"]), ("iface-only.wit", [None, "api"]), ("bad-syntax.wit", [None]),
                          ("no-such.wit", [None]), ("types", [None])):
            if comp_name != "hello" and w not in ("one-world.wit", "two-worlds.wit", "two-worlds-rev.wit"):
                continue
            for world in worlds:
                T.append(dict(comp=comp_path, cname=comp_name, wit=wit(w), wname=w, world=world))
    jobs = []
    seen = {}
    for t in T:
        k = (t["comp"], t["wit"])
        if k not in seen:
            seen[k] = len(jobs)
            jobs.append(dict(op="targets", component=t["comp"], wit=t["wit"]))
    rs = harness(jobs, "targets")
    runs = []
    for t in T:
        cid = "targets/%s/%s/%s" % (t["cname"], t["wname"], t["world"] or "-")
        if only is not None and cid not in only:
            continue
        lib = rs[seen[(t["comp"], t["wit"])]]
        t["lib"] = lib
        code = lambda k: st_code(lib[k]["st"]) if k in lib else 0
        exps = []
        for w in lib.get("worlds", []):
            if w["shape"] == "world":
                e = "EWorld %d" % st_code(w["validate"]["st"])
            else:
                e = "EOther"
            exps.append("(%s, %s)" % (coq_str(w["name"]), e))
        tc = "(mk_tcase %d %d %d %d %s)" % (code("wit_encode"), code("wit_decode"), code("comp_read"), code("comp_decode"), coq_list(exps))
        tf = "(mk_tf %s %s %s)" % (coq_str(t["comp"]), coq_str(t["wit"]), coq_opt(t["world"]))
        argv = ["targets", t["comp"], "--wit", t["wit"]] + (["--world", t["world"]] if t["world"] else [])
        runs.append(dict(id=cid, kind="targets", t=t, argv=argv, tty=False,
                         model_ix=want("show_outcome (targets_in (world_of_tcase %s) %s)" % (tc, tf)),
                         spec_ix=want("show_optN (documented_world (W:=N) %s %s)" % (coq_list(exps), coq_opt(t["world"]))),
                         accept_ix=want("show_bool (accepts cli_flags %s)" % coq_list([coq_str(a) for a in argv]))))
    return runs


def judge_targets(runs, vals, bag, known):
    for rn in runs:
        bag.count("targets")
        o, t = rn["obs"], rn["t"]
        lib = t["lib"]
        m = parse_model_outcome(vals[rn["model_ix"]])
        base = dict(case_id=rn["id"], argv=["wac"] + rn["argv"], cwd=WORK)
        if "worlds" in lib:
            bag.nontrivial.add(rn["id"])
        mism = []
        if o["rc"] != m["exit"]:
            mism.append(f"exit status {o['rc']} vs model {m['exit']} ({m['status']})")
        if o["out"]:
            mism.append("stdout not empty")
        if (len(o["err"]) > 0) != (m["exit"] != 0):
            mism.append("stderr presence")
        if vals[rn["accept_ix"]] != "1":
            mism.append("model of clap rejects the argv")
        if mism:
            bag.disagree.append(dict(base, what="; ".join(mism), model=vals[rn["model_ix"]], stderr=o["err"].decode("utf-8", "replace")[:300]))
        # (b) documented: --world names the world, or the only world is taken; exit 0 iff the component conforms to it
        if "worlds" in lib:
            spec = vals[rn["spec_ix"]]
            doc_ok = spec == "0"
            if (o["rc"] == 0) != doc_ok:
                worlds = [w for w in lib["worlds"] if w["shape"] != "other"]
                others = [w for w in lib["worlds"] if w["shape"] == "other"]
                if (t["world"] is None and len(worlds) == 1 and others and o["rc"] != 0
                        and "targets:default-world:non-world-exports-counted" in known):
                    bag.known_hits.setdefault("targets:default-world:non-world-exports-counted",
                                              "`wac targets %s --wit %s` exits %d (%s) although `%s` is the only world"
                                              % (os.path.basename(t["comp"]), t["wname"], o["rc"], norm_ws(o["err"])[:70].strip(), worlds[0]["name"]))
                else:
                    bag.spec_fail.append(dict(base, what="exit status %d but the documented world selection %s" % (
                        o["rc"], "selects a world the component conforms to" if doc_ok else "selects no conforming world"),
                        exports=lib["worlds"], stderr=o["err"].decode("utf-8", "replace")[:300]))
        if "worlds" in lib and t["world"] is None:
            nworlds = len([w for w in lib["worlds"] if w["shape"] != "other"])
            why = None
            if nworlds >= 2 and (o["rc"] == 0 or "multiple worlds" not in norm_ws(o["err"])):
                why = ("the WIT package defines %d worlds and no --world is given: the command must refuse with the "
                       "'multiple worlds' diagnostic, but it exits %d with `%s`" % (nworlds, o["rc"], norm_ws(o["err"])[:100].strip()))
            elif nworlds == 0 and o["rc"] == 0:
                why = "the WIT package defines no world and no --world is given, but the command exits 0"
            if why and not any(f.get("case_id") == rn["id"] for f in bag.spec_fail):
                bag.spec_fail.append(dict(base, what=why, exports=lib["worlds"], stderr=o["err"].decode("utf-8", "replace")[:300]))
        if rn["id"] == "targets/hello/two-worlds.wit/w1":
            bag.samples.append(dict(argv=["wac"] + rn["argv"], exit=o["rc"], model=vals[rn["model_ix"]]))


# ------------------------------------------------------------------ clap / README

def usage_matrix(only, want):
    U = []
    # README lines as generated by the translator (evaluated inside Coq), with the file names as they are
    gen = my_table()
    m = re.search(r"Definition readme_examples.*?:= \[\n(.*?)\n\]\.", gen, re.S)
    for line in m.group(1).split("\n"):
        toks = re.findall(r"\(\* (.*?) \*\)", line)
        if toks:
            U.append(("readme", toks))
    h, g = comp("hello"), comp("greeter")
    ok = os.path.join(CORPUS, "wac", "ok-embed.wac")
    dd = os.path.join(WORK, "deps")
    for argv in (
            ["compose"], ["compose", ok, ok], ["compose", "--frobnicate", ok], ["compose", "-o"], ["compose", "--deps-dir", dd, "-o", "a", "-o", "b", ok],
            ["compose", "--deps-dir", dd, "-t", "-t", ok], ["compose", "--deps-dir", dd, "--dep", "nosep", ok, "-o", os.path.join(WORK, "out", "u1.wasm")],
            ["compose", "--deps-dir", dd, "-ti", ok, "-o" + os.path.join(WORK, "out", "u2.wat")],
            ["compose", "--deps-dir=" + dd, "--wat=true", ok], ["compose", "--deps-dir", dd, "--deps-dir", dd, ok, "-t"],
            ["plug", g], ["plug", "--plug", h], ["plug", "--plug", h, g, g], ["plug", "--plug", h, "--plug", g, "-t", "-o", os.path.join(WORK, "out", "u3.wat"), g],
            ["parse"], ["parse", ok, "-t"], ["targets", h], ["targets", "--wit", os.path.join(CORPUS, "wit", "one-world.wit")],
            ["targets", h, os.path.join(CORPUS, "wit", "one-world.wit")], ["targets", h, "--wit", os.path.join(CORPUS, "wit", "one-world.wit"), "--world"],
            ["targets", h, "--wit", os.path.join(CORPUS, "wit", "one-world.wit"), "--world", "w", "--world", "w"],
            ["resolve", "--deps-dir", dd, ok], ["frobnicate"]):
        U.append(("clap", argv))
    runs = []
    for i, (k, argv) in enumerate(U):
        cid = "usage/%s/%d" % (k, i)
        if only is not None and cid not in only:
            continue
        deps_ok = all(py_parse_dep(argv[j + 1]) is not None for j, a in enumerate(argv[:-1]) if a in ("--dep", "-d"))
        runs.append(dict(id=cid, kind=k, argv=argv, tty=False, deps_ok=deps_ok,
                         accept_ix=want("show_bool (accepts cli_flags %s)" % coq_list([coq_str(a) for a in argv]))))
    return runs


def judge_usage(runs, vals, bag, known):
    for rn in runs:
        bag.count("usage")
        o = rn["obs"]
        acc = vals[rn["accept_ix"]] == "1" and rn["deps_ok"]
        base = dict(case_id=rn["id"], argv=["wac"] + rn["argv"], cwd=WORK)
        if (o["rc"] == 2) == acc:
            bag.disagree.append(dict(base, what="clap %s the command line (exit %d) but the model of clap over the generated flag table %s it"
                                     % ("rejects" if o["rc"] == 2 else "accepts", o["rc"], "accepts" if acc else "rejects"),
                                     stderr=o["err"].decode("utf-8", "replace")[:300]))
        if rn["kind"] == "readme" and o["rc"] == 2:
            if rn["argv"][0] == "targets" and len(rn["argv"]) == 3 and "readme:targets-positional-wit" in known:
                bag.known_hits["readme:targets-positional-wit"] = "README line `wac %s` is rejected: %s" % (
                    " ".join(rn["argv"]), norm_ws(o["err"])[:60].strip())
            else:
                bag.spec_fail.append(dict(base, what="a command line documented in README.md is rejected by the binary as a usage error",
                                          stderr=o["err"].decode("utf-8", "replace")[:300]))
        if rn["kind"] == "readme":
            bag.nontrivial.add(rn["id"])
