"""C17: package discovery finds every package resolution will ask for."""
import json
import os
import re
import shutil
import vlib

PID = "C17"

CLAIM = dict(
    text="Machine-checked Coq theorems over an executable model of PackageVisitor (generic in its callback, early stop "
         "included) and of packages() (own-package filter, insertion-ordered map keyed by name AND version, "
         "CannotInstantiateSelf before the callback), and over the resolver of resolution.rs reduced to its package "
         "requests (same traversal, includes postponed, targets last, own-package paths resolved locally, every other "
         "decision an oracle that may end the walk anywhere): every key the resolver can request is discovered "
         "(requests_incl_discovered, by induction over the syntax tree, every position), discovery reports nothing else "
         "(discovered_all_requested), never the own package, no duplicates; a self-`new` at any nesting is rejected at "
         "discovery and discovery fails for no other reason; two package maps agreeing on the requests resolve alike, "
         "so exactly-discovered and any superset give the result of supplying everything; the resolver performs a "
         "prefix of the request list. The models are tied to the code on every run: ~550 generated documents "
         "(package references in every syntactic position, with/without versions, two versions of one name, own-package "
         "references, self-new, unknown packages, wrong kinds) are parsed by the extracted parser model and by the real "
         "parser; packages() is compared key by key with spans; each document is resolved against a 14-package library "
         "(WIT packages and components) with ALL packages, with ONLY the discovered ones and with each library package "
         "removed in turn (which yields the set of keys actually looked up, through the public API alone); the optional "
         "cfg(wac_verif) request log gives the exact call sequence.",
    design_ref="DESIGN.md §5 C17, §6 item 3",
    note="Trusted: Coq kernel; extraction (ExtrOcamlBasic); OCaml driver; Rust harness; Visitor.v / ResolveSkel.v are "
         "hand-written from visitor.rs / lib.rs / resolution.rs and validated by correspondence; the parser model is "
         "C12's; ResolveSkel.v abstracts everything but package requests into an oracle (the assumption that the "
         "resolver reads the supplied map only through resolve_package is checked by the remove-one-package probes "
         "and by the cfg(wac_verif) request log, whose exact call sequence is compared with the model's).",
    technique="Coq proof (mutual structural induction over the AST via a flattening lemma) + extracted-model "
              "correspondence + differential resolution (all / discovered-only / all-but-one)")

PROPOSED_KNOWN = []

HOOK_MARK = "verif_request_log"


def dec(s):
    return "" if s in ("-", "") else "".join(chr(int(x)) for x in s.split(","))


def fields(line):
    """'P=OK<TAB>D=...' -> dict"""
    d = {}
    for f in line.split("\t"):
        if "=" in f:
            k, v = f.split("=", 1)
            d[k] = v
    return d


def keys_of(entries):
    """'name@v#12+3 name2#4' -> ['name@v', 'name2'] (self-new marker '!name#off' dropped)"""
    return [e.rsplit("#", 1)[0] for e in entries.split(" ") if e and not e.startswith("!")]


def name_of(key):
    return key.split("@", 1)[0]


def hook_present():
    p = os.path.join(vlib.REPO, "crates", "wac-parser", "src", "resolution.rs")
    try:
        return HOOK_MARK in open(p).read()
    except OSError:
        return False


def build_harness(hook, dest):
    """cargo rustc so that the extra cfg reaches only this binary; the result is copied under the cargo lock."""
    with vlib.Lock("cargo"):
        if not os.path.exists(os.path.join(vlib.HARNESS, "Cargo.lock")):
            vlib.sh(f"cp {vlib.REPO}/Cargo.lock {vlib.HARNESS}/Cargo.lock")
        cmd = f"cargo rustc --offline{vlib.cargo_paths_override()} --bin c17" + (" -- --cfg wac_c17_log" if hook else "")
        rc, out = vlib.sh(cmd, cwd=vlib.HARNESS, timeout=2400)
        if rc == 0:
            # CARGO_TARGET_DIR (self-tests against a scratch worktree use their own) or the shared target directory
            tdir = os.environ.get("CARGO_TARGET_DIR") or os.path.join(vlib.HARNESS, "target")
            shutil.copy2(os.path.join(tdir, "debug", "c17"), dest)
        return rc == 0, out


POSITIONS = [
    ("targets clause", r"^package \S+ targets \S+:"),
    ("import path", r"^import \w+( as \w+)?: \w+:\w+/"),
    ("use in interface", r"^interface \w+ \{[^}]*use \w+:\w+/"),
    ("use in inline interface of an import", r"^import \w+: interface \{[^}]*use \w+:\w+/"),
    ("use in world", r"^  use \w+:\w+/"),
    ("world import/export path", r"^  (import|export) \w+:\w+/"),
    ("use in inline interface of a world item", r"^  (import|export) \w+: interface \{[^}]*use \w+:\w+/"),
    ("include", r"^  include \w+:\w+/"),
    ("new in let", r"^let \w+ = \(*new "),
    ("new in export", r"^export \(*new "),
    ("new nested in named argument", r"\w\"?: new "),
    ("new nested in parentheses", r"\w\"?: \(+new "),
    ("named new after a spread argument", r"\.\.\.\w+,[^{}]*\w\"?: \(*new "),
    ("named new after a non-final fill", r"\.\.\., [^{}]*\w\"?: \(*new "),
    ("inferred argument", r"[{,] \w+[,}] | \w+ \}"),
    ("versioned reference", r"@\d"),
    ("own-package path", None),
]


def run(res, tier, seed, replay):
    pr = vlib.proof_stage(res, PID)
    ok, log = vlib.ensure_extraction("c17", "theories/extract/ExtractC17.v")
    if not ok:
        res.violation(dict(kind="machinery-error", what="extraction/driver build failed", log=log[-3000:]), no_input=True)
        return
    rd = os.path.join(vlib.BUILD, "c17", "run")
    os.makedirs(rd, exist_ok=True)
    P = lambda x: os.path.join(rd, x)
    hook = hook_present()
    hb = P("c17bin")
    ok, log = build_harness(hook, hb)
    if not ok:
        res.violation(dict(kind="broken-tie", what="harness does not build against the repository", log=log[-3000:]),
                      no_input=True)
        return
    extra = ""
    if replay:
        rp = json.load(open(replay))
        open(P("replay_in.txt"), "w").write("\n".join(rp.get("cases", [rp.get("case", "")])) + "\n")
        extra = " " + P("replay_in.txt")
    rc, out = vlib.sh(f"{hb} {tier} {seed} {P('cases.txt')} {P('impl.txt')}{extra}", timeout=3000)
    if rc != 0:
        res.violation(dict(kind="machinery-error", what="harness run failed", log=out[-3000:]), no_input=True)
        return
    corpus = os.path.join(vlib.ROOT, "corpus", PID, "cases.txt")
    if os.path.exists(corpus) and not replay:
        # regression documents run first: the harness in replay mode, outputs prepended
        rc, out = vlib.sh(f"{hb} {tier} {seed} {P('corpus_cases.txt')} {P('corpus_impl.txt')} {corpus}", timeout=600)
        if rc != 0:
            res.violation(dict(kind="machinery-error", what="harness run on the corpus failed", log=out[-3000:]), no_input=True)
            return
        for a, b in ((P("cases.txt"), P("corpus_cases.txt")), (P("impl.txt"), P("corpus_impl.txt"))):
            body = "".join(l + "\n" for l in open(b).read().split("\n")[:-1] if not l.startswith(("lib\t", "LIB")))
            body += open(a).read()
            open(a, "w").write(body)
    rc, out = vlib.sh(f"{os.path.join(vlib.BUILD, 'c17', 'driver')} < {P('cases.txt')} > {P('model.txt')}", timeout=3000)
    if rc != 0:
        res.violation(dict(kind="machinery-error", what="driver run failed", log=out[-3000:]), no_input=True)
        return
    cases = open(P("cases.txt")).read().split("\n")[:-1]
    impl = open(P("impl.txt")).read().split("\n")[:-1]
    model = open(P("model.txt")).read().split("\n")[:-1]
    assert len(cases) == len(impl) == len(model), (len(cases), len(impl), len(model))

    library = []
    disagreements, prop_fail = [], []
    docs = parse_rejected = 0
    nontrivial = set()
    seen_src = set()
    outcomes, pos_counts = {}, {name: 0 for name, _ in POSITIONS}
    n_self = n_disc_keys = n_requests = n_probes = n_logged = n_resolved_ok = n_exact = 0
    samples = []
    for c, i, m in zip(cases, impl, model):
        f = c.split("\t")
        if f[0] == "lib":
            library = f[3].split(" ")
            continue
        docs += 1
        src = dec(f[3])
        I, M = fields(i), fields(m)
        fail = lambda why: prop_fail.append((c, i, m, why))
        differ = lambda what: disagreements.append((c, i, m, what))
        if "PANIC" in i:
            fail("the implementation panicked")
            continue
        if I.get("P") != M.get("P"):
            differ("parse verdict (parser model of C12)")
            continue
        if I.get("P") != "OK":
            parse_rejected += 1
            continue
        D, A, O, S, X = I["D"], I["A"], I["O"], I["S"], I["X"]
        looked = [k for k in I["L"].split(" ") if k]
        n_probes += len(library)
        # ---- (a) correspondence: model observation == implementation observation
        if D != M["D"]:
            differ("packages(): discovered keys / spans / error")
        if S != M["S"]:
            differ("has_self_new (specification predicate) vs the harness' walk of the real AST")
        if X != M["X"]:
            differ("own package name")
        R = [e for e in M["R"].split(" ") if e]
        Rkeys = keys_of(M["R"])
        n_requests += len(Rkeys)
        if not set(looked) <= set(Rkeys):
            differ("a package actually looked up by resolution is not in the model's requests: %s"
                   % sorted(set(looked) - set(Rkeys)))
        if I["H"] != "-":
            H = [e for e in I["H"].split(" ") if e]
            n_logged += len(H)
            Rplain = [e for e in R if not e.startswith("!")]
            if H != Rplain[:len(H)]:
                differ("the request log of resolve_package is not a prefix of the model's requests")
            if (A.startswith("OK ") or A.startswith("ENCERR ")) and H != Rplain:
                differ("resolution succeeded but the request log is not the whole request list of the model")
        if A.startswith("OK ") or A.startswith("ENCERR "):
            n_resolved_ok += 1
            if set(looked) != set(Rkeys):
                differ("resolution succeeded but the keys looked up differ from the model's requests")
            else:
                n_exact += 1
        # ---- (b) the property on the implementation's own observations
        if S == "1":
            n_self += 1
            if not D.startswith("ERR CannotInstantiateSelf"):
                fail("the document instantiates its own package but discovery did not reject it (got %r)" % D[:80])
        elif not D.startswith("OK"):
            fail("discovery failed although the document does not instantiate its own package (got %r)" % D[:80])
        if D.startswith("OK"):
            dkeys = keys_of(D[3:])
            n_disc_keys += len(dkeys)
            if any(name_of(k) == X for k in dkeys):
                fail("the document's own package %r is among the discovered packages" % X)
            if len(set(dkeys)) != len(dkeys):
                fail("a key is reported twice")
            missing = [k for k in looked if k not in dkeys]
            if missing:
                fail("resolution looks up %s which discovery did not report" % missing)
            if I["H"] != "-":
                hmiss = [k for k in keys_of(I["H"]) if k not in dkeys]
                if hmiss and not missing:
                    fail("resolve_package was called for %s which discovery did not report" % sorted(set(hmiss)))
            if O != A and not missing:
                fail("resolving with only the discovered packages gives %r, with all packages %r" % (O, A))
        # ---- bookkeeping
        oc = A.split(" ")[0] + ("" if A.startswith("OK") else " " + A.split(" ")[1])
        outcomes[oc] = outcomes.get(oc, 0) + 1
        if src not in seen_src:
            seen_src.add(src)
            if D.startswith("ERR") or (D.startswith("OK") and len(D) > 2):
                nontrivial.add(src)
        for name, rx in POSITIONS:
            if rx is None:
                if re.search(r"(^|[\s(])" + re.escape(X) + r"/", src):
                    pos_counts[name] += 1
            elif re.search(rx, src, re.M):
                pos_counts[name] += 1
        if len(samples) < 3 and f[2].startswith("gen") and A.startswith("OK") and len(looked) >= 3 and len(src) < 700:
            samples.append(dict(origin=f[2], source=src, discovered=D, resolve_all=A, resolve_discovered_only=O,
                                looked_up=looked, model_requests=M["R"]))
        if len(samples) < 4 and f[2].startswith("gen") and S == "1" and len(src) < 500:
            samples.append(dict(origin=f[2], source=src, discovered=D, resolve_all=A))

    res.coverage.update(dict(
        correspondence_cases=docs, evaluations=docs, documents_parsed=docs - parse_rejected,
        resolutions_run=(docs - parse_rejected) * (2 + len(library)), library=library,
        request_log_hook=("applied (exact call sequence compared)" if hook else
                          "not applied: looked-up keys obtained by removing one library package at a time"),
        disagreements=len(disagreements), spec_failures_on_impl=len(prop_fail),
        self_new_documents=n_self, discovered_keys_total=n_disc_keys, model_requests_total=n_requests,
        logged_requests_total=n_logged, resolutions_succeeding=n_resolved_ok, succeeded_with_exact_request_set=n_exact,
        outcomes_with_all_packages=outcomes, positions_exercised=pos_counts,
        distinct_nontrivial=len(nontrivial),
        rule="corpus/C17 (named `new` after spread / non-final fill / inferred arguments, incl. self-new) + 42 hand-written "
             "documents (one per syntactic position, version combinations, own-package references, "
             "self-new at depth, unknown packages, wrong kinds, all four argument forms in one list) + documents generated from a seeded PRNG: 1-8 statements "
             "among interface / world / type / let / export / import, each package reference drawn from a 12-package "
             "library (6 WIT packages incl. three versions of one name and a pre-release+build version, 8 components "
             "with 0-2 instance imports incl. two versions of a name, one importing the function the others export so that "
             "spread arguments can succeed) or, with small probability, the own package, a "
             "wrong kind, a missing export, an unknown package/version; `new` nested up to depth 3 through named "
             "arguments (identifier and string names) and 0-2 levels of parentheses; argument lists are shuffled and spread, "
             "inferred and NON-final fill arguments are inserted at random positions (one document in four uses them "
             "heavily), so named arguments with nested `new` follow every other form; the own package name is sometimes "
             "a library name. Each document: packages(), resolve+encode with all packages, with the discovered ones "
             "only, and with each library package removed. non-trivial = distinct source text that parses and whose "
             "discovery reports at least one key or rejects a self-instantiation",
        samples=samples[:4],
        trusted_base=vlib.TRUSTED_COMMON + [
            "models Visitor.v (visitor.rs, packages() in wac-resolver/src/lib.rs) and ResolveSkel.v (resolution.rs reduced "
            "to resolve_package calls) are hand-written; tied by this correspondence",
            "ResolveSkel.v: every non-package decision of the resolver is an oracle of (packages registered so far, "
            "position); the resolver is assumed to read the supplied map only in resolve_package (checked: removing a "
            "library package changes the outcome only if the model lists it as requested)",
            "parser model Lexer.v/Parser.v (C12) produces the AST the models run on; compared here through packages() "
            "spans and on every run of C12",
            "wit-parser / wit-component / wat build the library packages; wac-graph/wac-types decode them (oracle side)",
            "src/lib.rs PackageResolver::resolve (file system + registry lookup of the discovered keys) is not "
            "modelled here (C18, C20)"]))
    res.assumptions = ["documents are valid UTF-8 and parse; discovery and resolution are run on the same Document value",
                       "package keys compare by name and structural version equality (BorrowedPackageKey derives Eq/Hash)"]
    # ---- outcome
    prop_fail.sort(key=lambda t: len(t[0]))
    for c, i, m, why in prop_fail[:5]:
        f = c.split("\t")
        res.violation(dict(kind="property-fails-on-implementation", what=why, case=c, origin=f[2], source=dec(f[3]),
                           implementation=fields(i), model=fields(m)))
    if not prop_fail:
        if disagreements:
            disagreements.sort(key=lambda t: len(t[0]))
            c, i, m, what = disagreements[0]
            f = c.split("\t")
            res.violation(dict(kind="correspondence-broken",
                               what="model and implementation differ (%s); the property still holds on every "
                                    "implementation observation of this run" % what,
                               correspondence="Visitor.v / ResolveSkel.v vs visitor.rs / lib.rs / resolution.rs",
                               case=c, origin=f[2], source=dec(f[3]), implementation=fields(i), model=fields(m),
                               n=len(disagreements)), no_input=True)
        if res.proof_broken:
            res.violation(res.proof_broken, no_input=True)
