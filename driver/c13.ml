open Model
open Common

(* UTF-8 encode a list of scalar values *)
let utf8 (l : n list) : string =
  let b = Buffer.create 256 in
  List.iter (fun c -> Buffer.add_utf_8_uchar b (Uchar.of_int (int_of_n c))) l;
  Buffer.contents b

(* argv.(1): which of the three repairs the implementation under test has, as a 3-character 0/1 string
   (targets keyword, fill comma, doc blank line); default: none *)
let bits = if Array.length Sys.argv > 1 then Sys.argv.(1) else "000"
let cur = { fx_targets_keyword = bits.[0] = '1'; fx_fill_comma = bits.[1] = '1'; fx_doc_blank_line = bits.[2] = '1' }

(* input : doc \t id \t origin \t source (code points)
   output: REJECT \t why
         | OK \t tree \t text(repaired) \t verdict(repaired) \t text(as implemented, "=" if same) \t verdict(as implemented) *)
let handle = function
  | "doc" :: _id :: _origin :: src :: _ ->
      (match run_c13 cur (dec_str src) with
       | ObsReject why -> "REJECT\t" ^ utf8 why
       | ObsOk (tree, t1, v1, t0, v0, kwc) ->
           String.concat "\t" ["OK"; utf8 tree; enc_str t1; utf8 v1; (if t0 = t1 then "=" else enc_str t0); utf8 v0;
                               (if kwc then "kwc=1" else "kwc=0")])
  | _ -> "BAD-LINE"

let () = main handle
