(* C20 driver.  Input lines (tab separated):
     reg <name> <ver>=<marker|Y>;...          -> adds a package log to the registry, prints "ok"
     rs <threads> <name>|<ver or ->|<span>|<valid>;... <implementation observation fields...>
   Output for an rs line:
     <a>\t<f>\t<s>\t<model answer, spawn order>\t<number of distinct model answers over all completion orders>
   a = 1 iff the observation equals the as-found model ([resolve]) for SOME completion order,
   f = the same for the repaired model ([resolve_fixed]),
   s = [spec_check] evaluated on the observation. *)
open Model
open Common

let registry : (n list * (version * rstate) list) list ref = ref []

let ver s = match parse_version (dec_str s) with Some v -> v | None -> failwith ("bad version " ^ s)
let split c s = if s = "" then [] else String.split_on_char c s

let parse_keys s =
  List.map (fun x -> match String.split_on_char '|' x with
    | [nm; v; sp; ok] ->
        let name = dec_str nm in
        (((name, (if v = "-" then None else Some (ver v))), n_of_int (int_of_string sp)), ok = "1")
    | _ -> failwith "bad key") (split ';' s)

let foreign_key = ([N0], None)

let parse_obs keys = function
  | "OK" :: rest ->
      let items = match rest with [] -> [] | x :: _ -> split ';' x in
      Some (ROk (List.map (fun it -> match String.split_on_char ':' it with
        | [pos; marker] ->
            let k = if pos = "x" then foreign_key else fst (List.nth keys (int_of_string pos)) in
            (k, n_of_int (int_of_string marker))
        | _ -> failwith "bad item") items))
  | ["ERR"; "InvalidPackageName"; nm; _; sp] -> Some (RErr (EInvalidPackageName (dec_str nm, n_of_int (int_of_string sp))))
  | ["ERR"; "PackageDoesNotExist"; nm; _; sp] -> Some (RErr (EPackageDoesNotExist (dec_str nm, n_of_int (int_of_string sp))))
  | ["ERR"; "PackageVersionDoesNotExist"; nm; v; sp] ->
      Some (RErr (EPackageVersionDoesNotExist (dec_str nm, ver v, n_of_int (int_of_string sp))))
  | ["ERR"; "PackageNoReleases"; nm; _; sp] -> Some (RErr (EPackageNoReleases (dec_str nm, n_of_int (int_of_string sp))))
  | "ERR" :: "RegistryDownloadFailure" :: _ -> Some (RErr ERegistryDownloadFailure)
  | "PANIC" :: _ -> Some RPanic
  | _ -> None

let index_of keys k =
  let rec go i = function [] -> "x" | (k', _) :: r -> if pkey_eqb k' k then string_of_int i else go (i + 1) r in
  go 0 keys

let show_result keys = function
  | ROk m -> "OK " ^ String.concat ";" (List.map (fun (k, c) -> index_of keys k ^ ":" ^ string_of_int (int_of_n c)) m)
  | RErr e -> (match e with
      | EInvalidPackageName (n, s) -> Printf.sprintf "ERR InvalidPackageName %s - %d" (enc_str n) (int_of_n s)
      | EPackageDoesNotExist (n, s) -> Printf.sprintf "ERR PackageDoesNotExist %s - %d" (enc_str n) (int_of_n s)
      | EPackageVersionDoesNotExist (n, v, s) ->
          Printf.sprintf "ERR PackageVersionDoesNotExist %s %s %d" (enc_str n) (enc_str (show_version20 v)) (int_of_n s)
      | EPackageNoReleases (n, s) -> Printf.sprintf "ERR PackageNoReleases %s - %d" (enc_str n) (int_of_n s)
      | ERegistryDownloadFailure -> "ERR RegistryDownloadFailure")
  | RPanic -> "PANIC"

let uniq l = List.sort_uniq compare l

let handle = function
  | ["reg"; name; rels] | ["reg"; name; rels; _] ->
      let rs = List.map (fun x -> match String.split_on_char '=' x with
        | [v; "Y"] -> (ver v, Yanked)
        | [v; m] -> (ver v, Released (n_of_int (int_of_string m)))
        | _ -> failwith "bad release") (split ';' rels) in
      registry := !registry @ [(dec_str name, rs)];
      "ok"
  | ["reg"; name] -> registry := !registry @ [(dec_str name, [])]; "ok"
  | "rs" :: _threads :: keys :: obs ->
      let ks = parse_keys keys in
      let keys = List.map fst ks in
      let valid name =
        match List.find_opt (fun (((n, _), _), _) -> str_eqb n name) ks with Some (_, ok) -> ok | None -> true in
      let reg = !registry in
      let answers resolve tasks = List.map (fun sched -> resolve valid reg keys sched) (perms tasks) in
      let found = answers resolve (tasks_of valid keys) in
      let fixed = answers resolve_fixed (tasks_of_fixed valid keys) in
      let o = parse_obs keys obs in
      let mem l = match o with Some r -> List.mem r l | None -> false in
      let spec = match o with Some r -> spec_check valid reg keys r | None -> false in
      let first = resolve valid reg keys (tasks_of valid keys) in
      String.concat "\t" [show_bool (mem found); show_bool (mem fixed); show_bool spec;
                          show_result keys first; string_of_int (List.length (uniq (List.map (show_result keys) found)))]
  | _ -> "BAD-LINE"

let () = main handle
