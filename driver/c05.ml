open Model
open Common

(* UTF-8 encode a list of scalar values *)
let utf8 (l : n list) : string =
  let b = Buffer.create 256 in
  List.iter (fun c -> Buffer.add_utf_8_uchar b (Uchar.of_int (int_of_n c))) l;
  Buffer.contents b

(* one case per line:  <kind> \t <id> \t <source as comma separated code points> [\t <source of a dependency package>]
   answer:            <model observation> \t <denotation> *)
let handle = function
  | _kind :: _id :: src :: rest ->
      let src = dec_str src in
      let dep = match rest with d :: _ -> dec_str d | [] -> [] in
      utf8 (run_model dep src) ^ "\t" ^ utf8 (run_den dep src)
  | _ -> "BAD-LINE"

let () = main handle
