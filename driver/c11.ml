open Model
open Common

(* a description = seven fields: implicit, world imports, world exports, composition imports
   (name:kind:explicit), composition exports, promote table (a>b;...), true pairs of the oracle (a:b;...) *)
let split c s = if s = "" then [] else String.split_on_char c s

let nk s = List.map (fun e -> match String.split_on_char ':' e with
    | [n; k] -> (dec_str n, int_of_string k) | _ -> failwith "nk") (split ';' s)
let nkb s = List.map (fun e -> match String.split_on_char ':' e with
    | [n; k; b] -> ((dec_str n, int_of_string k), b = "1") | _ -> failwith "nkb") (split ';' s)

let show_verdict = function
  | ROk -> "OK"
  | RErr (ImportNotInTarget n) -> "INT:" ^ enc_str n
  | RErr (MissingTargetExport n) -> "MTE:" ^ enc_str n
  | RErr (TargetMismatch (EImport, n)) -> "TMI:" ^ enc_str n
  | RErr (TargetMismatch (EExport, n)) -> "TME:" ^ enc_str n

let names l = String.concat ";" (List.map enc_str l)

let show_report = function
  | SPanic -> "PANIC"
  | SReport r ->
    if report_ok r then "OK"
    else
      "ERR nit=" ^ names r.r_not_in_target ^ "|miss=" ^ names r.r_missing ^ "|mm="
      ^ String.concat ";" (List.map (fun (n, e) -> enc_str n ^ "/" ^ (match e with EImport -> "I" | EExport -> "E"))
                             r.r_mismatched)

let describe = function
  | [f1; f2; f3; f4; f5; f6; f7] ->
    if f1 = "NA" then "NA"
    else begin
      let w = { tw_implicit = nk f1; tw_imports = nk f2; tw_exports = nk f3 } in
      let c = { c_imports = nkb f4; c_exports = nk f5 } in
      let prom = List.map (fun e -> match String.split_on_char '>' e with
          | [a; b] -> (int_of_string a, int_of_string b) | _ -> failwith "prom") (split ';' f6) in
      let yes = Hashtbl.create 64 in
      List.iter (fun e -> match String.split_on_char ':' e with
          | [a; b] -> Hashtbl.replace yes (int_of_string a, int_of_string b) ()
          | _ -> failwith "yes") (split ';' f7);
      let promote k = try List.assoc k prom with Not_found -> k in
      let sub a b = Hashtbl.mem yes (a, b) in
      let keq (a : int) (b : int) = a = b in
      let a = show_verdict (resolve_target promote sub w c) in
      let a2 = match resolve_target_sv promote sub w c with Some v -> show_verdict v | None -> "PANIC" in
      let b = show_report (standalone_target promote sub w c) in
      let se = show_verdict (spec_first promote sub Exact w c) in
      let sf = show_verdict (spec_first promote sub Semver w c) in
      let ss = "nit=" ^ names (spec_not_in_target promote sub Semver w c)
               ^ "|miss=" ^ names (spec_missing promote sub Semver w c)
               ^ "|mm=" ^ names (spec_mismatched promote sub Semver w c) in
      let ce = show_bool (conforms_b promote sub Exact w c) in
      let cs = show_bool (conforms_b promote sub Semver w c) in
      let wf = show_bool (consistent_b keq (wtable w) && consistent_b keq c.c_exports) in
      let xn = show_bool (exact_names_b w c) in
      String.concat "&" ["A=" ^ a; "A2=" ^ a2; "B=" ^ b; "SE=" ^ se; "SF=" ^ sf; "SS=" ^ ss; "CE=" ^ ce; "CS=" ^ cs; "WF=" ^ wf; "XN=" ^ xn]
    end
  | _ -> "BAD-DESC"

let rec take n l = if n = 0 then [] else match l with [] -> [] | x :: r -> x :: take (n - 1) r
let rec drop n l = if n = 0 then l else match l with [] -> [] | _ :: r -> drop (n - 1) r

let handle = function
  | "pair" :: rest when List.length rest = 14 -> describe (take 7 rest) ^ "\t" ^ describe (drop 7 rest)
  | "api" :: rest when List.length rest = 7 -> describe rest
  | ["compat"; a; b] -> show_bool (compat (dec_str a) (dec_str b))
  | "skip" :: _ -> "SKIP"
  | _ -> "BAD-LINE"

let () = main handle
