open Model
open Common

(* UTF-8 encode a list of scalar values *)
let utf8 (l : n list) : string =
  let b = Buffer.create 256 in
  List.iter (fun c -> Buffer.add_utf_8_uchar b (Uchar.of_int (int_of_n c))) l;
  Buffer.contents b

let handle = function
  | "doc" :: _id :: _origin :: src :: _ -> utf8 (run_c17 (dec_str src))
  | "lib" :: _ -> "LIB"
  | _ -> "BAD-LINE"

let () = main handle
