open Model
open Common

(* ---- universe parsed from the `U ...` header lines (one block per library, `U reset` starts a block) ---- *)
type kinfo = { cls : string; kid_id : int option; promote : int; exports : (int * int) list }
let kinds : (int, kinfo) Hashtbl.t = Hashtbl.create 64
type pinfo = { pname : n list; pver : version option; pinst : int; pimports : (int * int) list; pdefs : (int * int) list }
let pkgs : (int * pinfo) list ref = ref []
let funcs : (string, int) Hashtbl.t = Hashtbl.create 8
let subs : (int * int, unit) Hashtbl.t = Hashtbl.create 1024
let name_ok : (int, bool * bool) Hashtbl.t = Hashtbl.create 64
(* interning: pool names keep the harness's indexes, anything else gets 100000+ *)
let by_text : (string, int) Hashtbl.t = Hashtbl.create 64
let by_idx : (int, n list) Hashtbl.t = Hashtbl.create 64
let next_fresh = ref 100000

let key (s : n list) : string = enc_str s
let reset () =
  Hashtbl.reset kinds; pkgs := []; Hashtbl.reset funcs; Hashtbl.reset subs; Hashtbl.reset name_ok;
  Hashtbl.reset by_text; Hashtbl.reset by_idx; next_fresh := 100000

let intern (s : n list) : int =
  match Hashtbl.find_opt by_text (key s) with
  | Some i -> i
  | None -> let i = !next_fresh in incr next_fresh; Hashtbl.replace by_text (key s) i; Hashtbl.replace by_idx i s; i
let text (i : int) : n list = match Hashtbl.find_opt by_idx i with Some s -> s | None -> []

let split c s = if s = "" then [] else String.split_on_char c s
let pairs s = List.map (fun kv -> match String.split_on_char '=' kv with
    | [a; b] -> (int_of_string a, int_of_string b) | _ -> failwith ("pair " ^ kv)) (split ',' s)
let after_eq s = match String.index_opt s '=' with Some i -> String.sub s (i + 1) (String.length s - i - 1) | None -> s

let header line =
  match String.split_on_char ' ' line with
  | ["U"; "reset"] -> reset ()
  | ["U"; "name"; i; t] -> let s = dec_str t in Hashtbl.replace by_text (key s) (int_of_string i); Hashtbl.replace by_idx (int_of_string i) s
  | ["U"; "kind"; i; cls; id; pr; ex] ->
      let id = after_eq id in
      Hashtbl.replace kinds (int_of_string i)
        { cls; kid_id = (if id = "-" then None else Some (int_of_string id)); promote = int_of_string (after_eq pr); exports = pairs (after_eq ex) }
  | ["U"; "pkg"; i; nm; ver; inst; imps; defs] ->
      let ver = after_eq ver in
      pkgs := !pkgs @ [(int_of_string i,
        { pname = dec_str (after_eq nm); pver = (if ver = "-" then None else parse_version (dec_str ver));
          pinst = int_of_string (after_eq inst); pimports = pairs (after_eq imps); pdefs = pairs (after_eq defs) })]
  | ["U"; "func"; sg; k] -> Hashtbl.replace funcs (key (dec_str sg)) (int_of_string k)
  | ["U"; "sub"; l] ->
      List.iter (fun p -> match String.split_on_char '<' p with
        | [a; b] -> Hashtbl.replace subs (int_of_string a, int_of_string b) () | _ -> ()) (split ',' l)
  | ["U"; "names"; l] ->
      List.iter (fun p -> match String.split_on_char ':' p with
        | [i; f] -> Hashtbl.replace name_ok (int_of_string i) (f.[0] = '1', f.[1] = '1') | _ -> ()) (split ',' l)
  | _ -> ()

let nn = n_of_int
let named l = List.map (fun (a, b) -> (nn a, nn b)) l
let texted l = List.map (fun (a, b) -> (text a, nn b)) l
let unknown_name = ref false

let universe () : runiverse =
  let nk = Hashtbl.length kinds in
  let g : universe = {
    u_inst_exports = (fun k -> match Hashtbl.find_opt kinds (int_of_n k) with
        | Some { cls = "instance"; exports; _ } -> Some (named exports) | _ -> None);
    u_pkgs = List.map (fun (_, p) -> { pd_inst = nn p.pinst; pd_imports = named p.pimports }) !pkgs;
    u_tys = [];
    u_lkinds = List.init nk nn;
    u_sub = (fun a b -> Hashtbl.mem subs (int_of_n a, int_of_n b));
    u_import_name_ok = (fun n -> match Hashtbl.find_opt name_ok (int_of_n n) with Some (a, _) -> a | None -> unknown_name := true; false);
    u_export_name_ok = (fun n -> match Hashtbl.find_opt name_ok (int_of_n n) with Some (_, b) -> b | None -> unknown_name := true; false) } in
  { ru_graph = g;
    ru_intern = (fun s -> nn (intern s));
    ru_text = (fun n -> text (int_of_n n));
    ru_pkg_find = (fun nm v ->
      let rec go i = function
        | [] -> None
        | (_, p) :: r ->
            let same_v = match p.pver, v with None, None -> true | Some a, Some b -> version_eqb a b | _ -> false in
            if p.pname = nm && same_v then Some (nat_of_int i) else go (i + 1) r in
      go 0 !pkgs);
    ru_pkg_defs = (fun i -> match List.nth_opt !pkgs (int_of_nat i) with Some (_, p) -> texted p.pdefs | None -> []);
    ru_proj_exports = (fun k -> match Hashtbl.find_opt kinds (int_of_n k) with
        | Some { cls = ("instance" | "iface" | "world" | "component"); exports; _ } -> Some (texted exports) | _ -> None);
    ru_promote = (fun k -> match Hashtbl.find_opt kinds (int_of_n k) with Some i -> nn i.promote | None -> k);
    ru_kind_id = (fun k -> match Hashtbl.find_opt kinds (int_of_n k) with Some { kid_id = Some i; _ } -> Some (text i) | _ -> None);
    ru_func_kind = (fun s -> match Hashtbl.find_opt funcs (key s) with Some k -> Some (nn k) | None -> None) }

(* ---- printing ---- *)
let utf8 (l : n list) : string =
  let b = Buffer.create 64 in
  List.iter (fun c -> Buffer.add_utf_8_uchar b (Uchar.of_int (int_of_n c))) l;
  Buffer.contents b

let show_name_idx (i : int) : string =
  if i < 100000 then string_of_int i
  else "?" ^ String.map (fun c -> if String.contains ",|:=()[] " c then '_' else c) (utf8 (text i))
let show_name (n : n) = show_name_idx (int_of_n n)
let show_str (s : n list) = show_name_idx (intern s)
let optn = function None -> "-" | Some x -> show_name x

let dump (u : universe) (s : gstate) : string =
  let b = Buffer.create 256 in
  let ids = List.map int_of_nat (node_ids s) in
  Buffer.add_string b "N[";
  List.iter (fun i -> match get_node s (nat_of_int i) with
    | Some nd ->
        let tag, imp = match nd.nk with NDef -> "D", None | NImport n -> "I", Some n | NInst _ -> "S", None | NAlias -> "A", None in
        let pk = match nd.npkg with Some (a, g) -> Printf.sprintf "%d.%d" (int_of_nat a) (int_of_nat g) | None -> "-" in
        Buffer.add_string b (Printf.sprintf "%d:%s:%s:%d:%s:%s:%s," i tag pk (int_of_n nd.nitem) (optn nd.nexport) (optn nd.nname) (optn imp))
    | None -> ()) ids;
  Buffer.add_string b "]A[";
  List.iter (fun i ->
    let args = get_args u s (nat_of_int i) in
    if args <> [] then
      Buffer.add_string b (Printf.sprintf "%d:(%s)," i
        (String.concat "," (List.map (fun (n, src) -> Printf.sprintf "%s=%d" (show_name n) (int_of_nat src)) args)))) ids;
  Buffer.add_string b "]L[";
  List.iter (fun i -> match get_alias_source u s (nat_of_int i) with
    | Some (src, e) -> Buffer.add_string b (Printf.sprintf "%d:%d.%s," i (int_of_nat src) (show_name e)) | None -> ()) ids;
  Buffer.add_string b "]I[";
  List.iter (fun ((n, k), nd) -> Buffer.add_string b (Printf.sprintf "(%s,%d,%s),"
    (show_name n) (int_of_n k) (match nd with Some x -> string_of_int (int_of_nat x) | None -> "-"))) (list_imports u s);
  Buffer.add_string b "]P[";
  List.iteri (fun i _ ->
    match find_pkg_slot s (nat_of_int i) with
    | Some slot -> (match List.nth_opt s.pkgs (int_of_nat slot) with
        | Some sl -> Buffer.add_string b (Printf.sprintf "%d=%d.%d," i (int_of_nat slot) (int_of_nat sl.ps_gen)) | None -> ())
    | None -> ()) !pkgs;
  Buffer.add_string b "]S[";
  List.iter (fun i -> match get_node s (nat_of_int i) with
    | Some { nk = NInst sat; _ } ->
        let v = List.sort compare (List.map int_of_nat sat) in
        Buffer.add_string b (Printf.sprintf "%d:[%s]," i (String.concat ", " (List.map string_of_int v)))
    | _ -> ()) ids;
  Buffer.add_string b "]X[";
  List.iter (fun (n, x) -> Buffer.add_string b (Printf.sprintf "%s=%d," (show_name n) (int_of_nat x))) s.exports;
  Buffer.add_string b "]G[";
  List.iter (fun i -> List.iter (fun e ->
      let k = match e.ek with EAlias x -> Printf.sprintf "a%d" (int_of_nat x) | EArg x -> Printf.sprintf "g%d" (int_of_nat x) | EDep -> "d" in
      Buffer.add_string b (Printf.sprintf "%d>%d:%s," i (int_of_nat e.etgt) k)) (outgoing s (nat_of_int i))) ids;
  Buffer.add_string b "]";
  Buffer.contents b

(* what the reference says about encoding: an explicit import may not share its name with an implicit one; implicit
   imports of one name are merged (the merge itself is the aggregator's business: C09) *)
let encode_prediction (u : universe) (s : gstate) : string =
  let imps = list_imports u s in
  let explicit = List.filter_map (fun ((n, _), nd) -> match nd with Some _ -> Some (int_of_n n) | None -> None) imps in
  let implicit = List.filter_map (fun ((n, k), nd) -> match nd with None -> Some (int_of_n n, int_of_n k) | Some _ -> None) imps in
  if List.exists (fun (n, _) -> List.mem n explicit) implicit then "enc:conflict"
  else if List.exists (fun (n, k) -> List.exists (fun (m, j) -> m = n && j <> k) implicit) implicit then "enc:merge"
  else "enc:ok"

let show_err (e : rerr) : string =
  let f v at nm = Printf.sprintf "E:%s:%d:%s" v (int_of_n at) (match nm with Some s -> show_str s | None -> "-") in
  match e with
  | EUndefinedName (n, a) -> f "UndefinedName" a (Some n)
  | EDuplicateName (n, a) -> f "DuplicateName" a (Some n)
  | EUnknownPackage (n, a) -> f "UnknownPackage" a (Some n)
  | EPackageMissingExport (n, a) -> f "PackageMissingExport" a (Some n)
  | EPackagePathMissingExport (n, a) -> f "PackagePathMissingExport" a (Some n)
  | EMissingComponentImport (n, a) -> f "MissingComponentImport" a (Some n)
  | EMismatchedInstantiationArg (n, a) -> f "MismatchedInstantiationArg" a (Some n)
  | EDuplicateInstantiationArg (n, a) -> f "DuplicateInstantiationArg" a (Some n)
  | EMissingInstantiationArg (n, a) -> f "MissingInstantiationArg" a (Some n)
  | ENotAnInstance (OpAccess, a) -> f "NotAnInstance.access" a None
  | ENotAnInstance (OpSpread, a) -> f "NotAnInstance.spread" a None
  | EMissingInstanceExport (n, a) -> f "MissingInstanceExport" a (Some n)
  | EExportRequiresAs a -> f "ExportRequiresAs" a None
  | EExportConflict (n, a) -> f "ExportConflict" a (Some n)
  | EDuplicateExternName (XImport, n, a) -> f "DuplicateExternName.import" a (Some n)
  | EDuplicateExternName (XExport, n, a) -> f "DuplicateExternName.export" a (Some n)
  | EInvalidExternName (XImport, n, a) -> f "InvalidExternName.import" a (Some n)
  | EInvalidExternName (XExport, n, a) -> f "InvalidExternName.export" a (Some n)
  | EFillArgumentNotLast a -> f "FillArgumentNotLast" a None
  | ESpreadInstantiationNoMatch a -> f "SpreadInstantiationNoMatch" a None
  | ESpreadExportNoEffect a -> f "SpreadExportNoEffect" a None

(* ---- the reference (LangSpec) verdict in canonical text ---- *)
let rec show_val = function
  | VImport n -> "I" ^ show_str n
  | VInst k -> "S" ^ string_of_int (int_of_nat k)
  | VAccess (v, e) -> "A(" ^ show_val v ^ "." ^ show_str e ^ ")"

let show_comp (e : senv) : string =
  let imports = String.concat "," (List.map (fun (n, k) -> Printf.sprintf "%s:%d" (show_str n) (int_of_n k)) e.se_imports) in
  let inst (i : sinst) =
    let args = List.filter_map (fun (n, b) -> match binding_value n b with Some v -> Some (show_str n ^ "=" ^ show_val v) | None -> None) i.si_bindings in
    let impl = List.filter_map (fun (n, b) -> match b with BImplicit -> Some (show_str n) | _ -> None) i.si_bindings in
    Printf.sprintf "%d(%s;%s)" (int_of_nat i.si_pkg) (String.concat "," args) (String.concat "," impl) in
  let exports = String.concat "," (List.map (fun (n, v) -> show_str n ^ "=" ^ show_val v) e.se_exports) in
  Printf.sprintf "C|imports=%s|insts=%s|exports=%s" imports (String.concat "/" (List.map inst e.se_insts)) exports

let show_ill (i : illformed) : string =
  let f c n = Printf.sprintf "X|%s|%s" c (match n with Some s -> show_str s | None -> "-") in
  match i with
  | IUndefinedName n -> f "UndefinedName" (Some n) | IDuplicateName n -> f "DuplicateName" (Some n)
  | IMissingArgument n -> f "MissingArgument" (Some n) | IDuplicateArgument n -> f "DuplicateArgument" (Some n)
  | INonInstanceAccess -> f "NonInstanceAccess" None | INonInstanceSpread -> f "NonInstanceSpread" None
  | IFillNotLast -> f "FillNotLast" None | IIneffectiveSpread -> f "IneffectiveSpread" None
  | IConflictingExport n -> f "ConflictingExport" (Some n) | IUnknownPackage n -> f "UnknownPackage" (Some n)
  | IUnknownPath n -> f "UnknownPath" (Some n) | IUnknownArgument n -> f "UnknownArgument" (Some n)
  | IArgumentMismatch n -> f "ArgumentMismatch" (Some n) | IUnknownExport n -> f "UnknownExport" (Some n)
  | IConflictingImport n -> f "ConflictingImport" (Some n) | IInvalidName n -> f "InvalidName" (Some n)
  | IExportNeedsName -> f "ExportNeedsName" None | IOutOfScope -> f "OutOfScope" None

let bits_of s = (s.[0] = '1', s.[1] = '1')
(* argv.(1): the flags accepted as known deviations ("11" = both, the default) *)
let known_flags = if Array.length Sys.argv > 1 then bits_of Sys.argv.(1) else (true, true)
let flags (a, b) : deviations0 = { exact_name_first = a; export_spread_conflicts_error = b }

let spec_verdict (fl : bool * bool) (u : runiverse) (d : document) : string =
  match denote (flags fl) u d with
  | Inl e -> show_comp e
  | Inr i -> show_ill i

let run_model (u : runiverse) (src : n list) : string =
  match parse_impl src with
  | POk (d, _) ->
      unknown_name := false;
      let r = resolve u d in
      let m =
        if !unknown_name then "UNKNOWN-NAME" else
        (match r with
         | Inl st -> Printf.sprintf "OK|%s|%s" (dump u.ru_graph st.rs_g) (encode_prediction u.ru_graph st.rs_g)
         | Inr (FErr e) -> show_err e
         | Inr (FPanic _) -> "PANIC"
         | Inr (FUnsupported _) -> "UNSUPPORTED") in
      let k = spec_verdict known_flags u d in
      let dflags = List.filter (fun fl -> fl <> known_flags) [(false, false); (true, false); (false, true)] in
      (* the reference as written, and with each single known deviation switched back: `=` when equal to SPEC *)
      let others = List.map (fun fl -> let v = spec_verdict fl u d in
                               Printf.sprintf "%d%d:%s" (if fst fl then 1 else 0) (if snd fl then 1 else 0) (if v = k then "=" else v)) dflags in
      m ^ "\t" ^ k ^ "\t" ^ String.concat "\t" others
  | PErr _ -> "PARSE-ERR"
  | PPanic _ -> "PARSE-PANIC"
  | PUnmodelled -> "PARSE-UNMODELLED"
  | PFuel -> "PARSE-FUEL"

let handle = function
  | [line] when String.length line > 1 && line.[0] = 'U' -> header line; line
  | [line] when String.length line > 1 && line.[0] = 'P' ->
      (match String.split_on_char ' ' line with
       | [_; _tag; _fault; src] -> run_model (universe ()) (dec_str src)
       | _ -> "BAD-LINE")
  | _ -> "BAD-LINE"

let () = main handle
