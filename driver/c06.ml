open Model
open Common

(* ---- universe parsed from the `U ...` header lines ---- *)
let kinds_exports : (int, (int * int) list option) Hashtbl.t = Hashtbl.create 64
let pkgs : (int * pkgdesc) list ref = ref []
let tys : (int * tydesc) list ref = ref []
let lkinds : (int * int) list ref = ref []
let subs : (int * int, unit) Hashtbl.t = Hashtbl.create 256
let name_ok : (int, bool * bool) Hashtbl.t = Hashtbl.create 16

let split c s = if s = "" then [] else String.split_on_char c s
let pairs s = List.map (fun kv -> match String.split_on_char '=' kv with
    | [a; b] -> (int_of_string a, int_of_string b) | _ -> failwith ("pair " ^ kv)) (split ',' s)
let after_eq s = match String.index_opt s '=' with Some i -> String.sub s (i + 1) (String.length s - i - 1) | None -> s

let header line =
  match String.split_on_char ' ' line with
  | "U" :: "kind" :: id :: cls :: rest ->
      let ex = match rest with [e] -> e | _ -> "" in
      Hashtbl.replace kinds_exports (int_of_string id) (if cls = "instance" then Some (pairs ex) else None)
  | ["U"; "pkg"; i; inst; imps] ->
      pkgs := !pkgs @ [(int_of_string i,
        { pd_inst = n_of_int (int_of_string (after_eq inst));
          pd_imports = List.map (fun (a, b) -> (n_of_int a, n_of_int b)) (pairs (after_eq imps)) })]
  | ["U"; "ty"; i; res; kind; deps] ->
      tys := !tys @ [(int_of_string i,
        { td_res = (after_eq res = "1"); td_kind = n_of_int (int_of_string (after_eq kind));
          td_deps = List.map (fun x -> nat_of_int (int_of_string x)) (split ',' (after_eq deps)) })]
  | ["U"; "lk"; i; k] -> lkinds := !lkinds @ [(int_of_string i, int_of_string k)]
  | ["U"; "sub"; l] ->
      List.iter (fun p -> match String.split_on_char '<' p with
        | [a; b] -> Hashtbl.replace subs (int_of_string a, int_of_string b) () | _ -> ()) (split ',' l)
  | ["U"; "sub"] -> ()
  | ["U"; "names"; l] ->
      List.iter (fun p -> match String.split_on_char ':' p with
        | [i; f] -> Hashtbl.replace name_ok (int_of_string i) (f.[0] = '1', f.[1] = '1') | _ -> ()) (split ',' l)
  | _ -> ()

let universe () : universe = {
  u_inst_exports = (fun k -> match Hashtbl.find_opt kinds_exports (int_of_n k) with
      | Some (Some l) -> Some (List.map (fun (a, b) -> (n_of_int a, n_of_int b)) l) | _ -> None);
  u_pkgs = List.map snd !pkgs;
  u_tys = List.map snd !tys;
  u_lkinds = List.map (fun (_, k) -> n_of_int k) !lkinds;
  u_sub = (fun a b -> Hashtbl.mem subs (int_of_n a, int_of_n b));
  u_import_name_ok = (fun n -> match Hashtbl.find_opt name_ok (int_of_n n) with Some (a, _) -> a | None -> false);
  u_export_name_ok = (fun n -> match Hashtbl.find_opt name_ok (int_of_n n) with Some (_, b) -> b | None -> false) }

let parse_op s : op option =
  let f = Array.of_list (String.split_on_char ' ' s) in
  let n i = nat_of_int (int_of_string f.(i)) and nm i = n_of_int (int_of_string f.(i)) in
  match f.(0) with
  | "reg" -> Some (Register (n 1)) | "unreg" -> Some (Unregister (n 1, n 2)) | "def" -> Some (DefineType (nm 1, n 2))
  | "imp" -> Some (Import (nm 1, n 2)) | "inst" -> Some (Instantiate (n 1, n 2)) | "alias" -> Some (Alias (n 1, nm 2))
  | "setarg" -> Some (SetArg (n 1, nm 2, n 3)) | "unsetarg" -> Some (UnsetArg (n 1, nm 2, n 3))
  | "export" -> Some (Export (n 1, nm 2)) | "unexport" -> Some (Unexport (n 1)) | "name" -> Some (SetName (n 1, nm 2))
  | "rm" -> Some (RemoveNode (n 1)) | "enc" -> None | _ -> failwith ("op " ^ s)

let show_err = function
  | PackageAlreadyRegistered -> "PackageAlreadyRegistered" | TypeAlreadyDefined -> "TypeAlreadyDefined"
  | CannotDefineResource -> "CannotDefineResource" | ExportConflict -> "ExportConflict" | InvalidExternName -> "InvalidExternName"
  | ImportAlreadyExists n -> Printf.sprintf "ImportAlreadyExists(%d)" (int_of_nat n) | InvalidImportName -> "InvalidImportName"
  | NodeIsNotAnInstance -> "NodeIsNotAnInstance" | InstanceMissingExport -> "InstanceMissingExport"
  | ExportAlreadyExists n -> Printf.sprintf "ExportAlreadyExists(%d)" (int_of_nat n) | InvalidExportName -> "InvalidExportName"
  | MustExportDefinition -> "MustExportDefinition" | NodeIsNotAnInstantiation -> "NodeIsNotAnInstantiation"
  | InvalidArgumentName -> "InvalidArgumentName" | ArgumentTypeMismatch -> "ArgumentTypeMismatch"
  | ArgumentAlreadyPassed -> "ArgumentAlreadyPassed"

let show_out = function
  | OUnit -> "ok" | ONode n -> Printf.sprintf "n%d" (int_of_nat n)
  | OPkg (i, g) -> Printf.sprintf "pkg%d.%d" (int_of_nat i) (int_of_nat g)
  | OErr e -> "E:" ^ show_err e | OPanic _ -> "PANIC"

let optn = function None -> "-" | Some x -> string_of_int (int_of_n x)
let npkgs = 5 and nnames = 12

let dump u (s : gstate) : string =
  let b = Buffer.create 256 in
  let ids = List.map int_of_nat (node_ids s) in
  Buffer.add_string b "N[";
  List.iter (fun i -> match get_node s (nat_of_int i) with
    | Some nd ->
        let tag, imp = match nd.nk with NDef -> "D", None | NImport n -> "I", Some n | NInst _ -> "S", None | NAlias -> "A", None in
        let pk = match nd.npkg with Some (a, g) -> Printf.sprintf "%d.%d" (int_of_nat a) (int_of_nat g) | None -> "-" in
        Buffer.add_string b (Printf.sprintf "%d:%s:%s:%d:%s:%s:%s," i tag pk (int_of_n nd.nitem) (optn nd.nexport) (optn nd.nname) (optn imp))
    | None -> ()) ids;
  Buffer.add_string b "]A[";
  List.iter (fun i ->
    let args = get_args u s (nat_of_int i) in
    if args <> [] then
      Buffer.add_string b (Printf.sprintf "%d:(%s)," i
        (String.concat "," (List.map (fun (n, src) -> Printf.sprintf "%d=%d" (int_of_n n) (int_of_nat src)) args)))) ids;
  Buffer.add_string b "]L[";
  List.iter (fun i -> match get_alias_source u s (nat_of_int i) with
    | Some (src, e) -> Buffer.add_string b (Printf.sprintf "%d:%d.%d," i (int_of_nat src) (int_of_n e)) | None -> ()) ids;
  Buffer.add_string b "]I[";
  List.iter (fun ((n, k), nd) -> Buffer.add_string b (Printf.sprintf "(%d,%d,%s),"
    (int_of_n n) (int_of_n k) (match nd with Some x -> string_of_int (int_of_nat x) | None -> "-"))) (list_imports u s);
  Buffer.add_string b "]E[";
  for i = 0 to nnames - 1 do
    match alist_get N.eqb s.exports (n_of_int i) with
    | Some x -> Buffer.add_string b (Printf.sprintf "%d=%d," i (int_of_nat x)) | None -> ()
  done;
  Buffer.add_string b "]P[";
  for i = 0 to npkgs - 1 do
    match find_pkg_slot s (nat_of_int i) with
    | Some slot -> (match List.nth_opt s.pkgs (int_of_nat slot) with
        | Some sl -> Buffer.add_string b (Printf.sprintf "%d=%d.%d," i (int_of_nat slot) (int_of_nat sl.ps_gen)) | None -> ())
    | None -> ()
  done;
  (* internal bookkeeping, compared with the guarded hook's dump *)
  Buffer.add_string b "]S[";
  List.iter (fun i -> match get_node s (nat_of_int i) with
    | Some { nk = NInst sat; _ } ->
        let v = List.sort compare (List.map int_of_nat sat) in
        Buffer.add_string b (Printf.sprintf "%d:[%s]," i (String.concat ", " (List.map string_of_int v)))
    | _ -> ()) ids;
  Buffer.add_string b "]X[";
  List.iter (fun (n, x) -> Buffer.add_string b (Printf.sprintf "%d=%d," (int_of_n n) (int_of_nat x))) s.exports;
  Buffer.add_string b "]G[";
  List.iter (fun i -> List.iter (fun e ->
      let k = match e.ek with EAlias x -> Printf.sprintf "a%d" (int_of_nat x) | EArg x -> Printf.sprintf "g%d" (int_of_nat x) | EDep -> "d" in
      Buffer.add_string b (Printf.sprintf "%d>%d:%s," i (int_of_nat e.etgt) k)) (outgoing s (nat_of_int i))) ids;
  Buffer.add_string b "]";
  Buffer.contents b

let handle = function
  | [line] when String.length line > 1 && line.[0] = 'U' -> header line; line
  | [line] when String.length line > 1 && line.[0] = 'H' ->
      let u = universe () in
      let ops = split ';' (String.sub line 2 (String.length line - 2)) in
      let s = ref empty_graph and dead = ref false in
      let obs = List.map (fun o ->
        if !dead then "SKIPPED" else
        match parse_op o with
        | None -> "enc:?|" ^ dump u !s
        | Some op ->
            let (s', out) = step u !s op in
            (match out with OPanic _ -> dead := true; "PANIC|DEAD" | _ -> s := s'; show_out out ^ "|" ^ dump u s')) ops in
      String.concat ";;" obs
  | _ -> "BAD-LINE"

let () = main handle
