open Model
open Common

let show_cmp = function Eq -> "eq" | Lt -> "lt" | Gt -> "gt"
let opt f = function None -> "none" | Some x -> f x

(* value of an insert = its position in the history *)
let handle = function
  | ["compat"; a; b] ->
      let a = dec_str a and b = dec_str b in
      show_bool (compat a b) ^ "\t" ^ show_bool (compat_spec_b a b)
  | ["alt"; a] ->
      opt (fun (k, v) -> enc_str k ^ "|" ^ enc_str (show_version v)) (alt_key (dec_str a))
  | ["parse"; a] -> opt (fun v -> enc_str (show_version v)) (parse_version (dec_str a))
  | ["cmp"; a; b] ->
      (match parse_version (dec_str a), parse_version (dec_str b) with
       | Some x, Some y -> show_cmp (cmp_version x y)
       | _ -> "none")
  | ["nm"; names; queries] ->
      let names = dec_list names and queries = dec_list queries in
      let ops = List.mapi (fun i nm -> (nm, n_of_int i)) names in
      (* per-insert accept/reject *)
      let _, acc = List.fold_left (fun (m, acc) (nm, v) ->
          match nm_insert m nm false v with
          | Some m' -> (m', "1" :: acc) | None -> (m, "0" :: acc)) (nm_empty, []) ops in
      let m = nm_build ops in
      let g = List.map (fun q -> opt (fun v -> string_of_int (int_of_n v)) (nm_get m q)) queries in
      let s = List.map (fun q -> opt (fun v -> string_of_int (int_of_n v)) (spec_get ops q)) queries in
      String.concat "," (List.rev acc) ^ "\t" ^ String.concat "," g ^ "\t" ^ String.concat "," s
  | _ -> "BAD-LINE"

let () = main handle
