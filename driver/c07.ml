(* C07 driver: interprets the build programs emitted by harness/src/bin/c07.rs into the Coq model's [types]
   records, runs the extracted checker model and the extracted specification [sub_b].
   Output per case:   <model observation> TAB <spec verdict>     (spec: 1 / 0, or - when a side involves resources)
   memo cases:        <r1,..,rn> TAB <fresh r_n> TAB <spec verdict of the last check> *)
open Model
open Common

let str_of (s : string) : n list = List.init (String.length s) (fun i -> n_of_int (Char.code s.[i]))
let fuel = nat_of_int 40

type built = { mutable d : deftype list; mutable r : resource list; mutable f : functype list;
               mutable i : interface list; mutable w : world list; mutable m : moduletype list }

let prims = [| PU8; PS8; PU16; PS16; PU32; PS32; PU64; PS64; PF32; PF64; PChar; PBool; PString; PErrorContext |]
let num s = int_of_string s
let tail s = String.sub s 1 (String.length s - 1)
let mk tag k = { id_tag = tag; id_idx = nat_of_int k }

let vt tag (x : string) : valtype =
  let k = num (tail x) in
  match x.[0] with
  | 'p' -> VPrim prims.(k) | 'd' -> VDefined (mk tag k) | 'o' -> VOwn (mk tag k) | 'b' -> VBorrow (mk tag k)
  | _ -> failwith ("bad vt " ^ x)
let ovt tag x = if x = "-" then None else Some (vt tag x)
let kind tag (x : string) : kind =
  let c = String.index x ':' in
  let t = String.sub x 0 c and rest = String.sub x (c + 1) (String.length x - c - 1) in
  let id () = mk tag (num rest) in
  match t with
  | "tr" -> KType (TResource (id ())) | "tf" -> KType (TFunc (id ())) | "tv" -> KType (TValue (vt tag rest))
  | "ti" -> KType (TInterface (id ())) | "tw" -> KType (TWorld (id ())) | "tm" -> KType (TModule (id ()))
  | "f" -> KFunc (id ()) | "i" -> KInstance (id ()) | "c" -> KComponent (id ()) | "m" -> KModule (id ())
  | "v" -> KValue (vt tag rest)
  | _ -> failwith ("bad kind " ^ x)

let heap = function
  | "func" -> HFunc | "extern" -> HExtern | "any" -> HAny | "none" -> HNone | "noextern" -> HNoExtern
  | "nofunc" -> HNoFunc | "eq" -> HEq | "struct" -> HStruct | "array" -> HArray | "i31" -> HI31 | "exn" -> HExn
  | "noexn" -> HNoExn | "cont" -> HCont | "nocont" -> HNoCont
  | c -> HConcrete (n_of_int (num (tail c)))
let reft x =
  let dot = String.index x '.' in
  { r_nullable = (String.sub x 1 (dot - 1) = "1"); r_heap = heap (String.sub x (dot + 1) (String.length x - dot - 1)) }
let coret = function
  | "i32" -> CI32 | "i64" -> CI64 | "f32" -> CF32 | "f64" -> CF64 | "v128" -> CV128 | r -> CRef (reft r)

(* token stream *)
let toks = ref [||] and pos = ref 0
let next () = let x = !toks.(!pos) in incr pos; x
let nnum () = num (next ())
let flag () = next () = "1"
let onum () = let x = next () in if x = "-" then None else Some (n_of_int (num x))
let rec times k f = if k = 0 then [] else let x = f () in x :: times (k - 1) f

let corefunc () =
  let np = nnum () in let ps = times np (fun () -> coret (next ())) in
  let nr = nnum () in let rs = times nr (fun () -> coret (next ())) in
  { cf_params = ps; cf_results = rs }
let coreextern () =
  match next () with
  | "func" -> CEFunc (corefunc ()) | "tag" -> CETag (corefunc ())
  | "table" -> let e = reft (next ()) in let i = n_of_int (nnum ()) in let m = onum () in let t64 = flag () in let sh = flag () in
    CETable (e, i, m, t64, sh)
  | "memory" -> let m64 = flag () in let sh = flag () in let i = n_of_int (nnum ()) in let m = onum () in let p = onum () in
    CEMemory (m64, sh, i, m, p)
  | "global" -> let v = coret (next ()) in let mu = flag () in let sh = flag () in CEGlobal (v, mu, sh)
  | x -> failwith ("bad extern " ^ x)

let items tag () = let k = nnum () in times k (fun () -> let nm = str_of (next ()) in (nm, kind tag (next ())))

let build (tag : n) (prog : string) : types =
  let b = { d = []; r = []; f = []; i = []; w = []; m = [] } in
  if String.trim prog <> "." then begin
    let all = Array.of_list (List.filter (fun x -> x <> "") (String.split_on_char ' ' prog)) in
    (* split at ";" tokens *)
    let defs = ref [] and cur = ref [] in
    Array.iter (fun t -> if t = ";" then (defs := List.rev !cur :: !defs; cur := []) else cur := t :: !cur) all;
    defs := List.rev !cur :: !defs;
    List.iter (fun def ->
      toks := Array.of_list def; pos := 0;
      match next () with
      | "D" ->
        let ty = match next () with
          | "tuple" -> let k = nnum () in DTuple (times k (fun () -> vt tag (next ())))
          | "list" -> DList (vt tag (next ()))
          | "fsl" -> let v = vt tag (next ()) in DFsl (v, n_of_int (nnum ()))
          | "option" -> DOption (vt tag (next ()))
          | "result" -> let o = ovt tag (next ()) in let e = ovt tag (next ()) in DResult (o, e)
          | "variant" -> let k = nnum () in DVariant (times k (fun () -> let nm = str_of (next ()) in (nm, ovt tag (next ()))))
          | "record" -> let k = nnum () in DRecord (times k (fun () -> let nm = str_of (next ()) in (nm, vt tag (next ()))))
          | "flags" -> let k = nnum () in DFlags (times k (fun () -> str_of (next ())))
          | "enum" -> let k = nnum () in DEnum (times k (fun () -> str_of (next ())))
          | "alias" -> DAlias (vt tag (next ()))
          | "stream" -> DStream (ovt tag (next ()))
          | "future" -> DFuture (ovt tag (next ()))
          | x -> failwith ("bad defined " ^ x) in
        b.d <- ty :: b.d
      | "R" ->
        let nm = str_of (next ()) in let a = next () in
        let al = if a = "-" then None else Some (None, mk tag (num (tail a))) in
        b.r <- { res_name = nm; res_alias = al } :: b.r
      | "F" ->
        let a = flag () in let k = nnum () in
        let ps = times k (fun () -> let nm = str_of (next ()) in (nm, vt tag (next ()))) in
        let r = ovt tag (next ()) in
        b.f <- { f_params = ps; f_result = r; f_async = a } :: b.f
      | "I" -> let e = items tag () in b.i <- { i_id = None; i_uses = []; i_exports = e } :: b.i
      | "W" -> let im = items tag () in let ex = items tag () in
        b.w <- { w_id = None; w_uses = []; w_imports = im; w_exports = ex } :: b.w
      | "M" ->
        let ni = nnum () in
        let im = times ni (fun () -> let a = str_of (next ()) in let nm = str_of (next ()) in ((a, nm), coreextern ())) in
        let ne = nnum () in
        let ex = times ne (fun () -> let nm = str_of (next ()) in (nm, coreextern ())) in
        b.m <- { m_imports = im; m_exports = ex } :: b.m
      | x -> failwith ("bad def " ^ x)) (List.rev !defs)
  end;
  { t_tag = tag; t_defined = List.rev b.d; t_resources = List.rev b.r; t_funcs = List.rev b.f;
    t_interfaces = List.rev b.i; t_worlds = List.rev b.w; t_modules = List.rev b.m }

(* ---------------------------------------------------------------- printing of observations *)
let prim_name = function
  | PU8 -> "u8" | PS8 -> "s8" | PU16 -> "u16" | PS16 -> "s16" | PU32 -> "u32" | PS32 -> "s32" | PU64 -> "u64"
  | PS64 -> "s64" | PF32 -> "f32" | PF64 -> "f64" | PChar -> "char" | PBool -> "bool" | PString -> "string"
  | PErrorContext -> "error-context"
let desc = function
  | Dfunction -> "function" | Dinstance -> "instance" | Dcomponent -> "component" | Dmodule -> "module" | Dvalue -> "value"
  | Dresource -> "resource" | Dfunctype -> "function_type" | Dinterface -> "interface" | Dworld -> "world"
  | Dmoduletype -> "module_type" | Dprim p -> prim_name p | Dborrow -> "borrow" | Down -> "own" | Dtuple -> "tuple"
  | Dlist -> "list" | Dfsl -> "list<,N>" | Doption -> "option" | Dresult -> "result" | Dvariant -> "variant"
  | Drecord -> "record" | Dflags -> "flags" | Denum -> "enum" | Dstream -> "stream" | Dfuture -> "future"
let cdesc = function CDfunc -> "function" | CDtable -> "table" | CDmemory -> "memory" | CDglobal -> "global" | CDtag -> "tag"
let b01 b = if b then "1" else "0"
let err = function
  | EExpFound (e, f) -> Printf.sprintf "expfound(%s,%s)" (desc e) (desc f)
  | EResource -> "resource" | EFuncAsync b -> "funcasync(" ^ b01 b ^ ")" | EFuncParamCount -> "paramcount"
  | EFuncParamName -> "paramname" | EFuncResult b -> "funcresult(" ^ b01 b ^ ")"
  | EInstMissing -> "instmissing" | EInstUnexpected -> "instunexpected"
  | ECompImpMissing -> "compimpmissing" | ECompImpUnexpected -> "compimpunexpected"
  | ECompExpMissing -> "compexpmissing" | ECompExpUnexpected -> "compexpunexpected"
  | EModImpMissing -> "modimpmissing" | EModImpUnexpected -> "modimpunexpected"
  | EModExpMissing -> "modexpmissing" | EModExpUnexpected -> "modexpunexpected"
  | ECoreKind (e, f) -> Printf.sprintf "corekind(%s,%s)" (cdesc e) (cdesc f) | ECoreFunc -> "corefunc"
  | ETableElem -> "tableelem" | ETableLimits -> "tablelimits" | ETable64 -> "table64" | ETableShared -> "tableshared"
  | EMemShared -> "memshared" | EMem64 -> "mem64" | EMemLimits -> "memlimits" | EMemPage -> "mempage"
  | EGlobalMut -> "globalmut" | EGlobalType -> "globaltype" | EGlobalShared -> "globalshared"
  | EFslSize -> "fslsize" | EResultArm (o, h) -> Printf.sprintf "resultarm(%s,%s)" (if o then "ok" else "err") (b01 h)
  | EEnumCount -> "enumcount" | EEnumName -> "enumname" | EFlagsCount -> "flagscount" | EFlagsName -> "flagsname"
  | ERecordCount -> "recordcount" | ERecordName -> "recordname" | EVariantCount -> "variantcount"
  | EVariantName -> "variantname" | EVariantPayload b -> "variantpayload(" ^ b01 b ^ ")" | ETupleSize -> "tuplesize"
  | EPayload b -> "payload(" ^ b01 b ^ ")"
let obs = function Ok _ -> "ok" | Err e -> "E:" ^ err e | Panic -> "PANIC" | OutOfFuel -> "OOF"

(* the specification's verdict on the unfolded trees *)
let spec (at : types) (a : kind) (bt : types) (b : kind) : string =
  match unfold fuel at a, unfold fuel bt b with
  | Some ta, Some tb -> if resfree ta && resfree tb then show_bool (sub_b ta tb) else "-"
  | _ -> "?"

let tagA = n_of_int 1 and tagB = n_of_int 2

let handle = function
  | ["flag"] -> "psl_default_normalised=" ^ show_bool psl_default_normalised
  | ["pair"; pa; ka; pb; kb] ->
    let at = build tagA pa and bt = build tagB pb in
    let a = kind tagA ka and b = kind tagB kb in
    obs (check fuel at a bt b) ^ "\t" ^ spec at a bt b
  | ["same"; p; ka; kb] ->
    let at = build tagA p in
    let a = kind tagA ka and b = kind tagA kb in
    obs (check fuel at a at b) ^ "\t" ^ spec at a at b
  | ["memo"; pa; pb; checks] ->
    let ta = build tagA pa and tb = build tagB pb in
    let side c = if c = 'A' then (ta, tagA) else (tb, tagB) in
    let cs = List.map (fun chk ->
        let c = String.index chk ':' in
        let ks = String.sub chk (c + 1) (String.length chk - c - 1) in
        let bar = String.index ks '|' in
        let ka = String.sub ks 0 bar and kb = String.sub ks (bar + 1) (String.length ks - bar - 1) in
        let (xt, xtag) = side chk.[0] and (yt, ytag) = side chk.[1] in
        ((xt, kind xtag ka), (yt, kind ytag kb))) (String.split_on_char ' ' checks) in
    let (rs, _) = run_checks fuel st0 cs in
    let ((xt, x), (yt, y)) = List.nth cs (List.length cs - 1) in
    String.concat "," (List.map obs rs) ^ "\t" ^ obs (check fuel xt x yt y) ^ "\t" ^ spec xt x yt y
  | _ -> "BAD-LINE"

let () = main handle
