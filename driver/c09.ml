(* C09 driver: interprets the build programs emitted by harness/src/bin/c09.rs into the Coq model's [types] records,
   runs the extracted aggregator model under every permutation of the contributors (same lexicographic order as the
   harness) and evaluates the extracted specification.
   Output per case (tab separated):
     1. required trees                       (`;` separated)                         -- as the harness prints them
     2. one record per permutation           (`|` separated)                         -- as the harness prints them
     3. per permutation: specification [sub_b] verdict merged <: required per contributor
        (1 / 0; - when a side involves resources or the canonical name is not an import; x when the run failed)
     4. specification canonical name of every contributor's name (`,` separated)
     5. per permutation: specification merge  S~key=tree;..  |  conflict  |  uses-conflict  |  -  (outside the
        fragment the executable specification speaks about)
     6. per permutation: 1 when the model run does not depend on the iteration order of the [interfaces] HashMap
        (identity vs. reversed), 0 otherwise *)
open Model
open Common

let str_of (s : string) : n list = List.init (String.length s) (fun i -> n_of_int (Char.code s.[i]))
let s_of (l : n list) : string = String.init (List.length l) (fun i -> Char.chr (int_of_n (List.nth l i)))
let fuel = nat_of_int 60
let cfuel = nat_of_int 40
let ufuel = nat_of_int 40

type built = { mutable d : deftype list; mutable r : resource list; mutable f : functype list;
               mutable i : interface list; mutable w : world list; mutable m : moduletype list }

let prims = [| PU8; PS8; PU16; PS16; PU32; PS32; PU64; PS64; PF32; PF64; PChar; PBool; PString; PErrorContext |]
let num s = int_of_string s
let tail s = String.sub s 1 (String.length s - 1)
let mk tag k = { id_tag = tag; id_idx = nat_of_int k }

let vt tag (x : string) : valtype =
  let k = num (tail x) in
  match x.[0] with
  | 'p' -> VPrim prims.(k) | 'd' -> VDefined (mk tag k) | 'o' -> VOwn (mk tag k) | 'b' -> VBorrow (mk tag k)
  | _ -> failwith ("bad vt " ^ x)
let ovt tag x = if x = "-" then None else Some (vt tag x)
let kind tag (x : string) : kind =
  let c = String.index x ':' in
  let t = String.sub x 0 c and rest = String.sub x (c + 1) (String.length x - c - 1) in
  let id () = mk tag (num rest) in
  match t with
  | "tr" -> KType (TResource (id ())) | "tf" -> KType (TFunc (id ())) | "tv" -> KType (TValue (vt tag rest))
  | "ti" -> KType (TInterface (id ())) | "tw" -> KType (TWorld (id ())) | "tm" -> KType (TModule (id ()))
  | "f" -> KFunc (id ()) | "i" -> KInstance (id ()) | "c" -> KComponent (id ()) | "m" -> KModule (id ())
  | "v" -> KValue (vt tag rest)
  | _ -> failwith ("bad kind " ^ x)

let heap = function
  | "func" -> HFunc | "extern" -> HExtern | "any" -> HAny | "none" -> HNone | "noextern" -> HNoExtern
  | "nofunc" -> HNoFunc | "eq" -> HEq | "struct" -> HStruct | "array" -> HArray | "i31" -> HI31 | "exn" -> HExn
  | "noexn" -> HNoExn | "cont" -> HCont | "nocont" -> HNoCont
  | c -> HConcrete (n_of_int (num (tail c)))
let reft x =
  let dot = String.index x '.' in
  { r_nullable = (String.sub x 1 (dot - 1) = "1"); r_heap = heap (String.sub x (dot + 1) (String.length x - dot - 1)) }
let coret = function
  | "i32" -> CI32 | "i64" -> CI64 | "f32" -> CF32 | "f64" -> CF64 | "v128" -> CV128 | r -> CRef (reft r)

(* token stream *)
let toks = ref [||] and pos = ref 0
let next () = let x = !toks.(!pos) in incr pos; x
let nnum () = num (next ())
let flag () = next () = "1"
let onum () = let x = next () in if x = "-" then None else Some (n_of_int (num x))
let rec times k f = if k = 0 then [] else let x = f () in x :: times (k - 1) f

let corefunc () =
  let np = nnum () in let ps = times np (fun () -> coret (next ())) in
  let nr = nnum () in let rs = times nr (fun () -> coret (next ())) in
  { cf_params = ps; cf_results = rs }
let coreextern () =
  match next () with
  | "func" -> CEFunc (corefunc ()) | "tag" -> CETag (corefunc ())
  | "table" -> let e = reft (next ()) in let i = n_of_int (nnum ()) in let m = onum () in let t64 = flag () in let sh = flag () in
    CETable (e, i, m, t64, sh)
  | "memory" -> let m64 = flag () in let sh = flag () in let i = n_of_int (nnum ()) in let m = onum () in let p = onum () in
    CEMemory (m64, sh, i, m, p)
  | "global" -> let v = coret (next ()) in let mu = flag () in let sh = flag () in CEGlobal (v, mu, sh)
  | x -> failwith ("bad extern " ^ x)

let items tag () = let k = nnum () in times k (fun () -> let nm = str_of (next ()) in (nm, kind tag (next ())))
let uses tag () =
  let k = nnum () in
  times k (fun () -> let nm = str_of (next ()) in let i = next () in let e = next () in
            (nm, (mk tag (num (tail i)), if e = "-" then None else Some (str_of e))))
let oid () = let x = next () in if x = "-" then None else Some (str_of x)

let build (tag : n) (prog : string) : types =
  let b = { d = []; r = []; f = []; i = []; w = []; m = [] } in
  if String.trim prog <> "." then begin
    let all = Array.of_list (List.filter (fun x -> x <> "") (String.split_on_char ' ' prog)) in
    let defs = ref [] and cur = ref [] in
    Array.iter (fun t -> if t = ";" then (defs := List.rev !cur :: !defs; cur := []) else cur := t :: !cur) all;
    defs := List.rev !cur :: !defs;
    List.iter (fun def ->
      toks := Array.of_list def; pos := 0;
      match next () with
      | "D" ->
        let ty = match next () with
          | "tuple" -> let k = nnum () in DTuple (times k (fun () -> vt tag (next ())))
          | "list" -> DList (vt tag (next ()))
          | "fsl" -> let v = vt tag (next ()) in DFsl (v, n_of_int (nnum ()))
          | "option" -> DOption (vt tag (next ()))
          | "result" -> let o = ovt tag (next ()) in let e = ovt tag (next ()) in DResult (o, e)
          | "variant" -> let k = nnum () in DVariant (times k (fun () -> let nm = str_of (next ()) in (nm, ovt tag (next ()))))
          | "record" -> let k = nnum () in DRecord (times k (fun () -> let nm = str_of (next ()) in (nm, vt tag (next ()))))
          | "flags" -> let k = nnum () in DFlags (times k (fun () -> str_of (next ())))
          | "enum" -> let k = nnum () in DEnum (times k (fun () -> str_of (next ())))
          | "alias" -> DAlias (vt tag (next ()))
          | "stream" -> DStream (ovt tag (next ()))
          | "future" -> DFuture (ovt tag (next ()))
          | x -> failwith ("bad defined " ^ x) in
        b.d <- ty :: b.d
      | "R" ->
        let nm = str_of (next ()) in let a = next () in
        let al =
          if a = "-" then None
          else match String.index_opt a '@' with
            | None -> Some (None, mk tag (num (tail a)))
            | Some p -> let src = String.sub a 0 p and o = String.sub a (p + 1) (String.length a - p - 1) in
              Some (Some (mk tag (num (tail o))), mk tag (num (tail src))) in
        b.r <- { res_name = nm; res_alias = al } :: b.r
      | "F" ->
        let a = flag () in let k = nnum () in
        let ps = times k (fun () -> let nm = str_of (next ()) in (nm, vt tag (next ()))) in
        let r = ovt tag (next ()) in
        b.f <- { f_params = ps; f_result = r; f_async = a } :: b.f
      | "I" -> let id = oid () in let u = uses tag () in let e = items tag () in
        b.i <- { i_id = id; i_uses = u; i_exports = e } :: b.i
      | "W" -> let id = oid () in let u = uses tag () in let im = items tag () in let ex = items tag () in
        b.w <- { w_id = id; w_uses = u; w_imports = im; w_exports = ex } :: b.w
      | "M" ->
        let ni = nnum () in
        let im = times ni (fun () -> let a = str_of (next ()) in let nm = str_of (next ()) in ((a, nm), coreextern ())) in
        let ne = nnum () in
        let ex = times ne (fun () -> let nm = str_of (next ()) in (nm, coreextern ())) in
        b.m <- { m_imports = im; m_exports = ex } :: b.m
      | x -> failwith ("bad def " ^ x)) (List.rev !defs)
  end;
  { t_tag = tag; t_defined = List.rev b.d; t_resources = List.rev b.r; t_funcs = List.rev b.f;
    t_interfaces = List.rev b.i; t_worlds = List.rev b.w; t_modules = List.rev b.m }

(* ---------------------------------------------------------------- printing of trees (same text as the harness) *)
let prim_name = function
  | PU8 -> "u8" | PS8 -> "s8" | PU16 -> "u16" | PS16 -> "s16" | PU32 -> "u32" | PS32 -> "s32" | PU64 -> "u64"
  | PS64 -> "s64" | PF32 -> "f32" | PF64 -> "f64" | PChar -> "char" | PBool -> "bool" | PString -> "string"
  | PErrorContext -> "error-context"
let cat = String.concat
let b01 b = if b then "1" else "0"
let rec p_vt = function
  | VTPrim p -> prim_name p
  | VTBorrow n -> "borrow<" ^ s_of n ^ ">" | VTOwn n -> "own<" ^ s_of n ^ ">"
  | VTTuple l -> "tuple<" ^ cat "," (List.map p_vt l) ^ ">"
  | VTList t -> "list<" ^ p_vt t ^ ">"
  | VTFsl (t, n) -> "list<" ^ p_vt t ^ "," ^ string_of_int (int_of_n n) ^ ">"
  | VTOption t -> "option<" ^ p_vt t ^ ">"
  | VTResult (o, e) -> "result<" ^ p_ovt o ^ "/" ^ p_ovt e ^ ">"
  | VTVariant c -> "variant{" ^ cat "," (List.map (fun (n, o) -> s_of n ^ ":" ^ p_ovt o) c) ^ "}"
  | VTRecord f -> "record{" ^ cat "," (List.map (fun (n, t) -> s_of n ^ ":" ^ p_vt t) f) ^ "}"
  | VTFlags l -> "flags{" ^ cat "," (List.map s_of l) ^ "}"
  | VTEnum l -> "enum{" ^ cat "," (List.map s_of l) ^ "}"
  | VTStream o -> "stream<" ^ p_ovt o ^ ">"
  | VTFuture o -> "future<" ^ p_ovt o ^ ">"
and p_ovt = function None -> "_" | Some t -> p_vt t
let p_ft f =
  "(" ^ b01 f.ft_async ^ "/" ^ cat "," (List.map (fun (n, t) -> s_of n ^ ":" ^ p_vt t) f.ft_params) ^ "/" ^ p_ovt f.ft_result ^ ")"
let heap_name = function
  | HFunc -> "func" | HExtern -> "extern" | HAny -> "any" | HNone -> "none" | HNoExtern -> "noextern" | HNoFunc -> "nofunc"
  | HEq -> "eq" | HStruct -> "struct" | HArray -> "array" | HI31 -> "i31" | HExn -> "exn" | HNoExn -> "noexn"
  | HCont -> "cont" | HNoCont -> "nocont" | HConcrete c -> "c" ^ string_of_int (int_of_n c)
let p_ref r = "r" ^ b01 r.r_nullable ^ "." ^ heap_name r.r_heap
let p_ct = function CI32 -> "i32" | CI64 -> "i64" | CF32 -> "f32" | CF64 -> "f64" | CV128 -> "v128" | CRef r -> p_ref r
let p_cf f = "[" ^ cat "," (List.map p_ct f.cf_params) ^ "]>[" ^ cat "," (List.map p_ct f.cf_results) ^ "]"
let p_on = function None -> "_" | Some n -> string_of_int (int_of_n n)
let p_extern = function
  | CEFunc f -> "func" ^ p_cf f | CETag f -> "tag" ^ p_cf f
  | CETable (e, i, m, t64, sh) -> Printf.sprintf "table(%s,%d,%s,%s,%s)" (p_ref e) (int_of_n i) (p_on m) (b01 t64) (b01 sh)
  | CEMemory (m64, sh, i, m, p) -> Printf.sprintf "memory(%s,%s,%d,%s,%s)" (b01 m64) (b01 sh) (int_of_n i) (p_on m) (p_on p)
  | CEGlobal (v, mu, sh) -> Printf.sprintf "global(%s,%s,%s)" (p_ct v) (b01 mu) (b01 sh)
let p_mod m =
  "{" ^ cat "," (List.map (fun ((a, b), e) -> s_of a ^ "." ^ s_of b ^ "=" ^ p_extern e) m.m_imports) ^ "/"
  ^ cat "," (List.map (fun (a, e) -> s_of a ^ "=" ^ p_extern e) m.m_exports) ^ "}"
let rec p_tree = function
  | XFunc f -> "func" ^ p_ft f | XTFunc f -> "type-func" ^ p_ft f
  | XInst e -> "inst{" ^ p_items e ^ "}" | XTInst e -> "type-inst{" ^ p_items e ^ "}"
  | XComp (i, e) -> "comp{" ^ p_items i ^ "/" ^ p_items e ^ "}" | XTComp (i, e) -> "type-comp{" ^ p_items i ^ "/" ^ p_items e ^ "}"
  | XMod m -> "mod" ^ p_mod m | XTMod m -> "type-mod" ^ p_mod m
  | XValue v -> "value(" ^ p_vt v ^ ")" | XTValue v -> "type(" ^ p_vt v ^ ")"
  | XTRes n -> "resource(" ^ s_of n ^ ")"
and p_items l = cat "," (List.map (fun (n, t) -> s_of n ^ "=" ^ p_tree t) l)
let p_kind (t : types) (k : kind) : string = match unfold ufuel t k with Some x -> p_tree x | None -> "?"

let rec no_comp = function
  | XComp _ | XTComp _ | XMod _ | XTMod _ -> false
  | XInst e | XTInst e -> List.for_all (fun (_, t) -> no_comp t) e
  | _ -> true

let err_name = function
  | AECannotMerge -> "cannot-merge" | AEMismatchExport | AEMismatchModExport -> "mismatch-export"
  | AEMismatchImport | AEMismatchModImport -> "mismatch-import" | AEUsedIface -> "used-iface" | AEUsedName -> "used-name"
  | AEUsedNoId -> "used-noid" | AEUsedNoIdRemap -> "used-noid-remap" | AESubtype -> "subtype"

let rec perms (n : int) : int list list =
  let rec go cur used =
    if List.length cur = n then [List.rev cur]
    else List.concat (List.init n (fun i -> if List.mem i used then [] else go (i :: cur) (i :: used))) in
  go [] []

let assoc_s (k : n list) (l : (n list * 'a) list) : 'a option = List.assoc_opt k l
let opt_s = function None -> "-" | Some x -> s_of x

(* the fragment the executable specification speaks about: instance requirements whose interface carries no identifier or
   the import name itself, anonymous `use`-free nested interfaces, dependencies (used interfaces) with an identifier and no
   uses of their own; no component / module types; no resource with an owner *)
let simple_contrib (name : n list) (t : types) (k : kind) : bool =
  let anon_nested (x : interface) =
    List.for_all (fun (_, k) -> match k with
        | KInstance j | KType (TInterface j) ->
          (match get_if t j with Some y -> y.i_id = None && y.i_uses = [] | None -> false)
        | _ -> true) x.i_exports in
  let owners_free = List.for_all (fun r -> match r.res_alias with Some (Some _, _) -> false | _ -> true) t.t_resources in
  owners_free &&
  (match unfold ufuel t k with Some tr -> no_comp tr | None -> false) &&
  match k with
  | KInstance i ->
    (match get_if t i with
     | None -> false
     | Some x ->
       (x.i_id = None || x.i_id = Some name) && anon_nested x &&
       List.for_all (fun (_, (d, _)) -> match get_if t d with
           | Some y -> y.i_id <> None && y.i_uses = [] && anon_nested y
           | None -> false) x.i_uses)
  | KType (TInterface _) | KType (TWorld _) | KType (TModule _) | KComponent _ | KModule _ -> false
  | _ -> true

let handle = function
  | "agg" :: ks :: rest ->
    let k = num ks in
    let progs = List.filteri (fun i _ -> i < k) rest in
    let rest = List.filteri (fun i _ -> i >= k) rest in
    let m = num (List.hd rest) in
    let cfs = List.filteri (fun i _ -> i < m) (List.tl rest) in
    let tys = Array.of_list (List.mapi (fun i p -> build (n_of_int (i + 1)) p) progs) in
    let contribs = Array.of_list (List.map (fun c ->
        match String.split_on_char ' ' c with
        | [nm; ti; kd] -> let ti = num ti in (str_of nm, tys.(ti), kind (n_of_int (ti + 1)) kd)
        | _ -> failwith "bad contributor") cfs) in
    let nc = Array.length contribs in
    let req = cat ";" (Array.to_list (Array.map (fun (_, t, k) -> p_kind t k) contribs)) in
    let all_names = Array.to_list (Array.map (fun (n, _, _) -> n) contribs) in
    let simple = Array.for_all (fun (n, t, k) -> simple_contrib n t k) contribs in
    let run ord order =
      aggregate_all ord cfuel fuel (agg0 N0) st0 (List.map (fun ci -> let (n, t, k) = contribs.(ci) in (n, (t, k))) order) O in
    let rec record ?(probe=false) order res =
      match res with
      | Inr (p, r) ->
        let p = int_of_nat p in
        let ci = List.nth order p in
        (match r with
         | AErr e -> Printf.sprintf "E%d.%d:%s" p ci (err_name e)
         | APanic -> Printf.sprintf "PANIC%d.%d" p ci
         | AOof -> Printf.sprintf "OOF%d.%d" p ci
         | AOk _ -> "?")
      | Inl (a, _) ->
        let at = a.a_types in
        let imp = cat ";" (List.map (fun (n, k) -> s_of n ^ "=" ^ p_kind at k) (imports a)) in
        let canon = Array.to_list (Array.map (fun (n, _, _) -> canonical a n) contribs) in
        let verdicts = cat "" (List.mapi (fun ci c ->
            let (_, t, k) = contribs.(ci) in
            match assoc_s c (imports a) with
            | None -> "-"
            | Some merged -> (match check cfuel at merged t k with Ok _ -> "1" | Err _ -> "0" | _ -> "P")) canon) in
        let meta = List.filter_map (fun (n, k) ->
            match k with
            | KInstance i | KType (TInterface i) ->
              (match get_if at i with
               | Some x ->
                 let us = List.map (fun (un, (d, en)) ->
                     s_of un ^ ">" ^ (match get_if at d with Some y -> opt_s y.i_id | None -> "?") ^ ">" ^ opt_s en) x.i_uses in
                 Some (s_of n ^ ":" ^ opt_s x.i_id ^ "[" ^ cat "+" us ^ "]")
               | None -> Some (s_of n ^ ":?"))
            | _ -> None) (imports a) in
        let canon2 = List.map (fun c -> canonical a c) canon in
        let idem =
          if not probe then "" else begin
            let snap (a : agg) =
              cat ";" (List.map (fun (n, k) -> s_of n ^ "=" ^ p_kind a.a_types k) (imports a)) ^ "~"
              ^ cat "," (Array.to_list (Array.map (fun (n, _, _) -> s_of (canonical a n)) contribs)) in
            let s = match res with Inl (_, s) -> s | _ -> st0 in
            let r2 = aggregate_all (fun l -> l) cfuel fuel a s
                (List.map (fun ci -> let (n, t, k) = contribs.(ci) in (n, (t, k))) order) O in
            "~idem=" ^ (match r2 with
                | Inl (a2, _) -> if snap a2 = snap a then "1" else "0"
                | Inr _ -> record order r2)
          end in
        Printf.sprintf "ok~%s~%s~%s~%s~%s%s" imp (cat "," (List.map s_of canon)) verdicts (cat "," meta)
          (cat "," (List.map s_of canon2)) idem in
    let spec_sub order res =
      match res with
      | Inr _ -> "x"
      | Inl (a, _) ->
        cat "" (Array.to_list (Array.map (fun (n, t, k) ->
            match assoc_s (canonical a n) (imports a) with
            | None -> "-"
            | Some merged ->
              (match unfold ufuel a.a_types merged, unfold ufuel t k with
               | Some tm, Some tr -> if resfree tm && resfree tr then show_bool (sub_b tm tr) else "-"
               | _ -> "?")) contribs)) in
    let spec_merge_of order =
      if not simple then "-" else begin
        let occs = List.concat (List.map (fun ci ->
            let (n, t, k) = contribs.(ci) in
            let deps = match k with
              | KInstance i -> (match get_if t i with
                  | Some x -> List.filter_map (fun (_, (d, _)) ->
                      match get_if t d, unfold ufuel t (KInstance d) with
                      | Some y, Some tr -> (match y.i_id with Some id -> Some (id, tr) | None -> None)
                      | _ -> None) x.i_uses
                  | None -> [])
              | _ -> [] in
            deps @ (match unfold ufuel t k with Some tr -> [(n, tr)] | None -> [])) order) in
        let uses_of = List.map (fun ci ->
            let (n, t, k) = contribs.(ci) in
            (n, match k with
              | KInstance i -> (match get_if t i with
                  | Some x -> List.filter_map (fun (un, (d, en)) ->
                      match get_if t d with Some { i_id = Some id; _ } -> Some (un, (id, en)) | _ -> None) x.i_uses
                  | None -> [])
              | _ -> [])) order in
        if uses_conflict uses_of then "uses-conflict"
        else match spec_merge occs with
          | None -> "conflict"
          | Some l -> "S~" ^ cat ";" (List.map (fun (n, t) -> s_of n ^ "=" ^ p_tree t) l)
      end in
    let ps = perms nc in
    let results = List.map (fun o -> (o, run (fun l -> l) o)) ps in
    let recs = List.mapi (fun pi (o, r) -> record ~probe:(pi = 0) o r) results in
    let ordind = List.mapi (fun pi (o, _) -> if record ~probe:(pi = 0) o (run List.rev o) = List.nth recs pi then "1" else "0") results in
    cat "\t" [req; cat "|" recs; cat "|" (List.map (fun (o, r) -> spec_sub o r) results);
              cat "," (List.map (fun n -> s_of (spec_canonical all_names n)) all_names);
              cat "|" (List.map spec_merge_of ps); cat "|" ordind]
  | _ -> "BAD-LINE"

let () = main handle
