open Model
open Common

(* UTF-8 encode a list of scalar values *)
let utf8 (l : n list) : string =
  let b = Buffer.create 256 in
  List.iter (fun c -> Buffer.add_utf_8_uchar b (Uchar.of_int (int_of_n c))) l;
  Buffer.contents b

let bits_of s = List.init (String.length s) (fun i -> s.[i] = '1')
let doc_bits = bits_of "0000000011000"

(* argv.(1): the flags of G_known as a 10-character 0/1 string *)
let known_bits = if Array.length Sys.argv > 1 then bits_of Sys.argv.(1) else bits_of "1111111100111"
let flip bits i = List.mapi (fun j b -> if j = i then List.nth doc_bits j else b) bits

let verdict (s : string) : string =
  if String.length s >= 3 && String.sub s 0 3 = "OK " then s else "REJECT"

let handle = function
  | "doc" :: _id :: _origin :: src :: _ ->
      let src = dec_str src in
      let m = utf8 (run_impl src) in
      let d = utf8 (run_doc doc_bits src) in
      let k = if known_bits = doc_bits then d else utf8 (run_doc known_bits src) in
      m ^ "\t" ^ (if d = m then "=" else d) ^ "\t" ^ (if k = m then "=" else k)
  | "lex" :: _id :: _origin :: src :: _ -> utf8 (run_lex (dec_str src))
  | "attr" :: _id :: _origin :: src :: _ ->
      (* which known flags does this input exercise: flipping the flag back changes the verdict/tree *)
      let src = dec_str src in
      let k = verdict (utf8 (run_doc known_bits src)) in
      let used = List.filter (fun i ->
          List.nth known_bits i <> List.nth doc_bits i &&
          verdict (utf8 (run_doc (flip known_bits i) src)) <> k) [0;1;2;3;4;5;6;7;8;9;10;11;12] in
      String.concat "," (List.map string_of_int used)
  | _ -> "BAD-LINE"

let () = main handle
