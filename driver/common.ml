(* Glue shared by all drivers: conversion between OCaml ints/strings and the extracted N / list N.
   Each driver is compiled as  common.ml (with Model in scope) ; see tools/build_driver.sh *)
open Model

let rec pos_of_int (i : int) : positive =
  if i = 1 then XH else if i land 1 = 0 then XO (pos_of_int (i lsr 1)) else XI (pos_of_int (i lsr 1))
let n_of_int (i : int) : n = if i = 0 then N0 else Npos (pos_of_int i)
let rec int_of_pos = function XH -> 1 | XO p -> 2 * int_of_pos p | XI p -> 2 * int_of_pos p + 1
let int_of_n = function N0 -> 0 | Npos p -> int_of_pos p
let rec nat_of_int (i : int) : nat = if i = 0 then O else S (nat_of_int (i - 1))
let rec int_of_nat = function O -> 0 | S n -> 1 + int_of_nat n

(* strings travel as comma separated decimal code points, "-" for the empty string *)
let dec_str (s : string) : n list =
  if s = "-" || s = "" then [] else List.map (fun x -> n_of_int (int_of_string x)) (String.split_on_char ',' s)
let enc_str (l : n list) : string =
  if l = [] then "-" else String.concat "," (List.map (fun c -> string_of_int (int_of_n c)) l)
(* list of strings: ';' separated; the empty field is the empty list *)
let dec_list (s : string) : n list list =
  if s = "" then [] else List.map dec_str (String.split_on_char ';' s)
let enc_list (l : n list list) : string = String.concat ";" (List.map enc_str l)

let fields (line : string) : string list = String.split_on_char '\t' line
let show_bool b = if b then "1" else "0"

let main (handle : string list -> string) =
  try
    while true do
      let line = input_line stdin in
      let out = try handle (fields line) with e -> "DRIVER-EXN " ^ Printexc.to_string e in
      print_string out; print_char '\n'
    done
  with End_of_file -> ()
