(* C18 driver: one case per line (format documented in harness/src/bin/c18.rs), prints
     <as-found model observation> \t <specification observation> \t <suffixed_dir_chosen: 0 | wat-dir | wasm-dir> \t <key_wf 0|1>
     \t <detail> \t <REPAIRED model observation (resolve_one_fixed: what /repo does since d297b59)>
   Content ids are 10*k+variant; the library oracles are tabulated by variant (the harness asserts that the
   real libraries behave like this table on the content templates it writes):
     variant 0 binary component : wat -> same bytes      wit-file -> error
     variant 1 WAT text         : wat -> 1000000+id      wit-file -> error
     variant 2 garbage text     : wat -> error           wit-file -> error
     variant 3 WIT text         : wat -> error           wit-file -> 3000000+id
     variant 5 WIT package dir  : wit-dir -> 2000000+id
     variant 6 other directory  : wit-dir -> error
     variant 7 WIT package dir vendoring a dependency : wit-dir -> 2000000+id
   Multi-key lines (c18m, format in harness/src/bin/c18.rs): prints the observation of [resolve_all] *)
open Model
open Common

let variant c = int_of_n c mod 10
let o_wat c = match variant c with 0 -> Some c | 1 -> Some (n_of_int (1000000 + int_of_n c)) | _ -> None
let o_file c = match variant c with 3 -> Some (n_of_int (3000000 + int_of_n c)) | _ -> None
let o_dir c = match variant c with 5 | 7 -> Some (n_of_int (2000000 + int_of_n c)) | _ -> None

let text (s : n list) : string =
  String.concat "" (List.map (fun c -> let i = int_of_n c in
                               if i >= 32 && i < 127 then String.make 1 (Char.chr i) else Printf.sprintf "\\u{%x}" i) s)
let show_path (p : n list list) = String.concat "/" (List.map text p)

let show_src = function SrcRaw -> "raw" | SrcWat -> "wat" | SrcWitDir -> "wit-dir" | SrcWitFile -> "wit-file"
let show_why = function OverrideMissing -> "override-missing" | WitDirFailed -> "wit-dir-failed"
                        | WitFileFailed -> "wit-file-failed" | WatFailed -> "wat-failed"
let show = function
  | Loaded (_, p, b) -> Printf.sprintf "LOADED %d %s" (int_of_n b) (show_path p)
  | Skipped -> "SKIPPED"
  | ErrUnknown -> "ERR UnknownPackage"
  | ErrResolution _ -> "ERR PackageResolutionFailure"
let detail = function
  | Loaded (s, _, _) -> show_src s
  | ErrResolution w -> show_why w
  | _ -> "-"

let split_nonempty c s = if s = "" then [] else String.split_on_char c s

let handle = function
  | ["c18"; wat; mode; name; version; root; ovs; nodes] ->
      let wat = (wat = "1") in
      let k = { k_name = dec_str name; k_version = (if version = "none" then None else Some (dec_str version)) } in
      let ovs = List.map (fun e -> match String.index_opt e '=' with
          | Some i -> (dec_str (String.sub e 0 i), dec_list (String.sub e (i + 1) (String.length e - i - 1)))
          | None -> failwith "override") (split_nonempty '|' ovs) in
      let cfg = { root = dec_list root; overrides = ovs; error_on_unknown = (mode = "1") } in
      let nodes = List.map (fun e -> match String.split_on_char ':' e with
          | [kind; kk; v; p] ->
              let id = n_of_int (10 * int_of_string kk + int_of_string v) in
              (dec_list p, (if kind = "D" then Dir id else File id))
          | _ -> failwith "node") (split_nonempty '|' nodes) in
      let fs = fs_of_list nodes in
      let m = resolve_one o_wat o_dir o_file wat fs cfg k in
      let s = spec o_wat o_dir o_file wat fs cfg k in
      let dev = if not (suffixed_dir_chosen wat fs cfg k) then "0"
        else if wat && (match fs (suffixed cfg k s_wat) with Dir _ -> true | _ -> false) then "wat-dir" else "wasm-dir" in
      let mf = resolve_one_fixed o_wat o_dir o_file wat fs cfg k in
      String.concat "\t" [show m; show s; dev; show_bool (key_wfb k);
                          detail m ^ "/" ^ detail s ^ "/" ^ detail mf; show mf]
  | ["c18m"; wat; mode; root; ovs; nodes; keys] ->
      let wat = (wat = "1") in
      let ovs = List.map (fun e -> match String.index_opt e '=' with
          | Some i -> (dec_str (String.sub e 0 i), dec_list (String.sub e (i + 1) (String.length e - i - 1)))
          | None -> failwith "override") (split_nonempty '|' ovs) in
      let cfg = { root = dec_list root; overrides = ovs; error_on_unknown = (mode = "1") } in
      let nodes = List.map (fun e -> match String.split_on_char ':' e with
          | [kind; kk; v; p] ->
              let id = n_of_int (10 * int_of_string kk + int_of_string v) in
              (dec_list p, (if kind = "D" then Dir id else File id))
          | _ -> failwith "node") (split_nonempty '|' nodes) in
      let fs = fs_of_list nodes in
      let ks = List.map (fun e -> match String.index_opt e '~' with
          | Some i -> let n = String.sub e 0 i and v = String.sub e (i + 1) (String.length e - i - 1) in
                      { k_name = dec_str n; k_version = (if v = "none" then None else Some (dec_str v)) }
          | None -> failwith "key") (split_nonempty '|' keys) in
      let render outs =
        if List.exists is_failure outs then
          let i = List.length outs - 1 in
          (match List.nth outs i with
           | ErrUnknown -> Printf.sprintf "MULTI ERR UnknownPackage %d" i
           | _ -> Printf.sprintf "MULTI ERR PackageResolutionFailure %d" i)
        else
          "MULTI OK " ^ String.concat ";" (List.map (function
              | Loaded (_, p, b) -> Printf.sprintf "L:%d:%s" (int_of_n b) (show_path p)
              | _ -> "S") outs) in
      (* the model of the whole call *)
      let obs = render (resolve_all o_wat o_dir o_file wat fs cfg ks) in
      (* the property: every key answered as the documented table answers it alone, up to the first failing key *)
      let rec alone = function
        | [] -> []
        | k :: r -> let o = spec o_wat o_dir o_file wat fs cfg k in if is_failure o then [o] else o :: alone r in
      let sobs = render (alone ks) in
      let wf = List.for_all key_wfb ks in
      String.concat "\t" [obs; sobs; show_bool wf]
  | _ -> "BAD-LINE"

let () = main handle
