open Model
open Common

(* ---- universe parsed from the `U ...` header lines (as driver/c06.ml, plus strings) ---- *)
let kinds_exports : (int, (int * int) list option) Hashtbl.t = Hashtbl.create 64
let kind_class : (int, string) Hashtbl.t = Hashtbl.create 64
let kind_iid : (int, n list) Hashtbl.t = Hashtbl.create 16
let pkgs : (int * pkgdesc) list ref = ref []
let pkg_names : (int, n list * n list option) Hashtbl.t = Hashtbl.create 16
let tys : (int * tydesc) list ref = ref []
let lkinds : (int * int) list ref = ref []
let subs : (int * int, unit) Hashtbl.t = Hashtbl.create 256
let name_ok : (int, bool * bool) Hashtbl.t = Hashtbl.create 16
let pool : (int, n list) Hashtbl.t = Hashtbl.create 64

let split c s = if s = "" then [] else String.split_on_char c s
let pairs s = List.map (fun kv -> match String.split_on_char '=' kv with
    | [a; b] -> (int_of_string a, int_of_string b) | _ -> failwith ("pair " ^ kv)) (split ',' s)
let after_eq s = match String.index_opt s '=' with Some i -> String.sub s (i + 1) (String.length s - i - 1) | None -> s

let header line =
  match String.split_on_char ' ' line with
  | "U" :: "kind" :: id :: cls :: rest ->
      let ex = match rest with [e] -> e | _ -> "" in
      Hashtbl.replace kind_class (int_of_string id) cls;
      Hashtbl.replace kinds_exports (int_of_string id) (if cls = "instance" then Some (pairs ex) else None)
  | ["U"; "iid"; k; s] -> Hashtbl.replace kind_iid (int_of_string k) (dec_str s)
  | ["U"; "pkg"; i; inst; imps] ->
      pkgs := !pkgs @ [(int_of_string i,
        { pd_inst = n_of_int (int_of_string (after_eq inst));
          pd_imports = List.map (fun (a, b) -> (n_of_int a, n_of_int b)) (pairs (after_eq imps)) })]
  | ["U"; "pkgname"; i; nm; v] -> Hashtbl.replace pkg_names (int_of_string i) (dec_str nm, if v = "-" then None else Some (dec_str v))
  | ["U"; "name"; i; s] -> Hashtbl.replace pool (int_of_string i) (dec_str s)
  | ["U"; "ty"; i; res; kind; deps] ->
      tys := !tys @ [(int_of_string i,
        { td_res = (after_eq res = "1"); td_kind = n_of_int (int_of_string (after_eq kind));
          td_deps = List.map (fun x -> nat_of_int (int_of_string x)) (split ',' (after_eq deps)) })]
  | ["U"; "lk"; i; k] -> lkinds := !lkinds @ [(int_of_string i, int_of_string k)]
  | ["U"; "sub"; l] ->
      List.iter (fun p -> match String.split_on_char '<' p with
        | [a; b] -> Hashtbl.replace subs (int_of_string a, int_of_string b) () | _ -> ()) (split ',' l)
  | ["U"; "names"; l] ->
      List.iter (fun p -> match String.split_on_char ':' p with
        | [i; f] -> Hashtbl.replace name_ok (int_of_string i) (f.[0] = '1', f.[1] = '1') | _ -> ()) (split ',' l)
  | _ -> ()

let universe () : universe = {
  u_inst_exports = (fun k -> match Hashtbl.find_opt kinds_exports (int_of_n k) with
      | Some (Some l) -> Some (List.map (fun (a, b) -> (n_of_int a, n_of_int b)) l) | _ -> None);
  u_pkgs = List.map snd !pkgs;
  u_tys = List.map snd !tys;
  u_lkinds = List.map (fun (_, k) -> n_of_int k) !lkinds;
  u_sub = (fun a b -> Hashtbl.mem subs (int_of_n a, int_of_n b));
  u_import_name_ok = (fun n -> match Hashtbl.find_opt name_ok (int_of_n n) with Some (a, _) -> a | None -> false);
  u_export_name_ok = (fun n -> match Hashtbl.find_opt name_ok (int_of_n n) with Some (_, b) -> b | None -> false) }

let sort_of_class = function
  | "type" -> SType | "func" -> SFunc | "instance" -> SInstance | "component" -> SComponent
  | "module" -> SModule | "value" -> SValue | "ctype" -> SCoreType
  | "cfunc" -> SCore (n_of_int 0) | "ctable" -> SCore (n_of_int 1) | "cmemory" -> SCore (n_of_int 2)
  | "cglobal" -> SCore (n_of_int 3) | "ctag" -> SCore (n_of_int 4) | "cinstance" -> SCore (n_of_int 5)
  | s -> failwith ("sort " ^ s)
let show_sort = function
  | SType -> "type" | SFunc -> "func" | SInstance -> "instance" | SComponent -> "component" | SModule -> "module"
  | SValue -> "value" | SCoreType -> "ctype" | SCore k -> "core" ^ string_of_int (int_of_n k)

let wenv () : wenv = {
  we_name = (fun n -> match Hashtbl.find_opt pool (int_of_n n) with Some s -> s | None -> []);
  we_pkg_name = (fun p -> match Hashtbl.find_opt pkg_names (int_of_nat p) with Some (a, _) -> a | None -> []);
  we_pkg_version = (fun p -> match Hashtbl.find_opt pkg_names (int_of_nat p) with Some (_, v) -> v | None -> None);
  we_digest = (fun p -> n_of_int (int_of_nat p));
  we_sort = (fun k -> match Hashtbl.find_opt kind_class (int_of_n k) with Some c -> sort_of_class c | None -> SType);
  we_iid = (fun k -> Hashtbl.find_opt kind_iid (int_of_n k)) }

let parse_op s : op option =
  let f = Array.of_list (String.split_on_char ' ' s) in
  let n i = nat_of_int (int_of_string f.(i)) and nm i = n_of_int (int_of_string f.(i)) in
  match f.(0) with
  | "reg" -> Some (Register (n 1)) | "unreg" -> Some (Unregister (n 1, n 2)) | "def" -> Some (DefineType (nm 1, n 2))
  | "imp" -> Some (Import (nm 1, n 2)) | "inst" -> Some (Instantiate (n 1, n 2)) | "alias" -> Some (Alias (n 1, nm 2))
  | "setarg" -> Some (SetArg (n 1, nm 2, n 3)) | "unsetarg" -> Some (UnsetArg (n 1, nm 2, n 3))
  | "export" -> Some (Export (n 1, nm 2)) | "unexport" -> Some (Unexport (n 1)) | "name" -> Some (SetName (n 1, nm 2))
  | "rm" -> Some (RemoveNode (n 1)) | "enc" -> None | _ -> failwith ("op " ^ s)

let show_err = function
  | PackageAlreadyRegistered -> "PackageAlreadyRegistered" | TypeAlreadyDefined -> "TypeAlreadyDefined"
  | CannotDefineResource -> "CannotDefineResource" | ExportConflict -> "ExportConflict" | InvalidExternName -> "InvalidExternName"
  | ImportAlreadyExists n -> Printf.sprintf "ImportAlreadyExists(%d)" (int_of_nat n) | InvalidImportName -> "InvalidImportName"
  | NodeIsNotAnInstance -> "NodeIsNotAnInstance" | InstanceMissingExport -> "InstanceMissingExport"
  | ExportAlreadyExists n -> Printf.sprintf "ExportAlreadyExists(%d)" (int_of_nat n) | InvalidExportName -> "InvalidExportName"
  | MustExportDefinition -> "MustExportDefinition" | NodeIsNotAnInstantiation -> "NodeIsNotAnInstantiation"
  | InvalidArgumentName -> "InvalidArgumentName" | ArgumentTypeMismatch -> "ArgumentTypeMismatch"
  | ArgumentAlreadyPassed -> "ArgumentAlreadyPassed"

let show_out = function
  | OUnit -> "ok" | ONode n -> Printf.sprintf "n%d" (int_of_nat n)
  | OPkg (i, g) -> Printf.sprintf "pkg%d.%d" (int_of_nat i) (int_of_nat g)
  | OErr e -> "E:" ^ show_err e | OPanic _ -> "PANIC"

let optn = function None -> "-" | Some x -> string_of_int (int_of_n x)

(* the public part of the C06 dump: N A L I E P *)
let dump u (s : gstate) : string =
  let b = Buffer.create 256 in
  let ids = List.map int_of_nat (node_ids s) in
  Buffer.add_string b "N[";
  List.iter (fun i -> match get_node s (nat_of_int i) with
    | Some nd ->
        let tag, imp = match nd.nk with NDef -> "D", None | NImport n -> "I", Some n | NInst _ -> "S", None | NAlias -> "A", None in
        let pk = match nd.npkg with Some (a, g) -> Printf.sprintf "%d.%d" (int_of_nat a) (int_of_nat g) | None -> "-" in
        Buffer.add_string b (Printf.sprintf "%d:%s:%s:%d:%s:%s:%s," i tag pk (int_of_n nd.nitem) (optn nd.nexport) (optn nd.nname) (optn imp))
    | None -> ()) ids;
  Buffer.add_string b "]A[";
  List.iter (fun i ->
    let args = get_args u s (nat_of_int i) in
    if args <> [] then
      Buffer.add_string b (Printf.sprintf "%d:(%s)," i
        (String.concat "," (List.map (fun (n, src) -> Printf.sprintf "%d=%d" (int_of_n n) (int_of_nat src)) args)))) ids;
  Buffer.add_string b "]L[";
  List.iter (fun i -> match get_alias_source u s (nat_of_int i) with
    | Some (src, e) -> Buffer.add_string b (Printf.sprintf "%d:%d.%d," i (int_of_nat src) (int_of_n e)) | None -> ()) ids;
  Buffer.add_string b "]I[";
  List.iter (fun ((n, k), nd) -> Buffer.add_string b (Printf.sprintf "(%d,%d,%s),"
    (int_of_n n) (int_of_n k) (match nd with Some x -> string_of_int (int_of_nat x) | None -> "-"))) (list_imports u s);
  Buffer.add_string b "]E[";
  Hashtbl.iter (fun _ _ -> ()) pool;
  for i = 0 to Hashtbl.length pool - 1 do
    match alist_get N.eqb s.exports (n_of_int i) with
    | Some x -> Buffer.add_string b (Printf.sprintf "%d=%d," i (int_of_nat x)) | None -> ()
  done;
  Buffer.add_string b "]P[";
  for i = 0 to List.length !pkgs - 1 do
    match find_pkg_slot s (nat_of_int i) with
    | Some slot -> (match List.nth_opt s.pkgs (int_of_nat slot) with
        | Some sl -> Buffer.add_string b (Printf.sprintf "%d=%d.%d," i (int_of_nat slot) (int_of_nat sl.ps_gen)) | None -> ())
    | None -> ()
  done;
  Buffer.add_string b "]";
  Buffer.contents b

(* ---- logs ---- *)
let text (s : n list) : string =
  let b = Buffer.create 16 in
  List.iter (fun c -> let c = int_of_n c in
    if c < 128 then Buffer.add_char b (Char.chr c) else Buffer.add_string b (Printf.sprintf "\\u%d;" c)) s;
  Buffer.contents b

let parse_args s : arg list =
  List.map (fun a -> match String.split_on_char '~' a with
    | [nm; so; i] -> ((dec_str nm, sort_of_class so), nat_of_int (int_of_string i))
    | _ -> failwith ("arg " ^ a)) (split '+' s)

let parse_item s : item =
  match String.split_on_char '|' s with
  | ["M"; nm; so] -> IImport (dec_str nm, sort_of_class so)
  | ["T"] -> ITypeDef | ["CT"] -> ICoreTypeDef
  | ["C"; d] -> IComponent (n_of_int (int_of_string d))
  | ["N"; c; args] -> IInstantiate (nat_of_int (int_of_string c), parse_args args)
  | ["B"; ex] -> IInstanceFromExports (parse_args ex)
  | ["A"; i; so; nm] -> IAliasExport (nat_of_int (int_of_string i), sort_of_class so, dec_str nm)
  | ["O"; so] -> IOpaque (sort_of_class so)
  | ["X"; nm; so; i] -> IExport (dec_str nm, sort_of_class so, nat_of_int (int_of_string i))
  | _ -> failwith ("item " ^ s)
let parse_log s : log = List.map parse_item (split ';' s)

let show_arg ((nm, so), i) = Printf.sprintf "%s~%s~%d" (text nm) (show_sort so) (int_of_nat i)
let show_item = function
  | IImport (nm, so) -> Printf.sprintf "M|%s|%s" (text nm) (show_sort so)
  | IDepImport nm -> Printf.sprintf "MD|%s" (text nm)
  | ITypeDef -> "T" | ICoreTypeDef -> "CT"
  | IComponent d -> Printf.sprintf "C|%d" (int_of_n d)
  | IInstantiate (c, args) -> Printf.sprintf "N|%d|%s" (int_of_nat c) (String.concat "+" (List.map show_arg args))
  | IInstanceFromExports ex -> Printf.sprintf "B|%s" (String.concat "+" (List.map show_arg ex))
  | IAliasExport (i, so, nm) -> Printf.sprintf "A|%d|%s|%s" (int_of_nat i) (show_sort so) (text nm)
  | IOpaque so -> "O|" ^ show_sort so
  | IExport (nm, so, i) -> Printf.sprintf "X|%s|%s|%d" (text nm) (show_sort so) (int_of_nat i)
let show_log l = String.concat ";" (List.map show_item l)

let parse_names s : ((sort * nat) * n list) list =
  List.filter_map (fun e -> match String.split_on_char '|' e with
    | ["self"; _; _] -> None
    | [so; i; nm] -> Some ((sort_of_class so, nat_of_int (int_of_string i)), dec_str nm)
    | _ -> failwith ("name entry " ^ e)) (split ';' s)

let rec show_prov = function
  | PImp nm -> Printf.sprintf "i(%s)" (text nm)
  | PInst k -> Printf.sprintf "n%d" (int_of_nat k)
  | PAli (p, nm) -> Printf.sprintf "a(%s,%s)" (show_prov p) (text nm)
  | PExp nm -> Printf.sprintf "x(%s)" (text nm)
  | PComp d -> Printf.sprintf "c%d" (int_of_n d)
  | POpaque -> "o" | PDef -> "d"
let show_parg ((nm, so), p) = Printf.sprintf "%s~%s~%s" (text nm) (show_sort so) (show_prov p)
(* '&' separates arguments: names may contain '+' (build metadata) *)
let show_winst = function
  | WInst (c, args) -> Printf.sprintf "N[%s|%s]" (show_prov c) (String.concat "&" (List.map show_parg args))
  | WBag ex -> Printf.sprintf "B[%s]" (String.concat "&" (List.map show_parg ex))
let show_wiring (w : wiring) =
  Printf.sprintf "insts=%s#exports=%s#comps=%s#names=%s"
    (String.concat ";" (List.map show_winst w.w_insts))
    (String.concat ";" (List.map show_parg w.w_exports))
    (String.concat ";" (List.map (fun d -> string_of_int (int_of_n d)) w.w_comps))
    (String.concat ";" (List.map (fun ((so, nm), p) -> Printf.sprintf "%s~%s~%s" (show_sort so) (text nm) (show_prov p)) w.w_names))

let show_site = function
  | XNoPackage -> "NoPackage" | XUnexpectedEdge -> "UnexpectedEdge" | XNodeIndexMissing -> "NodeIndexMissing"
  | XEncodedMissing -> "EncodedMissing" | XAliasNoSource -> "AliasNoSource" | XAliasNotInstance -> "AliasNotInstance"
  | XDefNoName -> "DefNoName" | XDupNodeIndex -> "DupNodeIndex" | XBadNode -> "BadNode"
let show_eerr = function
  | ECycle -> "E:GraphContainsCycle"
  | EImplicitImportConflict (i, n, nm) -> Printf.sprintf "E:ImplicitImportConflict(%d,%d,%s)" (int_of_nat i) (int_of_nat n) (text nm)
  | EMergeConflict nm -> Printf.sprintf "E:ImportTypeMergeConflict(%s)" (text nm)
  | EPanic s -> "PANIC(" ^ show_site s ^ ")"
  | EOracle -> "ORACLE"

let kv fields key =
  let p = key ^ "=" in
  let pl = String.length p in
  List.find_map (fun f -> if String.length f >= pl && String.sub f 0 pl = p then Some (String.sub f pl (String.length f - pl)) else None) fields

let handle = function
  | [line] when String.length line > 1 && line.[0] = 'U' -> header line; line
  | hline :: fields when String.length hline > 0 && hline.[0] = 'H' ->
      let u = universe () and e = wenv () in
      let ops = split ';' (if String.length hline > 2 then String.sub hline 2 (String.length hline - 2) else "") in
      let s = ref empty_graph and dead = ref false in
      let res = List.map (fun o ->
        if !dead then "SKIPPED" else
        match parse_op o with
        | None -> "enc"
        | Some op ->
            let (s', out) = step u !s op in
            (match out with OPanic _ -> dead := true; "PANIC" | _ -> s := s'; show_out out)) ops in
      let out = Buffer.create 1024 in
      let add k v = Buffer.add_string out (Printf.sprintf "\t%s=%s" k v) in
      Buffer.add_string out ("res=" ^ String.concat ";" res);
      if !dead then (add "dead" "1"; Buffer.contents out) else begin
        let g = !s in
        add "dump" (dump u g);
        let ord = toposort g in
        add "topo" (match ord with Some o -> String.concat "," (List.map (fun n -> string_of_int (int_of_nat n)) o) | None -> "cycle");
        add "specexp" (String.concat ";" (List.map (fun (nm, so) -> text nm ^ "|" ^ show_sort so) (spec_export_names e g)));
        add "needs" (String.concat ";" (List.map (fun (nm, ex) -> text nm ^ "|" ^ String.concat "+" (List.map text ex)) (spec_import_needs e u g)));
        add "canon" (String.concat ";" (List.init (Hashtbl.length pool) (fun i ->
          let nm = e.we_name (n_of_int i) in text nm ^ ">" ^ text (canon e u g nm))));
        add "defnames" (String.concat ";" (List.map text (def_names e g)));
        List.iter (fun (m, dc) ->
          (match ord with
           | None -> add (m ^ ".model") "E:GraphContainsCycle"
           | Some ord ->
               let spec = wiring_spec e u g dc ord in
               add (m ^ ".spec") (show_wiring spec);
               let simp = spec_imports e u g dc ord in
               add (m ^ ".specimp") (String.concat ";" (List.map (fun (nm, so) -> text nm ^ "|" ^ show_sort so) simp));
               (* spec with instances numbered in ascending node order, for the order-independent comparison *)
               let asc = node_ids g in
               add (m ^ ".specasc") (show_wiring (wiring_spec e u g dc asc));
               add (m ^ ".topook") (show_bool (topo_orderb g ord));
               let real = match kv fields (m ^ ".log") with Some l -> Some (parse_log l) | None -> None in
               let tau = match real with Some r -> tau_replay r | None -> (fun _ _ -> ([], O)) in
               (match encode_with_order e u g dc tau ord with
                | RErr er -> add (m ^ ".model") (show_eerr er)
                | ROk (st, ns) ->
                    add (m ^ ".model") "ok";
                    add (m ^ ".dedup") (String.concat ";" (List.map (fun (a, b) -> text a ^ ">" ^ text b) st.e_dedup));
                    (match real with
                     | Some r ->
                         let eq = (unmark st.e_log = r) in
                         add (m ^ ".logeq") (show_bool eq);
                         if not eq then add (m ^ ".modellog") (show_log st.e_log);
                         let rn = match kv fields (m ^ ".names") with Some x -> parse_names x | None -> [] in
                         add (m ^ ".nameseq") (show_bool (List.sort compare ns = List.sort compare rn))
                     | None -> ()));
               (match real with
                | Some r ->
                    let rn = match kv fields (m ^ ".names") with Some x -> parse_names x | None -> [] in
                    let marked = mark_deps (List.map fst simp) r in
                    add (m ^ ".scope") (show_bool (log_in_scope [] r));
                    (match decode_wiring rn marked with
                     | Some w ->
                         let w = erase_defs (def_names e g) w in
                         add (m ^ ".dec") (show_wiring w);
                         add (m ^ ".tv") (show_bool (w = spec))
                     | None -> add (m ^ ".dec") "NONE"; add (m ^ ".tv") "0");
                    (match decode_imports marked with
                     | Some l -> add (m ^ ".decimp") (String.concat ";" (List.map (fun ((nm, so), dep) -> Printf.sprintf "%s|%s|%s" (text nm) (show_sort so) (show_bool dep)) l))
                     | None -> add (m ^ ".decimp") "NONE")
                | None -> ()))) [("D", true); ("I", false)];
        Buffer.contents out
      end
  | _ -> "BAD-LINE"

let () = main handle
