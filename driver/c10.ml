open Model
open Common

(* ---- universe parsed from the `U ...` header lines of the current block (`U reset` starts a new one) ---- *)
let kinds_exports : (int, (int * int) list option) Hashtbl.t = Hashtbl.create 64
let pkgs : (int * pkgdesc) list ref = ref []
let subs : (int * int, unit) Hashtbl.t = Hashtbl.create 256
let name_ok : (int, bool * bool) Hashtbl.t = Hashtbl.create 16
let name_text : (int, n list) Hashtbl.t = Hashtbl.create 32
let nnames = ref 0

let split c s = if s = "" then [] else String.split_on_char c s
let pairs s = List.map (fun kv -> match String.split_on_char '=' kv with
    | [a; b] -> (int_of_string a, int_of_string b) | _ -> failwith ("pair " ^ kv)) (split ',' s)
let after_eq s = match String.index_opt s '=' with Some i -> String.sub s (i + 1) (String.length s - i - 1) | None -> s

let reset () =
  Hashtbl.reset kinds_exports; pkgs := []; Hashtbl.reset subs; Hashtbl.reset name_ok; Hashtbl.reset name_text; nnames := 0

let header line =
  match String.split_on_char ' ' line with
  | ["U"; "reset"] -> reset ()
  | ["U"; "name"; i; t] -> Hashtbl.replace name_text (int_of_string i) (dec_str t); nnames := max !nnames (int_of_string i + 1)
  | "U" :: "kind" :: id :: cls :: rest ->
      let ex = match rest with [e] -> e | _ -> "" in
      Hashtbl.replace kinds_exports (int_of_string id) (if cls = "instance" then Some (pairs ex) else None)
  | ["U"; "pkg"; i; inst; imps] ->
      pkgs := !pkgs @ [(int_of_string i,
        { pd_inst = n_of_int (int_of_string (after_eq inst));
          pd_imports = List.map (fun (a, b) -> (n_of_int a, n_of_int b)) (pairs (after_eq imps)) })]
  | ["U"; "sub"; l] ->
      List.iter (fun p -> match String.split_on_char '<' p with
        | [a; b] -> Hashtbl.replace subs (int_of_string a, int_of_string b) () | _ -> ()) (split ',' l)
  | ["U"; "names"; l] ->
      List.iter (fun p -> match String.split_on_char ':' p with
        | [i; f] -> Hashtbl.replace name_ok (int_of_string i) (f.[0] = '1', f.[1] = '1') | _ -> ()) (split ',' l)
  | _ -> ()

let universe () : puniverse = {
  pu_graph = {
    u_inst_exports = (fun k -> match Hashtbl.find_opt kinds_exports (int_of_n k) with
        | Some (Some l) -> Some (List.map (fun (a, b) -> (n_of_int a, n_of_int b)) l) | _ -> None);
    u_pkgs = List.map snd !pkgs;
    u_tys = [];
    u_lkinds = [];
    u_sub = (fun a b -> Hashtbl.mem subs (int_of_n a, int_of_n b));
    u_import_name_ok = (fun n -> match Hashtbl.find_opt name_ok (int_of_n n) with Some (a, _) -> a | None -> false);
    u_export_name_ok = (fun n -> match Hashtbl.find_opt name_ok (int_of_n n) with Some (_, b) -> b | None -> false) };
  pu_name_text = (fun n -> match Hashtbl.find_opt name_text (int_of_n n) with Some t -> t | None -> []) }

let show_err = function
  | PackageAlreadyRegistered -> "PackageAlreadyRegistered" | TypeAlreadyDefined -> "TypeAlreadyDefined"
  | CannotDefineResource -> "CannotDefineResource" | ExportConflict -> "ExportConflict" | InvalidExternName -> "InvalidExternName"
  | ImportAlreadyExists n -> Printf.sprintf "ImportAlreadyExists(%d)" (int_of_nat n) | InvalidImportName -> "InvalidImportName"
  | NodeIsNotAnInstance -> "NodeIsNotAnInstance" | InstanceMissingExport -> "InstanceMissingExport"
  | ExportAlreadyExists n -> Printf.sprintf "ExportAlreadyExists(%d)" (int_of_nat n) | InvalidExportName -> "InvalidExportName"
  | MustExportDefinition -> "MustExportDefinition" | NodeIsNotAnInstantiation -> "NodeIsNotAnInstantiation"
  | InvalidArgumentName -> "InvalidArgumentName" | ArgumentTypeMismatch -> "ArgumentTypeMismatch"
  | ArgumentAlreadyPassed -> "ArgumentAlreadyPassed"

let optn = function None -> "-" | Some x -> string_of_int (int_of_n x)

(* the same dump as driver/c06.ml, with the block's name pool and package count *)
let dump (u : universe) (s : gstate) : string =
  let b = Buffer.create 256 in
  let ids = List.map int_of_nat (node_ids s) in
  Buffer.add_string b "N[";
  List.iter (fun i -> match get_node s (nat_of_int i) with
    | Some nd ->
        let tag, imp = match nd.nk with NDef -> "D", None | NImport n -> "I", Some n | NInst _ -> "S", None | NAlias -> "A", None in
        let pk = match nd.npkg with Some (a, g) -> Printf.sprintf "%d.%d" (int_of_nat a) (int_of_nat g) | None -> "-" in
        Buffer.add_string b (Printf.sprintf "%d:%s:%s:%d:%s:%s:%s," i tag pk (int_of_n nd.nitem) (optn nd.nexport) (optn nd.nname) (optn imp))
    | None -> ()) ids;
  Buffer.add_string b "]A[";
  List.iter (fun i ->
    let args = get_args u s (nat_of_int i) in
    if args <> [] then
      Buffer.add_string b (Printf.sprintf "%d:(%s)," i
        (String.concat "," (List.map (fun (n, src) -> Printf.sprintf "%d=%d" (int_of_n n) (int_of_nat src)) args)))) ids;
  Buffer.add_string b "]L[";
  List.iter (fun i -> match get_alias_source u s (nat_of_int i) with
    | Some (src, e) -> Buffer.add_string b (Printf.sprintf "%d:%d.%d," i (int_of_nat src) (int_of_n e)) | None -> ()) ids;
  Buffer.add_string b "]I[";
  List.iter (fun ((n, k), nd) -> Buffer.add_string b (Printf.sprintf "(%d,%d,%s),"
    (int_of_n n) (int_of_n k) (match nd with Some x -> string_of_int (int_of_nat x) | None -> "-"))) (list_imports u s);
  Buffer.add_string b "]E[";
  for i = 0 to !nnames - 1 do
    match alist_get N.eqb s.exports (n_of_int i) with
    | Some x -> Buffer.add_string b (Printf.sprintf "%d=%d," i (int_of_nat x)) | None -> ()
  done;
  Buffer.add_string b "]P[";
  for i = 0 to List.length !pkgs - 1 do
    match find_pkg_slot s (nat_of_int i) with
    | Some slot -> (match List.nth_opt s.pkgs (int_of_nat slot) with
        | Some sl -> Buffer.add_string b (Printf.sprintf "%d=%d.%d," i (int_of_nat slot) (int_of_nat sl.ps_gen)) | None -> ())
    | None -> ()
  done;
  Buffer.add_string b "]S[";
  List.iter (fun i -> match get_node s (nat_of_int i) with
    | Some { nk = NInst sat; _ } ->
        let v = List.sort compare (List.map int_of_nat sat) in
        Buffer.add_string b (Printf.sprintf "%d:[%s]," i (String.concat ", " (List.map string_of_int v)))
    | _ -> ()) ids;
  Buffer.add_string b "]X[";
  List.iter (fun (n, x) -> Buffer.add_string b (Printf.sprintf "%d=%d," (int_of_n n) (int_of_nat x))) s.exports;
  Buffer.add_string b "]G[";
  List.iter (fun i -> List.iter (fun e ->
      let k = match e.ek with EAlias x -> Printf.sprintf "a%d" (int_of_nat x) | EArg x -> Printf.sprintf "g%d" (int_of_nat x) | EDep -> "d" in
      Buffer.add_string b (Printf.sprintf "%d>%d:%s," i (int_of_nat e.etgt) k)) (outgoing s (nat_of_int i))) ids;
  Buffer.add_string b "]";
  Buffer.contents b

let show_outcome = function
  | POk -> "Ok" | PNoPlugHappened -> "NoPlugHappened" | PGraphError e -> "GraphError:" ^ show_err e | PPanic _ -> "PANIC"

let rec seq a n = if n = 0 then [] else a :: seq (a + 1) (n - 1)

(* one case: `C socket plug...` (library indexes): register socket then plugs in a fresh graph, plug.
   Output: outcome|dump|V=<spec verdict>|X=<socket exports>|S=<socket imports name:kind>|H=<h1><h2>|R=<reasons>|T=<compatible import pairs> *)
let case line =
  let pu = universe () in
  let u = pu.pu_graph in
  let ids = List.map int_of_string (List.filter (fun x -> x <> "") (split ' ' (String.sub line 2 (String.length line - 2)))) in
  let s0 = register_all u (List.map nat_of_int ids) in
  let np = List.length ids - 1 in
  let socket = (nat_of_int 0, nat_of_int 0) in
  let plugs = List.map (fun k -> (nat_of_int k, nat_of_int 0)) (seq 1 np) in
  let (s1, out) = plug pu s0 plugs socket in
  let obs = match out with PPanic _ -> "PANIC|DEAD" | _ -> show_outcome out ^ "|" ^ dump u s1 in
  let text = pu.pu_name_text and sub = u.u_sub in
  match case_data pu s0 plugs socket with
  | None -> obs ^ "|V=nodata|X=|S=|H=--|R=-|T="
  | Some ((imps, sx), pls) ->
      let verdict = match spec_plug text sub imps pls with
        | VFail -> "fail" | VNoPlug -> "noplug"
        | VOk w -> "ok:" ^ String.concat "," (List.map (fun (m, o) -> match o with
            | Some (k, e) -> Printf.sprintf "%d=%d.%d" (int_of_n m) (int_of_nat k) (int_of_n e)
            | None -> Printf.sprintf "%d=-" (int_of_n m)) w) in
      let h1 = tracks_distinct_b text (List.map fst imps) in
      let h2 = List.for_all (fun exps -> tracks_distinct_b text (List.map fst exps)) pls in
      (* divergence of the readings: a pair kept by the (repaired) loop that is not the import-first offer, or an
         offer that is not a kept pair.  Both need two socket imports on one semver track (PlugProofs.pair_iff_offer). *)
      let ra = ref false in
      List.iter (fun exps ->
        let ms = plug_pairs text sub imps exps in
        List.iter (fun (m, t) -> match offer text sub exps (m, t) with
          | Some e -> if not (List.mem (e, m) ms) then ra := true
          | None -> ()) imps;
        List.iter (fun (e, m) ->
          let t = match alist_get N.eqb imps m with Some t -> t | None -> N0 in
          if offer text sub exps (m, t) <> Some e then ra := true) ms) pls;
      let reasons = if !ra then "A" else "" in
      let names l = String.concat "," (List.map (fun (n, k) -> Printf.sprintf "%d:%d" (int_of_n n) (int_of_n k)) l) in
      let tr = List.concat_map (fun (a, _) -> List.filter_map (fun (b, _) ->
          if int_of_n a < int_of_n b && compat (text a) (text b) then Some (Printf.sprintf "%d~%d" (int_of_n a) (int_of_n b)) else None) imps) imps in
      Printf.sprintf "%s|V=%s|X=%s|S=%s|H=%s%s|R=%s|T=%s" obs verdict (names sx) (names imps)
        (show_bool h1) (show_bool h2) (if reasons = "" then "-" else reasons) (String.concat "," tr)

let handle = function
  | [line] when String.length line > 1 && line.[0] = 'U' -> header line; line
  | [line] when String.length line > 1 && line.[0] = 'C' -> case line
  | _ -> "BAD-LINE"

let () = main handle
