(* C08 driver.  Input line:  conv TAB <graph> TAB <implementation observation>
   (graph and arena syntax: see harness/src/bin/c08/main.rs).
   Output line:  <model observation> TAB <specification verdicts on the IMPLEMENTATION's observation>
     model observation = the arenas produced by the extracted [from_graph] in the harness' arena syntax,
                         or PANIC:<cause> / ERR:<cause> / OOF
     verdicts          = lists=b trees=b/n walk=b ids=b res=b uses=b wt=b f1=b  (b in 0/1, n = items whose tree is in the
                         resource-free fragment; wt = the graph is well-typed; f1 = the graph-level predicate of finding F1),
                         only wt and f1 when the implementation did not produce arenas *)
open Model
open Common

let hfuel = nat_of_int 200
let fuel = nat_of_int 60
let ufuel = nat_of_int 200
let tag0 = n_of_int 1

(* ------------------------------------------------------------------ tokens *)
let unesc (s : string) : n list =
  if s = "%" then [] else begin
    let out = ref [] and i = ref 0 in
    let len = String.length s in
    while !i < len do
      if s.[!i] = '%' && !i + 2 < len then begin
        out := n_of_int (int_of_string ("0x" ^ String.sub s (!i + 1) 2)) :: !out; i := !i + 3
      end else begin out := n_of_int (Char.code s.[!i]) :: !out; incr i end
    done;
    List.rev !out
  end
let esc (l : n list) : string =
  if l = [] then "%" else
    String.concat "" (List.map (fun c -> let b = int_of_n c in
      if b > 32 && b < 127 && b <> 59 && b <> 37 then String.make 1 (Char.chr b) else Printf.sprintf "%%%02X" b) l)

let toks = ref [||] and pos = ref 0
let next () = let x = !toks.(!pos) in incr pos; x
let num s = int_of_string s
let nnum () = num (next ())
let flag () = next () = "1"
let onum () = let x = next () in if x = "-" then None else Some (n_of_int (num x))
let rec times k f = if k = 0 then [] else let x = f () in x :: times (k - 1) f
let tail s = String.sub s 1 (String.length s - 1)
let split_defs (text : string) : string list list =
  let all = List.filter (fun x -> x <> "") (String.split_on_char ' ' text) in
  let defs = ref [] and cur = ref [] in
  List.iter (fun t -> if t = ";" then (defs := List.rev !cur :: !defs; cur := []) else cur := t :: !cur) all;
  defs := List.rev !cur :: !defs;
  List.rev !defs

let prims = [| PU8; PS8; PU16; PS16; PU32; PS32; PU64; PS64; PF32; PF64; PChar; PBool; PString; PErrorContext |]

(* ------------------------------------------------------------------ core types (shared by both syntaxes) *)
let heap = function
  | "func" -> HFunc | "extern" -> HExtern | "any" -> HAny | "none" -> HNone | "noextern" -> HNoExtern
  | "nofunc" -> HNoFunc | "eq" -> HEq | "struct" -> HStruct | "array" -> HArray | "i31" -> HI31 | "exn" -> HExn
  | "noexn" -> HNoExn | "cont" -> HCont | "nocont" -> HNoCont
  | c -> HConcrete (n_of_int (num (tail c)))
let reft x =
  let dot = String.index x '.' in
  { r_nullable = (String.sub x 1 (dot - 1) = "1"); r_heap = heap (String.sub x (dot + 1) (String.length x - dot - 1)) }
let coret = function
  | "i32" -> CI32 | "i64" -> CI64 | "f32" -> CF32 | "f64" -> CF64 | "v128" -> CV128 | r -> CRef (reft r)
let corefunc () =
  let np = nnum () in let ps = times np (fun () -> coret (next ())) in
  let nr = nnum () in let rs = times nr (fun () -> coret (next ())) in
  { cf_params = ps; cf_results = rs }
let coreextern () =
  match next () with
  | "func" -> CEFunc (corefunc ()) | "tag" -> CETag (corefunc ())
  | "table" -> let e = reft (next ()) in let i = n_of_int (nnum ()) in let m = onum () in let t64 = flag () in let sh = flag () in
    CETable (e, i, m, t64, sh)
  | "memory" -> let m64 = flag () in let sh = flag () in let i = n_of_int (nnum ()) in let m = onum () in let p = onum () in
    CEMemory (m64, sh, i, m, p)
  | "global" -> let v = coret (next ()) in let mu = flag () in let sh = flag () in CEGlobal (v, mu, sh)
  | x -> failwith ("bad extern " ^ x)
let moduletype () =
  let ni = nnum () in
  let im = times ni (fun () -> let a = unesc (next ()) in let nm = unesc (next ()) in ((a, nm), coreextern ())) in
  let ne = nnum () in
  let ex = times ne (fun () -> let nm = unesc (next ()) in (nm, coreextern ())) in
  { m_imports = im; m_exports = ex }

(* ------------------------------------------------------------------ graph *)
let vval (x : string) : vval =
  match x.[0] with
  | 'p' -> WPrim prims.(num (tail x)) | 't' -> WRef (nat_of_int (num (tail x)))
  | _ -> failwith ("bad val " ^ x)
let oval x = if x = "-" then None else Some (vval x)
let vent (x : string) : vent =
  match String.split_on_char ':' x with
  | ["m"; n] -> EModule (nat_of_int (num n)) | ["f"; n] -> EFunc (nat_of_int (num n))
  | ["v"; v] -> EValue (vval v) | ["t"; r; c] -> EType (nat_of_int (num r), nat_of_int (num c))
  | ["i"; n] -> EInstance (nat_of_int (num n)) | ["c"; n] -> EComponent (nat_of_int (num n))
  | _ -> failwith ("bad ent " ^ x)
let eitems () = let k = nnum () in times k (fun () -> let nm = unesc (next ()) in (nm, vent (next ())))

let parse_graph (text : string) : vgraph =
  let nodes = ref [] and im = ref [] and ex = ref [] and ifn = ref [] in
  List.iter (fun def ->
      toks := Array.of_list def; pos := 0;
      match next () with
      | "G" -> ()
      | "IM" -> im := eitems ()
      | "EX" -> ex := eitems ()
      | "IF" -> let k = nnum () in ifn := times k (fun () -> unesc (next ()))
      | peel ->
        let peel = if peel = "-" then None else Some (nat_of_int (num peel)) in
        let body = match next () with
          | "D" ->
            NDef (match next () with
                | "prim" -> (match vval (next ()) with WPrim p -> WDPrim p | _ -> failwith "prim")
                | "record" -> let k = nnum () in WDRecord (times k (fun () -> let nm = unesc (next ()) in (nm, vval (next ()))))
                | "variant" -> let k = nnum () in WDVariant (times k (fun () -> let nm = unesc (next ()) in (nm, oval (next ()))))
                | "list" -> WDList (vval (next ()))
                | "map" -> let a = vval (next ()) in WDMap (a, vval (next ()))
                | "fsl" -> let v = vval (next ()) in WDFsl (v, n_of_int (nnum ()))
                | "tuple" -> let k = nnum () in WDTuple (times k (fun () -> vval (next ())))
                | "flags" -> let k = nnum () in WDFlags (times k (fun () -> unesc (next ())))
                | "enum" -> let k = nnum () in WDEnum (times k (fun () -> unesc (next ())))
                | "option" -> WDOption (vval (next ()))
                | "result" -> let o = oval (next ()) in WDResult (o, oval (next ()))
                | "own" -> WDOwn (nat_of_int (nnum ()))
                | "borrow" -> WDBorrow (nat_of_int (nnum ()))
                | "future" -> WDFuture (oval (next ()))
                | "stream" -> WDStream (oval (next ()))
                | x -> failwith ("bad vdef " ^ x))
          | "F" -> let a = flag () in let k = nnum () in
            let ps = times k (fun () -> let nm = unesc (next ()) in (nm, vval (next ()))) in
            NFunc (a, ps, oval (next ()))
          | "I" -> NInst (eitems ())
          | "C" -> let i = eitems () in NComp (i, eitems ())
          | "R" -> NRes (nat_of_int (nnum ()))
          | "M" -> if !toks.(!pos) = "!" then NMod None else NMod (Some (moduletype ()))
          | x -> failwith ("bad node " ^ x) in
        nodes := (body, peel) :: !nodes) (split_defs text);
  { vg_nodes = List.rev !nodes; vg_imports = !im; vg_exports = !ex; vg_ifnames = !ifn }

(* ------------------------------------------------------------------ arenas: parse *)
let mk k = { id_tag = tag0; id_idx = nat_of_int k }
let vt (x : string) : valtype =
  let k = num (tail x) in
  match x.[0] with
  | 'p' -> VPrim prims.(k) | 'd' -> VDefined (mk k) | 'o' -> VOwn (mk k) | 'b' -> VBorrow (mk k)
  | _ -> failwith ("bad vt " ^ x)
let ovt x = if x = "-" then None else Some (vt x)
let kind (x : string) : kind =
  let c = String.index x ':' in
  let t = String.sub x 0 c and rest = String.sub x (c + 1) (String.length x - c - 1) in
  let id () = mk (num rest) in
  match t with
  | "tr" -> KType (TResource (id ())) | "tf" -> KType (TFunc (id ())) | "tv" -> KType (TValue (vt rest))
  | "ti" -> KType (TInterface (id ())) | "tw" -> KType (TWorld (id ())) | "tm" -> KType (TModule (id ()))
  | "f" -> KFunc (id ()) | "i" -> KInstance (id ()) | "c" -> KComponent (id ()) | "m" -> KModule (id ())
  | "v" -> KValue (vt rest)
  | _ -> failwith ("bad kind " ^ x)
let kitems () = let k = nnum () in times k (fun () -> let nm = unesc (next ()) in (nm, kind (next ())))
let uses () =
  let k = nnum () in
  times k (fun () -> let nm = unesc (next ()) in let i = mk (nnum ()) in let o = next () in
            (nm, (i, if o = "-" then None else Some (unesc o))))
let oid () = let x = next () in if x = "-" then None else Some (unesc x)

let parse_arenas (text : string) : types * package =
  let d = ref [] and r = ref [] and f = ref [] and i = ref [] and w = ref [] and m = ref [] and p = ref None in
  List.iter (fun def ->
      toks := Array.of_list def; pos := 0;
      match next () with
      | "D" ->
        let ty = match next () with
          | "tuple" -> let k = nnum () in DTuple (times k (fun () -> vt (next ())))
          | "list" -> DList (vt (next ()))
          | "fsl" -> let v = vt (next ()) in DFsl (v, n_of_int (nnum ()))
          | "option" -> DOption (vt (next ()))
          | "result" -> let o = ovt (next ()) in let e = ovt (next ()) in DResult (o, e)
          | "variant" -> let k = nnum () in DVariant (times k (fun () -> let nm = unesc (next ()) in (nm, ovt (next ()))))
          | "record" -> let k = nnum () in DRecord (times k (fun () -> let nm = unesc (next ()) in (nm, vt (next ()))))
          | "flags" -> let k = nnum () in DFlags (times k (fun () -> unesc (next ())))
          | "enum" -> let k = nnum () in DEnum (times k (fun () -> unesc (next ())))
          | "alias" -> DAlias (vt (next ()))
          | "stream" -> DStream (ovt (next ()))
          | "future" -> DFuture (ovt (next ()))
          | x -> failwith ("bad defined " ^ x) in
        d := ty :: !d
      | "R" ->
        let nm = unesc (next ()) in let a = next () in
        let al = if a = "-" then None else
            let src = mk (num (tail a)) in let o = next () in
            Some ((if o = "-" then None else Some (mk (num o))), src) in
        r := { res_name = nm; res_alias = al } :: !r
      | "F" ->
        let a = flag () in let k = nnum () in
        let ps = times k (fun () -> let nm = unesc (next ()) in (nm, vt (next ()))) in
        let res = ovt (next ()) in
        f := { f_params = ps; f_result = res; f_async = a } :: !f
      | "I" -> let id = oid () in let u = uses () in let e = kitems () in
        i := { i_id = id; i_uses = u; i_exports = e } :: !i
      | "W" -> let id = oid () in let u = uses () in let im = kitems () in let ex = kitems () in
        w := { w_id = id; w_uses = u; w_imports = im; w_exports = ex } :: !w
      | "M" -> m := moduletype () :: !m
      | "P" -> let wi = mk (nnum ()) in let ii = mk (nnum ()) in
        p := Some { pk_ty = wi; pk_instance = ii; pk_defs = kitems () }
      | x -> failwith ("bad arena def " ^ x)) (split_defs text);
  ({ t_tag = tag0; t_defined = List.rev !d; t_resources = List.rev !r; t_funcs = List.rev !f;
     t_interfaces = List.rev !i; t_worlds = List.rev !w; t_modules = List.rev !m },
   match !p with Some p -> p | None -> failwith "no P")

(* ------------------------------------------------------------------ arenas: print *)
let sq (s : string) : string = String.concat " " (List.filter (fun x -> x <> "") (String.split_on_char ' ' s))
let idx (i : id) = string_of_int (int_of_nat i.id_idx)
let pvt = function
  | VPrim p -> "p" ^ string_of_int (int_of_n (prim_idx p)) | VDefined d -> "d" ^ idx d | VOwn r -> "o" ^ idx r
  | VBorrow r -> "b" ^ idx r
let povt = function None -> "-" | Some v -> pvt v
let pkind = function
  | KType (TResource r) -> "tr:" ^ idx r | KType (TFunc f) -> "tf:" ^ idx f | KType (TValue v) -> "tv:" ^ pvt v
  | KType (TInterface i) -> "ti:" ^ idx i | KType (TWorld w) -> "tw:" ^ idx w | KType (TModule m) -> "tm:" ^ idx m
  | KFunc f -> "f:" ^ idx f | KInstance i -> "i:" ^ idx i | KComponent w -> "c:" ^ idx w | KModule m -> "m:" ^ idx m
  | KValue v -> "v:" ^ pvt v
let cat = String.concat " "
let counted l = string_of_int (List.length l) ^ " " ^ cat l
let pkitems l = counted (List.map (fun (n, k) -> esc n ^ " " ^ pkind k) l)
let puses l = counted (List.map (fun (n, (i, o)) -> esc n ^ " " ^ idx i ^ " " ^ (match o with None -> "-" | Some x -> esc x)) l)
let pheap = function
  | HConcrete i -> "c" ^ string_of_int (int_of_n i) | HFunc -> "func" | HExtern -> "extern" | HAny -> "any" | HNone -> "none"
  | HNoExtern -> "noextern" | HNoFunc -> "nofunc" | HEq -> "eq" | HStruct -> "struct" | HArray -> "array" | HI31 -> "i31"
  | HExn -> "exn" | HNoExn -> "noexn" | HCont -> "cont" | HNoCont -> "nocont"
let b01 b = if b then "1" else "0"
let preft r = "r" ^ b01 r.r_nullable ^ "." ^ pheap r.r_heap
let pcoret = function CI32 -> "i32" | CI64 -> "i64" | CF32 -> "f32" | CF64 -> "f64" | CV128 -> "v128" | CRef r -> preft r
let pcorefunc f = sq (counted (List.map pcoret f.cf_params) ^ " " ^ counted (List.map pcoret f.cf_results))
let pon = function None -> "-" | Some x -> string_of_int (int_of_n x)
let pextern = function
  | CEFunc f -> "func " ^ pcorefunc f | CETag f -> "tag " ^ pcorefunc f
  | CETable (e, i, m, t64, sh) -> cat ["table"; preft e; string_of_int (int_of_n i); pon m; b01 t64; b01 sh]
  | CEMemory (m64, sh, i, m, p) -> cat ["memory"; b01 m64; b01 sh; string_of_int (int_of_n i); pon m; pon p]
  | CEGlobal (v, mu, sh) -> cat ["global"; pcoret v; b01 mu; b01 sh]
let poid = function None -> "-" | Some x -> esc x

let print_arenas (t : types) (p : package) : string =
  let o = ref [] in
  let add s = o := sq s :: !o in
  List.iter (fun d ->
      add ("D " ^ match d with
        | DTuple l -> "tuple " ^ counted (List.map pvt l)
        | DList v -> "list " ^ pvt v
        | DFsl (v, n) -> "fsl " ^ pvt v ^ " " ^ string_of_int (int_of_n n)
        | DOption v -> "option " ^ pvt v
        | DResult (a, b) -> "result " ^ povt a ^ " " ^ povt b
        | DVariant c -> "variant " ^ counted (List.map (fun (n, v) -> esc n ^ " " ^ povt v) c)
        | DRecord c -> "record " ^ counted (List.map (fun (n, v) -> esc n ^ " " ^ pvt v) c)
        | DFlags l -> "flags " ^ counted (List.map esc l)
        | DEnum l -> "enum " ^ counted (List.map esc l)
        | DAlias v -> "alias " ^ pvt v
        | DStream v -> "stream " ^ povt v
        | DFuture v -> "future " ^ povt v)) t.t_defined;
  List.iter (fun r ->
      add (match r.res_alias with
          | None -> "R " ^ esc r.res_name ^ " -"
          | Some (ow, src) -> "R " ^ esc r.res_name ^ " a" ^ idx src ^ " " ^ (match ow with None -> "-" | Some x -> idx x))) t.t_resources;
  List.iter (fun f ->
      add (cat ["F"; b01 f.f_async; counted (List.map (fun (n, v) -> esc n ^ " " ^ pvt v) f.f_params); povt f.f_result])) t.t_funcs;
  List.iter (fun i -> add (cat ["I"; poid i.i_id; puses i.i_uses; pkitems i.i_exports])) t.t_interfaces;
  List.iter (fun w -> add (cat ["W"; poid w.w_id; puses w.w_uses; pkitems w.w_imports; pkitems w.w_exports])) t.t_worlds;
  List.iter (fun m ->
      add (cat ["M"; counted (List.map (fun ((a, b), e) -> cat [esc a; esc b; pextern e]) m.m_imports);
                counted (List.map (fun (a, e) -> cat [esc a; pextern e]) m.m_exports)])) t.t_modules;
  add (cat ["P"; idx p.pk_ty; idx p.pk_instance; pkitems p.pk_defs]);
  String.concat " ; " (List.rev !o)

let empty_types = { t_tag = tag0; t_defined = []; t_resources = []; t_funcs = []; t_interfaces = []; t_worlds = []; t_modules = [] }

let model_obs (g : vgraph) : string =
  match from_graph hfuel fuel g empty_types with
  | COk (p, t) -> print_arenas t p
  | CErr EMapUnsupported -> "ERR:map" | CErr EModuleUnsupported -> "ERR:module"
  | CPanic PInvalidCached -> "PANIC:invalid-cached" | CPanic PExpectedResource -> "PANIC:expected-resource"
  | CPanic PDupItem -> "PANIC:dup-item" | CPanic PDupOwner -> "PANIC:dup-owner" | CPanic PBadIndex -> "PANIC:bad-index"
  | COutOfFuel -> "OOF"

(* ------------------------------------------------------------------ the specification on the implementation's observation *)
let nth_opt l n = try Some (List.nth l n) with _ -> None
let rec zip a b = match a, b with x :: a', y :: b' -> (x, y) :: zip a' b' | _ -> []

let verdicts (g : vgraph) (t : types) (p : package) : string =
  let lists = lists_exactly_b g t p in
  let w = match nth_opt t.t_worlds (int_of_nat p.pk_ty.id_idx) with Some w -> w | None -> failwith "world" in
  let pairs = zip g.vg_imports w.w_imports @ zip g.vg_exports w.w_exports in
  let checked = ref 0 and trees = ref true in
  List.iter (fun ((_, e), (_, k)) ->
      match spec_tree fuel g e with
      | None -> ()
      | Some tr -> incr checked; if unfold ufuel t k <> Some tr then trees := false) pairs;
  let walk = walk_package g t ufuel p in
  let (walk_ok, ids, res, uses) =
    match walk with
    | None -> (false, false, false, false)
    | Some evs ->
      let ids = ids_one_to_one_b evs in
      let res = match res_pairs ufuel g t (maps_of evs) with Some l -> resources_agree_b l | None -> false in
      let uses = match expected_uses hfuel g (sites_of evs) with Some l -> uses_agree_b t l | None -> false in
      (true, ids, res, uses) in
  Printf.sprintf "lists=%s trees=%s/%d walk=%s ids=%s res=%s uses=%s wt=%s" (b01 lists) (b01 !trees) !checked (b01 walk_ok)
    (b01 ids) (b01 res) (b01 uses) (b01 (wt_graph_b g)) ^ " f1=" ^ b01 (shares_created_b g)

let handle = function
  | ["conv"; graph; impl] ->
    let g = parse_graph graph in
    let m = model_obs g in
    let v =
      if String.length impl >= 2 && (String.sub impl 0 2 = "D " || String.sub impl 0 2 = "R " || String.sub impl 0 2 = "F "
                                     || String.sub impl 0 2 = "I " || String.sub impl 0 2 = "W " || String.sub impl 0 2 = "M "
                                     || String.sub impl 0 2 = "P ")
      then (let (t, p) = parse_arenas impl in verdicts g t p)
      else "wt=" ^ b01 (wt_graph_b g) ^ " f1=" ^ b01 (shares_created_b g) in
    m ^ "\t" ^ v
  | _ -> "BAD-LINE"

let () = main handle
