(** Comparison combinators mirroring Rust's [Ord] vocabulary ([cmp], [then_with], derived
    lexicographic orders on structs and slices), with the total-order laws proved once. *)
From WacV Require Import Str.

Definition then_with (c : comparison) (k : comparison) : comparison :=
  match c with Eq => k | _ => c end.

(** Rust [<[T] as Ord>::cmp] / [str::cmp]: lexicographic, a proper prefix is smaller. *)
Fixpoint lex_cmp {A} (cmp : A -> A -> comparison) (a b : list A) : comparison :=
  match a, b with
  | [], [] => Eq
  | [], _ :: _ => Lt
  | _ :: _, [] => Gt
  | x :: a', y :: b' => then_with (cmp x y) (lex_cmp cmp a' b')
  end.

Definition str_cmp : str -> str -> comparison := lex_cmp N.compare.
Definition len_cmp {A} (a b : list A) : comparison := Nat.compare (length a) (length b).

(** Laws. *)
Record total_cmp {A} (cmp : A -> A -> comparison) : Prop := {
  tc_eq : forall a b, cmp a b = Eq -> a = b;
  tc_refl : forall a, cmp a a = Eq;
  tc_anti : forall a b, cmp b a = CompOpp (cmp a b);
  tc_trans : forall a b c, cmp a b = Lt -> cmp b c = Lt -> cmp a c = Lt }.

Lemma N_total : total_cmp N.compare.
Proof.
  split.
  - intros a b H; now apply N.compare_eq_iff.
  - intros a; apply N.compare_refl.
  - intros a b; apply N.compare_antisym.
  - intros a b c H1 H2; rewrite N.compare_lt_iff in *; lia.
Qed.

Lemma nat_total : total_cmp Nat.compare.
Proof.
  split.
  - intros a b H; now apply Nat.compare_eq_iff.
  - intros a; apply Nat.compare_refl.
  - intros a b; apply Nat.compare_antisym.
  - intros a b c H1 H2; rewrite Nat.compare_lt_iff in *; lia.
Qed.

Lemma lex_total {A} (cmp : A -> A -> comparison) :
  total_cmp cmp -> total_cmp (lex_cmp cmp).
Proof.
  intros [He Hr Ha Ht]; split.
  - induction a as [|x a IH]; destruct b as [|y b]; cbn; try discriminate; auto.
    intros H. destruct (cmp x y) eqn:E; cbn in H; try discriminate.
    apply He in E; subst; f_equal; auto.
  - induction a as [|x a IH]; cbn; auto. rewrite Hr; cbn; auto.
  - induction a as [|x a IH]; destruct b as [|y b]; cbn; auto.
    rewrite (Ha x y). destruct (cmp x y); cbn; auto.
  - induction a as [|x a IH]; destruct b as [|y b]; destruct c as [|z c]; cbn; auto; try discriminate.
    destruct (cmp x y) eqn:E1; cbn; try discriminate.
    + apply He in E1; subst y. destruct (cmp x z) eqn:E2; cbn; auto. apply IH.
    + intros _. destruct (cmp y z) eqn:E2; cbn; try discriminate.
      * apply He in E2; subst z. rewrite E1; auto.
      * intros _. rewrite (Ht _ _ _ E1 E2); auto.
Qed.

Lemma str_total : total_cmp str_cmp.
Proof. apply lex_total, N_total. Qed.

(** Lexicographic product: [cmp1 (f a) (f b)].then_with(|| cmp2 (g a) (g b)), jointly injective. *)
Lemma pair_total {A B C} (f : A -> B) (g : A -> C) c1 c2 :
  total_cmp c1 -> total_cmp c2 -> (forall a b, f a = f b -> g a = g b -> a = b) ->
  total_cmp (fun a b => then_with (c1 (f a) (f b)) (c2 (g a) (g b))).
Proof.
  intros [He1 Hr1 Ha1 Ht1] [He2 Hr2 Ha2 Ht2] Hinj; split.
  - intros a b H. destruct (c1 (f a) (f b)) eqn:E; cbn in H; try discriminate.
    apply Hinj; auto.
  - intros a. rewrite Hr1; cbn; auto.
  - intros a b. rewrite (Ha1 (f a) (f b)). destruct (c1 (f a) (f b)); cbn; auto.
  - intros a b c. destruct (c1 (f a) (f b)) eqn:E1; cbn; try discriminate.
    + apply He1 in E1. rewrite E1. destruct (c1 (f b) (f c)) eqn:E2; cbn; try discriminate; auto.
      apply Ht2.
    + intros _. destruct (c1 (f b) (f c)) eqn:E2; cbn; try discriminate.
      * apply He1 in E2. rewrite <- E2, E1; auto.
      * intros _. rewrite (Ht1 _ _ _ E1 E2); auto.
Qed.

Lemma pull_total {A B} (f : A -> B) c :
  total_cmp c -> (forall a b, f a = f b -> a = b) -> total_cmp (fun a b => c (f a) (f b)).
Proof.
  intros [He Hr Ha Ht] Hinj; split; eauto.
Qed.

Lemma total_gt_lt {A} (cmp : A -> A -> comparison) : total_cmp cmp ->
  forall a b, cmp a b = Gt <-> cmp b a = Lt.
Proof.
  intros T a b. rewrite (tc_anti _ T a b). destruct (cmp a b); cbn; split; congruence.
Qed.

(** Product order on pairs. *)
Definition prod_cmp {A B} (c1 : A -> A -> comparison) (c2 : B -> B -> comparison)
  (x y : A * B) : comparison := then_with (c1 (fst x) (fst y)) (c2 (snd x) (snd y)).

Lemma prod_total {A B} (c1 : A -> A -> comparison) (c2 : B -> B -> comparison) :
  total_cmp c1 -> total_cmp c2 -> total_cmp (prod_cmp c1 c2).
Proof.
  intros T1 T2. unfold prod_cmp.
  apply (pair_total (@fst A B) (@snd A B) c1 c2 T1 T2).
  intros [a b] [a' b']; cbn; congruence.
Qed.

(** Two classes: members of class [D] compared by [c1], the others by [c2]; [x] is the verdict for
    (member, non-member). Mirrors the early returns in the Rust comparison loops. *)
Definition class_cmp {A} (D : A -> bool) (c1 c2 : A -> A -> comparison) (x : comparison) (a b : A) :=
  match D a, D b with
  | true, true => c1 a b
  | true, false => x
  | false, true => CompOpp x
  | false, false => c2 a b
  end.

Lemma class_total {A} (D : A -> bool) c1 c2 x :
  x <> Eq -> total_cmp c1 -> total_cmp c2 -> total_cmp (class_cmp D c1 c2 x).
Proof.
  intros Hx [He1 Hr1 Ha1 Ht1] [He2 Hr2 Ha2 Ht2]; unfold class_cmp; split.
  - intros a b. destruct (D a), (D b); auto; destruct x; cbn; congruence.
  - intros a. destruct (D a); auto.
  - intros a b. destruct (D a), (D b); auto. destruct x; reflexivity.
  - intros a b c. destruct (D a), (D b), (D c); eauto; destruct x; cbn; congruence.
Qed.
