(** Printing helpers used only by correspondence drivers. *)
From WacV Require Import Str.
Fixpoint show_N_fuel (fuel : nat) (n : N) (acc : str) : str :=
  match fuel with
  | O => acc
  | S f => let acc' := (48 + n mod 10) :: acc in
           if n / 10 =? 0 then acc' else show_N_fuel f (n / 10) acc'
  end.
Definition show_N (n : N) : str := show_N_fuel (S (N.to_nat (N.size n))) n [].
