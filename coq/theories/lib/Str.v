(** Strings as lists of Unicode scalar values (or bytes where the Rust code works on bytes). *)
From Coq Require Export List NArith Bool Lia PeanoNat Arith.
Export ListNotations.
Open Scope N_scope.

Definition str := list N.

Fixpoint str_eqb (a b : str) : bool :=
  match a, b with
  | [], [] => true
  | x :: a', y :: b' => (x =? y) && str_eqb a' b'
  | _, _ => false
  end.

Definition is_digit (c : N) : bool := (48 <=? c) && (c <=? 57).
Definition is_upper (c : N) : bool := (65 <=? c) && (c <=? 90).
Definition is_lower (c : N) : bool := (97 <=? c) && (c <=? 122).
Definition is_alpha (c : N) : bool := is_upper c || is_lower c.

(** [find_first c s] = index split: [Some (before, after)] at the first occurrence of [c]
    (Rust [str::find] followed by slicing around the match). *)
Fixpoint split_first (c : N) (s : str) : option (str * str) :=
  match s with
  | [] => None
  | x :: r => if x =? c then Some ([], r)
              else match split_first c r with
                   | Some (b, a) => Some (x :: b, a)
                   | None => None
                   end
  end.

(** Rust [str::split(c)]: always at least one (possibly empty) segment. *)
Fixpoint split_on (c : N) (s : str) : list str :=
  match s with
  | [] => [[]]
  | x :: r => if x =? c then [] :: split_on c r
              else match split_on c r with
                   | seg :: segs => (x :: seg) :: segs
                   | [] => [[x]]
                   end
  end.

Fixpoint starts_with (p s : str) : bool :=
  match p, s with
  | [], _ => true
  | x :: p', y :: s' => (x =? y) && starts_with p' s'
  | _ :: _, [] => false
  end.

Fixpoint trim_start_matches (c : N) (s : str) : str :=
  match s with
  | x :: r => if x =? c then trim_start_matches c r else s
  | [] => []
  end.

Definition len (s : str) : N := N.of_nat (length s).
