(** Coq string literals as [str] (lists of code points); ASCII only. Used for tables written from
    the language reference and by printers, never inside the lexer/parser models. *)
From Coq Require Import String Ascii.
From WacV Require Import Str.
Definition lit (s : string) : str := map N_of_ascii (list_ascii_of_string s).
Arguments lit s%string_scope.
(** [L"text"]: the same, computed when the definition is elaborated, so that no Coq [string] value
    survives into extracted code. *)
Notation "'L' s" := (ltac:(let v := eval vm_compute in (lit s%string) in exact v))
  (at level 0, s at level 0, only parsing).
