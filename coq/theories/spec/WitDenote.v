(** An environment-passing denotation of the WIT declarations that WAC shares with WIT, into the
    arena-free trees of [Types.v].  Written from the WIT specification (component-model
    design/mvp/WIT.md) and LANGUAGE.md, NOT from resolution.rs:

    - a type expression denotes a value-type tree; a name in type position that is bound to a resource
      denotes the handle [own<r>]; [borrow<r>] needs a resource name;
    - [record]/[variant]/[enum]/[flags] denote the corresponding structural type (names in order, no
      duplicate names); [type a = b] denotes what [b] denotes (for a resource: the same resource);
    - a function type denotes its parameter list and result; parameter names are distinct; a result must not
      contain a borrow;
    - [resource r { ... }] exports the resource type [r], then one function per member, in order:
      [constructor(p..)] is the function [[constructor]r] with the declared parameters and result [own<r>];
      a method [m: func(p..) -> t] is [[method]r.m] with the additional first parameter [self: borrow<r>];
      a static function [m: static func(..)] is [[static]r.m] with exactly the declared signature;
      at most one constructor; member names distinct;
    - an interface denotes an instance type: every type declared or [use]d in it is exported under its
      (local) name, every function under its name, in source order; names are unique in the interface;
    - [use i.{a as b}] binds [b] in the using scope to the very type that interface [i] exports as [a]
      (types and resources only) and re-exports it (interface) / imports it (world) under the name [b];
    - a world denotes a component type: named imports/exports under their plain name (function, inline
      interface), interface paths under the interface's id [ns:pkg/name@version]; types declared or used in
      a world are imports; a name may be imported at most once and exported at most once;
    - [include w with { a as b, .. }] adds every import and export of [w]: an item with a plain name [a]
      for which a renaming is given gets the name [b] -- on the import side and on the export side alike --,
      items keyed by an interface id are never renamed and merge with an equal id already present; a plain
      name that is already present on the same side is an error; every [a] of the [with] list must be a
      plain name of [w], and no [a] is listed twice.  Includes are elaborated after the other items of
      the world.

    Resources are denoted by the name of their defining declaration (as in [Types.unfold]); the identity of
    the resource behind a [use] is stated separately by the [use_spec] theorems (same arena slot).

    [None] = the declaration is not well formed. *)
From Coq Require Import String.
From WacV Require Import Str StrLit Show Types.
From WacV Require Ast.

Inductive sem :=
| SVal (v : vtree)
| SRes (n : str)
| SFunc (f : ftree)
| SIface (idn : option str) (e : list (str * tree))
| SWorld (i e : list (str * tree)).

Definition sem_tree (s : sem) : tree :=
  match s with
  | SVal v => XTValue v | SRes n => XTRes n | SFunc f => XTFunc f
  | SIface _ e => XTInst e | SWorld i e => XTComp i e
  end.

Definition env := list (str * sem).
Definition nm (i : Ast.ident) : str := Ast.id_string i.
Definition bound {B} (k : str) (l : list (str * B)) : bool :=
  match assoc k l with Some _ => true | None => false end.

Definition den_prim (p : Ast.prim) : prim :=
  match p with
  | Ast.PU8 => PU8 | Ast.PS8 => PS8 | Ast.PU16 => PU16 | Ast.PS16 => PS16 | Ast.PU32 => PU32
  | Ast.PS32 => PS32 | Ast.PU64 => PU64 | Ast.PS64 => PS64 | Ast.PF32 => PF32 | Ast.PF64 => PF64
  | Ast.PChar => PChar | Ast.PBool => PBool | Ast.PString => PString
  end.

(** * Type expressions *)
Fixpoint den_ty (e : env) (x : Ast.ty) {struct x} : option vtree :=
  match x with
  | Ast.TyPrim p _ => Some (VTPrim (den_prim p))
  | Ast.TyTuple ts _ => option_map VTTuple (all_some (map (den_ty e) ts))
  | Ast.TyList y _ => option_map VTList (den_ty e y)
  | Ast.TyOption y _ => option_map VTOption (den_ty e y)
  | Ast.TyResult o r _ =>
    match omap (den_ty e) o, omap (den_ty e) r with
    | Some o', Some r' => Some (VTResult o' r')
    | _, _ => None
    end
  | Ast.TyBorrow i _ => match assoc (nm i) e with Some (SRes n) => Some (VTBorrow n) | _ => None end
  | Ast.TyBorrowTy _ _ => None
  | Ast.TyIdent i =>
    match assoc (nm i) e with
    | Some (SRes n) => Some (VTOwn n)
    | Some (SVal v) => Some v
    | _ => None
    end
  end.

(** a borrow anywhere inside *)
Fixpoint has_borrow (t : vtree) : bool :=
  let o x := match x with Some y => has_borrow y | None => false end in
  match t with
  | VTPrim _ | VTFlags _ | VTEnum _ | VTOwn _ => false
  | VTBorrow _ => true
  | VTTuple l => existsb has_borrow l
  | VTList x | VTFsl x _ | VTOption x => has_borrow x
  | VTResult a b => o a || o b
  | VTVariant c => existsb (fun kv => o (snd kv)) c
  | VTRecord f => existsb (fun kv => has_borrow (snd kv)) f
  | VTStream x | VTFuture x => o x
  end.

Fixpoint distinct (l : list str) : bool :=
  match l with
  | [] => true
  | x :: r => negb (existsb (str_eqb x) r) && distinct r
  end.

(** * Function types *)
Inductive mkind := MFree | MMethod | MStatic | MCtor.

Definition den_params (e : env) (ps : list Ast.named_type) : option (list (str * vtree)) :=
  all_some (map (fun p => match den_ty e (Ast.nt_ty p) with
                          | Some v => Some (nm (Ast.nt_id p), v)
                          | None => None
                          end) ps).

Definition den_func (e : env) (k : mkind) (r : str) (ps : list Ast.named_type) (rs : Ast.result_list)
  : option ftree :=
  match den_params e ps with
  | None => None
  | Some ps' =>
    let params := match k with MMethod => (L"self", VTBorrow r) :: ps' | _ => ps' end in
    if negb (distinct (map fst params)) then None else
    match rs with
    | Ast.RLEmpty => Some (mkft params (match k with MCtor => Some (VTOwn r) | _ => None end) false)
    | Ast.RLScalar y =>
      match den_ty e y with
      | Some v => if has_borrow v then None else Some (mkft params (Some v) false)
      | None => None
      end
    | Ast.RLNamed _ => None
    end
  end.

Definition den_func_ref (e : env) (r : Ast.func_type_ref) : option ftree :=
  match r with
  | Ast.FRFunc f => den_func e MFree [] (Ast.ft_params f) (Ast.ft_results f)
  | Ast.FRIdent i => match assoc (nm i) e with Some (SFunc f) => Some f | _ => None end
  end.

(** * Type declarations *)
Definition den_cases (e : env) (cs : list Ast.variant_case) : option (list (str * option vtree)) :=
  all_some (map (fun c => match omap (den_ty e) (Ast.vc_ty c) with
                          | Some o => Some (nm (Ast.vc_id c), o)
                          | None => None
                          end) cs).
Definition den_fields (e : env) (fs : list Ast.field) : option (list (str * vtree)) :=
  all_some (map (fun f => match den_ty e (Ast.fd_ty f) with
                          | Some v => Some (nm (Ast.fd_id f), v)
                          | None => None
                          end) fs).

Definition dname (d : Ast.item_type_decl) : str :=
  match d with
  | Ast.DResource _ i _ | Ast.DVariant _ i _ | Ast.DRecord _ i _ | Ast.DFlags _ i _ | Ast.DEnum _ i _
  | Ast.DAlias _ i _ => nm i
  end.

(** what a declaration other than a resource binds its name to *)
Definition den_plain (e : env) (d : Ast.item_type_decl) : option sem :=
  match d with
  | Ast.DResource _ _ _ => None
  | Ast.DVariant _ _ cs =>
    match den_cases e cs with
    | Some c => if distinct (map fst c) then Some (SVal (VTVariant c)) else None
    | None => None
    end
  | Ast.DRecord _ _ fs =>
    match den_fields e fs with
    | Some f => if distinct (map fst f) then Some (SVal (VTRecord f)) else None
    | None => None
    end
  | Ast.DFlags _ _ fl =>
    let l := map (fun f => nm (Ast.fl_id f)) fl in if distinct l then Some (SVal (VTFlags l)) else None
  | Ast.DEnum _ _ cs =>
    let l := map (fun c => nm (Ast.ec_id c)) cs in if distinct l then Some (SVal (VTEnum l)) else None
  | Ast.DAlias _ _ (Ast.TAFunc f) => option_map SFunc (den_func e MFree [] (Ast.ft_params f) (Ast.ft_results f))
  | Ast.DAlias _ _ (Ast.TAType (Ast.TyIdent i)) =>
    match assoc (nm i) e with
    | Some (SRes n) => Some (SRes n)
    | Some (SVal v) => Some (SVal v)
    | Some (SFunc f) => Some (SFunc f)
    | _ => None
    end
  | Ast.DAlias _ _ (Ast.TAType y) => option_map SVal (den_ty e y)
  end.

(** the members of a resource, as (name, function) in order *)
Definition member_name (r m : str) (k : mkind) : str :=
  match k with
  | MMethod => L"[method]" ++ r ++ 46 :: m
  | MStatic => L"[static]" ++ r ++ 46 :: m
  | _ => L"[constructor]" ++ r
  end.

Definition den_member (e : env) (r : str) (m : Ast.resource_method) : option (str * tree) :=
  match m with
  | Ast.RMConstructor _ _ ps =>
    option_map (fun f => (member_name r [] MCtor, XFunc f)) (den_func e MCtor r ps Ast.RLEmpty)
  | Ast.RMMethod _ i is_static ft =>
    let k := if is_static then MStatic else MMethod in
    option_map (fun f => (member_name r (nm i) k, XFunc f)) (den_func e k r (Ast.ft_params ft) (Ast.ft_results ft))
  end.
(** the key under which a member must be unique: [None] for the constructor *)
Definition member_key (m : Ast.resource_method) : str :=
  match m with Ast.RMConstructor _ _ _ => [] | Ast.RMMethod _ i _ _ => nm i end.

(** * Bodies: local environment and the exported / imported items so far *)
Record body := mkbody { b_env : env; b_items : list (str * tree) }.

Definition fresh (n : str) (b : body) : bool := negb (bound n (b_env b)) && negb (bound n (b_items b)).

Definition den_decl (b : body) (d : Ast.item_type_decl) : option body :=
  match d with
  | Ast.DResource _ i ms =>
    let r := nm i in
    if negb (fresh r b) then None else
    let e1 := (r, SRes r) :: b_env b in
    if negb (distinct (map member_key ms)) then None else
    match all_some (map (den_member e1 r) ms) with
    | Some fs => Some (mkbody e1 (b_items b ++ (r, XTRes r) :: fs))
    | None => None
    end
  | _ =>
    match den_plain (b_env b) d with
    | Some s => if fresh (dname d) b then Some (mkbody ((dname d, s) :: b_env b) (b_items b ++ [(dname d, sem_tree s)]))
                else None
    | None => None
    end
  end.

(** [use]: the source must denote an interface; each item one of its exported types *)
Definition used_sem (t : tree) : option sem :=
  match t with XTValue v => Some (SVal v) | XTRes n => Some (SRes n) | _ => None end.

Fixpoint den_use_items (src : list (str * tree)) (b : body) (items : list Ast.use_item) : option body :=
  match items with
  | [] => Some b
  | it :: rest =>
    let n := match Ast.ui_as it with Some a => nm a | None => nm (Ast.ui_id it) end in
    match assoc (nm (Ast.ui_id it)) src with
    | None => None
    | Some t =>
      match used_sem t with
      | None => None
      | Some s => if fresh n b then den_use_items src (mkbody ((n, s) :: b_env b) (b_items b ++ [(n, t)])) rest
                  else None
      end
    end
  end.

(** A package path [ns:pkg/name(@version)]: into the document's own package it names the top-level item
    [name]; into another package it is looked up in the given descriptions of external packages. An item
    nested inside an interface or world is never an interface or world type, so longer local paths denote
    nothing that [use], [import]/[export] by path or [include] could refer to. *)
Record penv_t := mkpenv { pe_own : str; pe_ext : env }.
Definition den_path (genv : env) (penv : penv_t) (pp : Ast.package_path) : option sem :=
  if str_eqb (Ast.pp_name pp) (pe_own penv) then
    if existsb (fun c => c =? 47) (Ast.pp_segments pp) then None else assoc (Ast.pp_segments pp) genv
  else assoc (Ast.pp_string pp) (pe_ext penv).

Definition den_use (genv : env) (penv : penv_t) (b : body) (u : Ast.use_decl) : option body :=
  match match Ast.u_path u with
        | Ast.UPPackage pp => den_path genv penv pp
        | Ast.UPIdent i => assoc (nm i) genv
        end with
  | Some (SIface _ src) => den_use_items src b (Ast.u_items u)
  | _ => None
  end.

Fixpoint den_iface_items (genv : env) (penv : penv_t) (b : body) (items : list Ast.interface_item) : option body :=
  match items with
  | [] => Some b
  | it :: rest =>
    match match it with
          | Ast.IIUse u => den_use genv penv b u
          | Ast.IIType d => den_decl b d
          | Ast.IIExport _ i r =>
            match den_func_ref (b_env b) r with
            | Some f => if bound (nm i) (b_items b) then None
                        else Some (mkbody (b_env b) (b_items b ++ [(nm i, XFunc f)]))
            | None => None
            end
          end with
    | Some b1 => den_iface_items genv penv b1 rest
    | None => None
    end
  end.

Definition den_iface (genv : env) (penv : penv_t) (items : list Ast.interface_item) : option (list (str * tree)) :=
  option_map b_items (den_iface_items genv penv (mkbody [] []) items).

(** * Worlds *)
Record wbody := mkwbody { wb_imp : body; wb_exp : list (str * tree) }.

Definition wside (imp : bool) (w : wbody) : list (str * tree) := if imp then b_items (wb_imp w) else wb_exp w.
Definition wput (imp : bool) (w : wbody) (n : str) (t : tree) : wbody :=
  if imp then mkwbody (mkbody (b_env (wb_imp w)) (b_items (wb_imp w) ++ [(n, t)])) (wb_exp w)
  else mkwbody (wb_imp w) (wb_exp w ++ [(n, t)]).

Definition den_path_iface (imp : bool) (w : wbody) (s : option sem) : option wbody :=
  match s with
  | Some (SIface (Some idn) e) => if bound idn (wside imp w) then None else Some (wput imp w idn (XInst e))
  | _ => None
  end.

Definition den_world_path (genv : env) (penv : penv_t) (imp : bool) (w : wbody) (p : Ast.world_item_path) : option wbody :=
  match p with
  | Ast.WPNamed i et =>
    if bound (nm i) (wside imp w) then None else
    match match et with
          | Ast.ETIdent j =>
            match match assoc (nm j) (b_env (wb_imp w)) with Some s => Some s | None => assoc (nm j) genv end with
            | Some (SIface _ e) => Some (XInst e)
            | Some (SFunc f) => Some (XFunc f)
            | _ => None
            end
          | Ast.ETFunc f => option_map XFunc (den_func (b_env (wb_imp w)) MFree [] (Ast.ft_params f) (Ast.ft_results f))
          | Ast.ETInterface items => option_map XInst (den_iface genv penv items)
          end with
    | Some t => Some (wput imp w (nm i) t)
    | None => None
    end
  | Ast.WPIdent i => den_path_iface imp w (assoc (nm i) genv)
  | Ast.WPPackage pp => den_path_iface imp w (den_path genv penv pp)
  end.

Fixpoint den_world_items (genv : env) (penv : penv_t) (w : wbody) (items : list Ast.world_item) : option wbody :=
  match items with
  | [] => Some w
  | it :: rest =>
    match match it with
          | Ast.WIUse u => option_map (fun b => mkwbody b (wb_exp w)) (den_use genv penv (wb_imp w) u)
          | Ast.WIType d => option_map (fun b => mkwbody b (wb_exp w)) (den_decl (wb_imp w) d)
          | Ast.WIImport _ p => den_world_path genv penv true w p
          | Ast.WIExport _ p => den_world_path genv penv false w p
          | Ast.WIInclude _ _ _ => Some w
          end with
    | Some w1 => den_world_items genv penv w1 rest
    | None => None
    end
  end.

(** [include]: a plain name has no colon; an interface id always has one *)
Definition is_id (n : str) : bool := existsb (fun c => c =? 58) n.
Definition renamed (ren : list (str * str)) (n : str) : str :=
  if is_id n then n else match assoc n ren with Some m => m | None => n end.

Fixpoint den_include_side (ren : list (str * str)) (target : list (str * tree)) (src : list (str * tree))
  : option (list (str * tree)) :=
  match src with
  | [] => Some target
  | (n, t) :: rest =>
    let n1 := renamed ren n in
    if bound n1 target then (if is_id n then den_include_side ren target rest else None)
    else den_include_side ren (target ++ [(n1, t)]) rest
  end.

Definition den_include (genv : env) (penv : penv_t) (w : wbody) (r : Ast.world_ref) (items : list Ast.include_item)
  : option wbody :=
  let ren := map (fun it => (nm (Ast.ii_from it), nm (Ast.ii_to it))) items in
  if negb (distinct (map fst ren)) then None else
  match match r with
        | Ast.WRIdent i => assoc (nm i) genv
        | Ast.WRPackage pp => den_path genv penv pp
        end with
  | Some (SWorld wi we) =>
    (* every renamed name is a plain name of the included world *)
    if negb (forallb (fun kv => negb (is_id (fst kv)) && (bound (fst kv) wi || bound (fst kv) we)) ren) then None else
    match den_include_side ren (b_items (wb_imp w)) wi, den_include_side ren (wb_exp w) we with
    | Some i1, Some e1 => Some (mkwbody (mkbody (b_env (wb_imp w)) i1) e1)
    | _, _ => None
    end
  | _ => None
  end.

Fixpoint den_world_includes (genv : env) (penv : penv_t) (w : wbody) (items : list Ast.world_item) : option wbody :=
  match items with
  | [] => Some w
  | Ast.WIInclude _ r its :: rest =>
    match den_include genv penv w r its with
    | Some w1 => den_world_includes genv penv w1 rest
    | None => None
    end
  | _ :: rest => den_world_includes genv penv w rest
  end.

Definition den_world (genv : env) (penv : penv_t) (items : list Ast.world_item) : option (list (str * tree) * list (str * tree)) :=
  match den_world_items genv penv (mkwbody (mkbody [] []) []) items with
  | Some w1 =>
    match den_world_includes genv penv w1 items with
    | Some w2 => Some (b_items (wb_imp w2), wb_exp w2)
    | None => None
    end
  | None => None
  end.

(** * Documents made of type statements *)
Definition show_ver (v : Semver.version) : str :=
  show_N (Semver.major v) ++ 46 :: show_N (Semver.minor v) ++ 46 :: show_N (Semver.patch v)
  ++ (match Semver.pre v with [] => [] | p => 45 :: p end)
  ++ (match Semver.build v with [] => [] | b => 43 :: b end).
(** [ns:pkg/name@version] *)
Definition wit_id (pn : Ast.package_name) (n : str) : str :=
  Ast.pn_name pn ++ 47 :: n ++ match Ast.pn_version pn with Some v => 64 :: show_ver v | None => [] end.

Definition den_statement (pn : Ast.package_name) (penv : penv_t) (genv : env) (x : Ast.type_statement) : option (str * sem) :=
  match x with
  | Ast.TSInterface _ i items =>
    option_map (fun e => (nm i, SIface (Some (wit_id pn (nm i))) e)) (den_iface genv penv items)
  | Ast.TSWorld _ i items =>
    option_map (fun ie => (nm i, SWorld (fst ie) (snd ie))) (den_world genv penv items)
  | Ast.TSType d =>
    match d with
    | Ast.DResource _ _ _ => None
    | _ => option_map (fun s => (dname d, s)) (den_plain genv d)
    end
  end.

(** the denotation of a document: its definitions in order, each with the tree of its type *)
Fixpoint den_statements (pn : Ast.package_name) (penv : penv_t) (genv : env) (acc : list (str * tree)) (l : list Ast.statement)
  : option (list (str * tree)) :=
  match l with
  | [] => Some acc
  | Ast.SType x :: rest =>
    match den_statement pn penv genv x with
    | Some (n, s) => if bound n genv then None
                     else den_statements pn penv ((n, s) :: genv) (acc ++ [(n, sem_tree s)]) rest
    | None => None
    end
  | _ :: _ => None
  end.

Definition den_document (ext : env) (d : Ast.document) : option (list (str * tree)) :=
  let pn := Ast.pd_package (Ast.doc_directive d) in
  match Ast.pd_targets (Ast.doc_directive d) with
  | Some _ => None
  | None => den_statements pn (mkpenv (Ast.pn_name pn) ext) [] [] (Ast.doc_statements d)
  end.
