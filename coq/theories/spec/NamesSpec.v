(** Declarative reading of property C15, written from the property text (not from names.rs). *)
From WacV Require Import Str Ord Semver.

Inductive track := TMajor (m : N) | TMinor (m : N).

Definition track_eqb (a b : track) : bool :=
  match a, b with
  | TMajor x, TMajor y => x =? y
  | TMinor x, TMinor y => x =? y
  | _, _ => false
  end.

(** The compatibility track of a release version: same major when major > 0; same 0.minor when
    minor > 0; none for 0.0.x and for pre-releases; build metadata plays no role. *)
Definition track_of (v : version) : option track :=
  if negb (is_nil (pre v)) then None
  else if 0 <? major v then Some (TMajor (major v))
  else if 0 <? minor v then Some (TMinor (minor v))
  else None.

(** A name is [base@version]; the base is what precedes the first [@]. *)
Definition name_track (name : str) : option (str * track * version) :=
  match split_first c_at name with
  | None => None
  | Some (base, vs) =>
      match parse_version vs with
      | None => None
      | Some v => match track_of v with Some t => Some (base, t, v) | None => None end
      end
  end.

Definition same_track (a b : str) : bool :=
  match name_track a, name_track b with
  | Some (ba, ta, _), Some (bb, tb, _) => str_eqb ba bb && track_eqb ta tb
  | _, _ => false
  end.

Definition compat_spec_b (a b : str) : bool := str_eqb a b || same_track a b.

Definition Compat_spec (a b : str) : Prop :=
  a = b \/
  exists base ra rb va vb t,
    a = base ++ [c_at] ++ ra /\ b = base ++ [c_at] ++ rb /\ ~ In c_at base /\
    parse_version ra = Some va /\ parse_version rb = Some vb /\
    track_of va = Some t /\ track_of vb = Some t.

(** Map specification: exact entry if one exists, else the entry with the highest version among the
    inserted names on the query's track, else nothing.  [entries] are the accepted insertions. *)
Definition version_of (name : str) : option version :=
  match name_track name with Some (_, _, v) => Some v | None => None end.

Fixpoint best_on_track {V} (q : str) (entries : list (str * V)) (best : option (version * V))
  : option (version * V) :=
  match entries with
  | [] => best
  | (n, x) :: r =>
      if same_track n q then
        match version_of n, best with
        | Some v, Some (bv, _) =>
            best_on_track q r (if version_ltb v bv then best else Some (v, x))
        | Some v, None => best_on_track q r (Some (v, x))
        | None, _ => best_on_track q r best
        end
      else best_on_track q r best
  end.

Fixpoint find_exact {V} (q : str) (entries : list (str * V)) : option V :=
  match entries with
  | [] => None
  | (n, x) :: r => if str_eqb n q then Some x else find_exact q r
  end.

(** accepted insertions of a non-shadowing history: the first occurrence of each name, in order. *)
Definition acc_step {V} (es : list (str * V)) (op : str * V) : list (str * V) :=
  if existsb (str_eqb (fst op)) (map fst es) then es else es ++ [op].
Definition accepted {V} (ops : list (str * V)) : list (str * V) := fold_left acc_step ops [].

Definition spec_get {V} (ops : list (str * V)) (q : str) : option V :=
  let es := accepted ops in
  match find_exact q es with
  | Some x => Some x
  | None => match best_on_track q es None with Some (_, x) => Some x | None => None end
  end.
