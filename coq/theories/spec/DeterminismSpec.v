(** Declarative reading of property C16, written from the property text:
    "Parsing, resolving, encoding and printing are pure functions of their inputs ... the order of emitted
    definitions, imports, instantiations and exports is fixed by the composition, not by hash-map iteration."

    A computation that may consult the iteration order of hash-ordered containers is a function of an order
    oracle and of its input; it is REPRODUCIBLE when the oracle does not matter. *)
From Coq Require Import List Permutation String.
From WacV Require Import Graph HashSiteTypes Determinism.
Import ListNotations.

(** for computations over the graph model's oracles *)
Definition reproducible {I O : Type} (f : oracle -> I -> O) : Prop :=
  forall o1 o2, valid_oracle o1 -> valid_oracle o2 -> forall i, f o1 i = f o2 i.

(** for a single iteration over one container: [f] receives the order in which the entries are yielded *)
Definition order_independent {A O : Type} (f : list A -> O) (ok : list A -> Prop) : Prop :=
  forall l1 l2, ok l1 -> Permutation l1 l2 -> f l1 = f l2.

(** the negation, with witnesses *)
Definition order_dependent {A O : Type} (f : list A -> O) : Prop :=
  exists l1 l2, Permutation l1 l2 /\ f l1 <> f l2.

(** the tie to the sources: every order-observing use that exists in the code has been looked at *)
Definition every_site_classified (found : list site) : Prop := incl found modelled_sites.
Definition every_site_classified_b (found : list site) : bool := site_inclb found modelled_sites.

Definition is_relevant (c : class) : bool := match c with OrderRelevant _ _ => true | OrderIrrelevant _ _ => false end.
(** the functions in which the result does depend on hash order (each one is a reported finding) *)
Definition order_relevant_functions : list string :=
  map (fun p => s_fn (fst p)) (filter (fun p => is_relevant (snd p)) modelled).

(** what the correspondence compares, per case: the observations made by the first execution, by the second
    encoding of the same graph, on a clone, by a complete re-execution, and by every fresh process *)
Definition observations_agree {O : Type} (eqb : O -> O -> bool) (obs : list O) : bool :=
  match obs with [] => true | x :: r => forallb (eqb x) r end.
