(** C19 — what the documentation says the `wac` CLI does.  Written from README.md, the `--help`
    texts and the property statement; not from the control flow of the commands.

    The model (model/Cli.v) is imported only for the *types* of observations and oracles
    ([sres], [outcome], [compose_flags], ...), never for the command functions. *)
From Coq Require Import String Ascii.
From WacV Require Import Str Show CliTypes Cli.

Fixpoint s_ (t : string) : str :=
  match t with
  | EmptyString => []
  | String a r => N_of_ascii a :: s_ r
  end.

(** * 1. The documented flag table

    README: `wac plug <socket> --plug <plug>.. -o`, `wac compose [-t] [-o] [--import-dependencies]
    [--deps-dir] [--dep PKG=PATH] <input.wac>`, `wac targets <component> .. --world`, `wac parse`,
    `wac resolve`, and "if built with default features ... resolved from a Warg registry"
    (`--registry`, only with the `registry` feature).  The property statement adds `--no-validate`.
    `wac targets` takes the WIT path through `--wit` (README shows it positionally, see
    [readme_targets_example] below). *)

Definition opt_ (t : string) : option str := match t with EmptyString => None | _ => Some (s_ t) end.
Definition optc_ (t : string) : option N := match t with EmptyString => None | String a _ => Some (N_of_ascii a) end.

(** [row cmd field long short kind default value_name parser required cfg]; "" = absent. *)
Definition row (cmd field long short : string) (kind : fkind) (default vname parser : string)
           (required : bool) (cfg : string) : flag_row :=
  mk_flag (s_ cmd) (s_ field) (opt_ long) (optc_ short) kind (opt_ default) (opt_ vname) (opt_ parser)
          required (opt_ cfg).

Definition deps_rows (cmd : string) : list flag_row := [
  row cmd "deps_dir" "deps-dir" "" KValue "deps" "PATH" "" false "";
  row cmd "deps" "dep" "d" KMulti "" "PKG=PATH" "parse::<String,PathBuf>" false ""
].

Definition documented_flags : list flag_row :=
  deps_rows "compose" ++ [
  row "compose" "no_validate" "no-validate" "" KSwitch "" "" "" false "";
  row "compose" "wat" "wat" "t" KSwitch "" "" "" false "";
  row "compose" "import_dependencies" "import-dependencies" "i" KSwitch "" "" "" false "";
  row "compose" "output" "output" "o" KOption "" "" "" false "";
  row "compose" "registry" "registry" "" KOption "" "URL" "" false "registry";
  row "compose" "path" "" "" KValue "" "PATH" "" false "";
  row "parse" "path" "" "" KValue "" "PATH" "" false "";
  row "plug" "plugs" "plug" "" KMulti "" "PLUG_PATH" "" true "";
  row "plug" "socket" "" "" KValue "" "SOCKET_PATH" "" true "";
  row "plug" "wat" "wat" "t" KSwitch "" "" "" false "";
  row "plug" "output" "output" "o" KOption "" "" "" false "";
  row "plug" "registry" "registry" "" KOption "" "URL" "" false "registry"]
  ++ deps_rows "resolve" ++ [
  row "resolve" "registry" "registry" "" KOption "" "URL" "" false "registry";
  row "resolve" "path" "" "" KValue "" "PATH" "" false "";
  row "targets" "component" "" "" KValue "" "COMPONENT_PATH" "" false "";
  row "targets" "wit" "wit" "" KValue "" "WIT_PATH" "" false "";
  row "targets" "world" "world" "" KOption "" "" "" false ""
].

(** The README line that does not match the flag table: the WIT file as a second positional. *)
Definition readme_targets_example : list str :=
  [s_ "targets"; s_ "my-component.wasm"; s_ "my-wit.wit"].

Definition argv_eqb (a b : list str) : bool :=
  (length a =? length b)%nat && forallb (fun p => str_eqb (fst p) (snd p)) (combine a b).

(** * 2. Flags → encode options

    "By default, wac will create a component that embeds its dependencies ... to cause dependencies
    to be imported in the output component, use the --import-dependencies flag";
    "output is validated unless --no-validate is given". *)
Definition documented_opts (sw : compose_sw) : encode_opts :=
  {| define_components := if sw_import_dependencies sw then false else true;
     validate := if sw_no_validate sw then false else true |}.

(** `wac plug` has neither flag: dependencies are always embedded, the output always validated. *)
Definition documented_plug_opts : encode_opts := {| define_components := true; validate := true |}.

(** * 3. Where the result goes

    "-o: The path to write the output to. If not specified, the output will be written to stdout";
    "-t: emit the WebAssembly text format"; binary output is refused on a terminal. *)
Definition refuses_terminal (wat has_output tty : bool) : bool :=
  if wat then false else if has_output then false else tty.

Section SinkSpec.
  Variable print_text : str -> sres str.
  Variable write_ok : str -> bool.

  (** [rendered wat b out]: [out] is what is emitted for component bytes [b]. *)
  Definition rendered (wat : bool) (b out : str) : Prop :=
    if wat then print_text b = SOk out else out = b.

  (** The sink accepts the result: text conversion worked, the file could be written, and a
      binary is not sent to a terminal. *)
  Definition sink_ok (wat : bool) (output : option str) (tty : bool) (b : str) : Prop :=
    (exists out, rendered wat b out) /\
    (forall p, output = Some p -> write_ok p = true) /\
    refuses_terminal wat (is_some output) tty = false.
End SinkSpec.

(** What a successful run leaves behind: with [-o] exactly the payload in the file and nothing on
    stdout; otherwise the payload on stdout, followed by [nl] (a newline after text, nothing after
    a binary). *)
Definition delivered (output : option str) (payload nl : str) : outcome :=
  match output with
  | Some p => mk_out Success [] [(p, payload)] (Some p)
  | None => mk_out Success (payload ++ nl) [] None
  end.

Definition newline_after (wat : bool) : str := if wat then [10] else [].

(** * 4. The library pipeline behind `wac compose` (relational)

    read the source, parse it, find the referenced packages, locate them in `--deps-dir` /
    `--dep` (a registry client is created when `--registry` is given, or when something is still
    missing), resolve, encode with the documented options. *)
Section ComposeSpec.
  Variables Doc Keys Pkgs Res Client : Type.
  Variable read_file : str -> sres str.
  Variable parse_doc : str -> sres Doc.
  Variable registry_new : option str -> sres Client.
  Variable discover : Doc -> sres Keys.
  Variable fs_resolve : str -> (str -> option str) -> Keys -> sres Pkgs.
  Variable keys_missing : Keys -> Pkgs -> Keys.
  Variable keys_is_empty : Keys -> bool.
  Variable registry_resolve : Client -> Keys -> sres Pkgs.
  Variable pkgs_extend : Pkgs -> Pkgs -> Pkgs.
  Variable resolve_doc : Doc -> Pkgs -> sres Res.
  Variable encode : Res -> encode_opts -> sres str.

  (** `--dep foo:bar=./baz.wasm`: the package named before the first `=` is at the path after it
      (blanks around either are ignored); a later `--dep` for the same package replaces an earlier. *)
  Inductive dep_means : str -> str * str -> Prop :=
  | DepMeans : forall k v, ~ In 61 k -> dep_means (k ++ 61 :: v) (trim k, trim v).   (* 61 is `=` *)

  Definition deps_mean (raw : list str) (deps : list (str * str)) : Prop := Forall2 dep_means raw deps.

  Definition override_of (deps : list (str * str)) (name : str) : option str :=
    option_map snd (find (fun kv => str_eqb (fst kv) name) (rev deps)).

  (** all packages the document needs, from the file system first, the rest from the registry *)
  Inductive packages_found (early : option Client) (dir : str) (ov : str -> option str) (d : Doc) : Pkgs -> Prop :=
  | AllLocal : forall keys pk,
      discover d = SOk keys -> fs_resolve dir ov keys = SOk pk ->
      keys_is_empty (keys_missing keys pk) = true ->
      packages_found early dir ov d pk
  | SomeFromRegistry : forall keys pk c rp,
      discover d = SOk keys -> fs_resolve dir ov keys = SOk pk ->
      keys_is_empty (keys_missing keys pk) = false ->
      (early = Some c \/ (early = None /\ registry_new None = SOk c)) ->
      registry_resolve c (keys_missing keys pk) = SOk rp ->
      keys_is_empty (keys_missing (keys_missing keys pk) rp) = true ->
      packages_found early dir ov d (pkgs_extend pk rp).

  Inductive pipeline_ok (f : compose_flags) (b : str) : Prop :=
  | PipelineOk : forall deps src d early pk r,
      deps_mean (cf_deps f) deps ->
      read_file (cf_path f) = SOk src ->
      parse_doc src = SOk d ->
      match cf_registry f with
      | Some u => exists c, registry_new (Some u) = SOk c /\ early = Some c
      | None => early = None
      end ->
      packages_found early (cf_deps_dir f) (override_of deps) d pk ->
      resolve_doc d pk = SOk r ->
      encode r (documented_opts (cf_sw f)) = SOk b ->
      pipeline_ok f b.
End ComposeSpec.

(** * 5. `wac plug`: names and order

    "plug:<file stem>" for a local path; when several plugs share a stem, the index of the plug
    within that group is appended; plugs are registered group by group, groups in the order of
    their first appearance on the command line. *)
Fixpoint first_occurrences (seen ks : list str) : list str :=
  match ks with
  | [] => []
  | k :: r => if mem_str k seen then first_occurrences seen r else k :: first_occurrences (k :: seen) r
  end.

Definition members {A} (k : str) (l : list (str * A)) : list A :=
  map snd (filter (fun kv => str_eqb (fst kv) k) l).

Definition documented_plug_prefix : str := s_ "plug:".
Definition documented_socket_name : str := s_ "socket".

Definition documented_name (k : str) (group_size : nat) (i : N) (r : pkg_ref) : str :=
  let base := match r with LocalPath _ => documented_plug_prefix ++ k | RegistryPkg n _ => n end in
  match group_size with
  | S (S _) => base ++ show_N i       (* decimal index within the group, from 0 *)
  | _ => base
  end.

Definition documented_group (ks : list (str * pkg_ref)) (k : str) : list (str * pkg_ref) :=
  let ms := members k ks in
  map (fun ir => (documented_name k (length ms) (fst ir) (snd ir), snd ir)) (number_from 0 ms).

Definition documented_registrations (ks : list (str * pkg_ref)) : list (str * pkg_ref) :=
  flat_map (documented_group ks) (first_occurrences [] (map fst ks)).

(** The library pipeline behind `wac plug`: load the socket as package "socket", load every plug
    under its documented name in the documented order, [wac_graph::plug], encode with the default
    options. *)
Section PlugSpec.
  Variables G Id : Type.
  Variable is_pkg_name : str -> bool.
  Variable download : option str -> str -> option str -> sres str.
  Variable read_bin : str -> sres str.
  Variable g_new : G.
  Variable add_bytes : G -> str -> str -> sres (G * Id).
  Variable add_file : G -> str -> str -> sres (G * Id).
  Variable do_plug : G -> list Id -> Id -> sres G.
  Variable encode_g : G -> encode_opts -> sres str.

  Definition located (reg : option str) (r : pkg_ref) (path : str) : Prop :=
    match r with
    | LocalPath p => path = p
    | RegistryPkg n v => download reg n v = SOk path
    end.

  Inductive registered (reg : option str) : G -> list (str * pkg_ref) -> G -> list Id -> Prop :=
  | RegNil : forall g, registered reg g [] g []
  | RegCons : forall g name r rest path g1 id g2 ids,
      located reg r path -> add_file g name path = SOk (g1, id) ->
      registered reg g1 rest g2 ids ->
      registered reg g ((name, r) :: rest) g2 (id :: ids).

  Inductive plug_pipeline_ok (f : plug_flags) (b : str) : Prop :=
  | PlugOk : forall plugs socket spath sbytes g0 sid ks g ids g',
      parse_pkg_refs is_pkg_name (pf_plugs f) = Some plugs -> plugs <> [] ->
      parse_pkg_ref is_pkg_name (pf_socket f) = Some socket ->
      located (pf_registry f) socket spath ->
      read_bin spath = SOk sbytes ->
      add_bytes g_new documented_socket_name sbytes = SOk (g0, sid) ->
      keyed plugs = Some ks ->
      registered (pf_registry f) g0 (documented_registrations ks) g ids ->
      do_plug g ids sid = SOk g' ->
      encode_g g' documented_plug_opts = SOk b ->
      plug_pipeline_ok f b.
End PlugSpec.

(** * 6. `wac targets`: which world

    "--world: The name of the world to target.  If the wit package only has one world definition,
    this does not need to be specified."  Interfaces of the package are not worlds. *)
Definition worlds_of {W} (exports : list (str * wit_export W)) : list (str * wit_export W) :=
  filter (fun e => is_world_export (snd e)) exports.

Definition documented_world {W} (exports : list (str * wit_export W)) (world : option str) : option W :=
  match world with
  | Some n => match assoc_str n (worlds_of exports) with Some (EWorld w) => Some w | _ => None end
  | None => match worlds_of exports with [(_, EWorld w)] => Some w | _ => None end
  end.
