(** LANGUAGE.md restated: what a WAC document composes.

    Written from the language reference (sections "Import Statements", "Implicit Imports", "Let
    Statements", "New Expressions", "Inferred/Named/Spread Arguments", "Access Expressions", "Named
    Access Expressions", "Export Statements"), not from the resolver.  Nothing here mentions the
    composition graph: a document denotes a COMPOSITION made of VALUES,

      - [VImport n]    the item explicitly imported under extern name [n],
      - [VInst k]      the k-th instantiation (numbered as they are completed: an argument's
                       instantiation before the one it is passed to),
      - [VAccess v e]  the export [e] of the instance value [v],

    a list of instantiations with, for every import of the instantiated package, the value bound to it
    or the mark "implicit import", the explicit imports and the exports with their extern names.

    The reference says that WAC "is evaluated in a top-down fashion"; the reference evaluation below
    goes statement by statement, operands before operators, arguments left to right, "spread arguments
    apply after inferred and named arguments and are applied in-order", and a document is ill-formed
    with the class of the FIRST rule violated in that order.

    The binding rules themselves are stated per import of the instantiated package ([bind_import]):
    bound by the explicit (named or inferred) argument of that name, else by the first spread instance
    (in spread order) that exports the name, else implicitly imported when [...] is present, else
    missing.  [ResolverProofs] shows that the two-pass table construction of the resolver computes
    exactly this.

    Where the implementation is known to read the reference differently, the difference is a FLAG of
    [deviations]; [doc_flags] is the reference as written.

    Typing (is this value acceptable for that import) is the [u_sub] oracle; type declarations are out
    of scope (C05): [IOutOfScope]. *)
From Coq Require Import List Arith Bool NArith.
From WacV Require Import Str Token Lexer Semver Names Ast Graph Resolver.
Import ListNotations.

Record deviations := {
  (** "If the component being instantiated has exactly one import that has a path which ends with the
      local name, then the path will be used" (also for named arguments and for access expressions):
      the implementation does not apply the rule when an import/export is named exactly like the
      identifier. *)
  exact_name_first : bool;
  (** "Spread exports will only create new exports that do not conflict with previously exported
      items" / "It is an evaluation error if the instance being spread has no exports": the
      implementation also rejects a spread export all of whose names are already exported. *)
  export_spread_conflicts_error : bool }.

Definition doc_flags : deviations := {| exact_name_first := false; export_spread_conflicts_error := false |}.
Definition impl_flags_c04 : deviations := {| exact_name_first := true; export_spread_conflicts_error := true |}.

(** * the binding rules of a [new] expression, for any kind of value

    For each import [i] of the instantiated package: bound by the explicit (named or inferred)
    argument of that name; else by the first spread instance, in spread order, that exports [i];
    else implicitly imported when [...] is present; else missing. *)
Fixpoint mem (x : str) (l : list str) : bool :=
  match l with [] => false | y :: r => str_eqb y x || mem x r end.

Section Binding.
  Context {V : Type}.
  Record spread_src := { sp_val : V; sp_exports : list str }.
  Inductive binding := BExplicit (v : V) | BSpread (sp : spread_src) | BImplicit | BMissing.

  Definition first_spread (spreads : list spread_src) (i : str) : option spread_src :=
    find (fun sp => mem i (sp_exports sp)) spreads.

  Definition bind_import (explicit : list (str * V)) (spreads : list spread_src) (fill : bool) (i : str)
    : binding :=
    match im_get explicit i with
    | Some v => BExplicit v
    | None =>
        match first_spread spreads i with
        | Some sp => BSpread sp
        | None => if fill then BImplicit else BMissing
        end
    end.

  (** a spread is effective when it binds at least one import: one that no explicit argument and no
      earlier spread provides *)
  Definition spread_binds (imports : list str) (explicit : list (str * V))
             (before : list spread_src) (sp : spread_src) : list str :=
    filter (fun i => negb (has_key explicit i) && mem i (sp_exports sp)
                     && negb (existsb (fun q => mem i (sp_exports q)) before)) imports.

  Definition spread_effective (imports : list str) (explicit : list (str * V))
             (before : list spread_src) (sp : spread_src) : bool :=
    match spread_binds imports explicit before sp with [] => false | _ :: _ => true end.

  (** the imports each spread binds, spread by spread, in spread order *)
  Fixpoint spread_bound (imports : list str) (explicit : list (str * V))
           (before rest : list spread_src) : list (str * spread_src) :=
    match rest with
    | [] => []
    | sp :: r =>
        map (fun i => (i, sp)) (spread_binds imports explicit before sp)
        ++ spread_bound imports explicit (before ++ [sp]) r
    end.
End Binding.
Arguments spread_src : clear implicits.
Arguments binding : clear implicits.

(** * values and compositions *)
Inductive sval := VImport (nm : str) | VInst (k : nat) | VAccess (v : sval) (e : str).

(** the value a binding passes for import [i] *)
Definition binding_value (i : str) (b : binding sval) : option sval :=
  match b with
  | BExplicit v => Some v
  | BSpread sp => Some (VAccess (sp_val sp) i)
  | BImplicit | BMissing => None
  end.

Record sinst := { si_pkg : nat; si_bindings : list (str * binding sval) }.

Record senv := {
  se_names : list (str * sval);
  se_imports : list (str * kid);
  se_insts : list sinst;
  se_exports : list (str * sval) }.

Definition empty_env : senv := {| se_names := []; se_imports := []; se_insts := []; se_exports := [] |}.

(** ill-formedness classes: the nine of the property first *)
Inductive illformed :=
  | IUndefinedName (nm : str)
  | IDuplicateName (nm : str)
  | IMissingArgument (nm : str)
  | IDuplicateArgument (nm : str)
  | INonInstanceAccess
  | INonInstanceSpread
  | IFillNotLast
  | IIneffectiveSpread
  | IConflictingExport (nm : str)
  (* the remaining ways a document in scope can be wrong *)
  | IUnknownPackage (nm : str)
  | IUnknownPath (seg : str)
  | IUnknownArgument (nm : str)
  | IArgumentMismatch (nm : str)
  | IUnknownExport (nm : str)
  | IConflictingImport (nm : str)
  | IInvalidName (nm : str)
  | IExportNeedsName
  | IOutOfScope.

(** * names *)
Definition until_at (s : str) : str :=
  (fix go (s : str) := match s with [] => [] | c :: r => if c =? c_at then [] else c :: go r end) s.

(** the last segment of a path, without a version: [foo:bar/baz@1.0.0] -> [baz]; a name without
    ['/'] is not a path *)
Definition path_segment (cand : str) : option str :=
  match rev (split_on c_slash cand) with
  | lastseg :: _ :: _ => Some (until_at lastseg)
  | _ => None
  end.

Definition ends_with_name (nm cand : str) : bool :=
  match path_segment cand with Some s => str_eqb s nm | None => false end.

(** "has exactly one import (export) that has a path which ends with the name" *)
Definition unique_path_ending (nm : str) (names : list str) : option str :=
  match filter (ends_with_name nm) names with [p] => Some p | _ => None end.

Section Spec.
  Variable dv : deviations.
  Variable u : runiverse.
  Variable self_name : str.

  (** the rule shared by named arguments, access expressions and the third rule of inferred
      arguments: the unique path ending with the identifier, otherwise the identifier *)
  Definition path_or_self (nm : str) (names : list str) : str :=
    if exact_name_first dv && mem nm names then nm else
    match unique_path_ending nm names with Some p => p | None => nm end.

  (** "The name of the instantiation argument is inferred according to these rules (in order of
      precedence)": [path] = the package path associated with the instance the local name is bound
      to, [source] = the import name / the accessed export name the local name is bound to *)
  Definition infer_arg_name (imports : list str) (local : str) (path source : option str) : str :=
    match (match path with Some p => if mem p imports then Some p else None | None => None end) with
    | Some p => p
    | None =>
        match (match source with Some s => if mem s imports then Some s else None | None => None end) with
        | Some s => s
        | None => path_or_self local imports
        end
    end.

  (** * kinds of values *)
  Definition pkg_world (p : nat) : option (kid * list (str * kid)) :=
    match nth_error (u_pkgs u) p with
    | Some pd => Some (pd_inst pd, text_items u (pd_imports pd))
    | None => None
    end.

  Fixpoint val_kind (env : senv) (v : sval) : option kid :=
    match v with
    | VImport nm => im_get (se_imports env) nm
    | VInst k => match nth_error (se_insts env) k with
                 | Some i => match pkg_world (si_pkg i) with Some (k, _) => Some k | None => None end
                 | None => None
                 end
    | VAccess w e =>
        match val_kind env w with
        | Some k => match inst_exports u k with Some ex => im_get ex e | None => None end
        | None => None
        end
    end.

  Definition val_exports (env : senv) (v : sval) : option (list (str * kid)) :=
    match val_kind env v with Some k => inst_exports u k | None => None end.

  Definition val_path (env : senv) (v : sval) : option str :=
    match val_kind env v with Some k => instance_id u k | None => None end.

  Definition val_source (v : sval) : option str :=
    match v with VImport n => Some n | VAccess _ e => Some e | VInst _ => None end.

  (** * reference evaluation *)
  Definition SM (A : Type) := senv -> (A * senv) + illformed.
  Definition sret {A} (x : A) : SM A := fun e => inl (x, e).
  Definition sbind {A B} (m : SM A) (f : A -> SM B) : SM B :=
    fun e => match m e with inl (x, e') => f x e' | inr i => inr i end.
  Definition ill {A} (i : illformed) : SM A := fun _ => inr i.
  Definition env_ : SM senv := fun e => inl (e, e).

  Notation "x <~ m ;; f" := (sbind m (fun x => f)) (at level 61, m at next level, right associativity).

  Definition lookup (id : ident) : SM sval :=
    e <~ env_ ;;
    match im_get (se_names e) (id_string id) with
    | Some v => sret v
    | None => ill (IUndefinedName (id_string id))
    end.

  Definition bind_name (id : ident) (v : sval) : SM unit :=
    fun e => match im_get (se_names e) (id_string id) with
             | Some _ => inr (IDuplicateName (id_string id))
             | None => inl (tt, {| se_names := se_names e ++ [(id_string id, v)]; se_imports := se_imports e;
                                   se_insts := se_insts e; se_exports := se_exports e |})
             end.

  (** access: [exact = false] is [.id] (the path rule applies), [true] is [["name"]] *)
  Definition access (v : sval) (nm : str) (exact : bool) : SM sval :=
    e <~ env_ ;;
    match val_exports e v with
    | None => ill INonInstanceAccess
    | Some ex =>
        let n := if exact then nm else path_or_self nm (map fst ex) in
        if has_key ex n then sret (VAccess v n) else ill (IUnknownExport n)
    end.

  Fixpoint access_chain (v : sval) (l : list postfix_expr) : SM sval :=
    match l with
    | [] => sret v
    | PAccess _ id :: r => w <~ access v (id_string id) false ;; access_chain w r
    | PNamedAccess _ s :: r => w <~ access v (s_value s) true ;; access_chain w r
    end.

  Definition arg_name_of (imports : list str) (a : arg_name) : str :=
    match a with
    | ANIdent i => path_or_self (id_string i) imports
    | ANString s => s_value s
    end.

  Definition add_explicit (ex : list (str * sval)) (nm : str) (v : sval) : SM (list (str * sval)) :=
    if has_key ex nm then ill (IDuplicateArgument nm) else sret (ex ++ [(nm, v)]).

  (** explicit arguments, left to right; the result also says whether [...] closes the list *)
  Definition explicit_args (evalf : expr -> SM sval) (imports : list str)
    : list inst_arg -> list (str * sval) -> SM (list (str * sval) * bool) :=
    fix go (args : list inst_arg) (ex : list (str * sval)) : SM (list (str * sval) * bool) :=
    match args with
    | [] => sret (ex, false)
    | AInferred id :: r =>
        v <~ lookup id ;;
        e <~ env_ ;;
        ex' <~ add_explicit ex (infer_arg_name imports (id_string id) (val_path e v) (val_source v)) v ;;
        go r ex'
    | ASpread _ :: r => go r ex
    | ANamed an x :: r =>
        v <~ evalf x ;;
        ex' <~ add_explicit ex (arg_name_of imports an) v ;;
        go r ex'
    | AFill _ :: r =>
        match r with [] => sret (ex, true) | _ :: _ => ill IFillNotLast end
    end.

  Fixpoint spread_args (imports : list str) (explicit : list (str * sval)) (args : list inst_arg)
           (acc : list (spread_src sval)) : SM (list (spread_src sval)) :=
    match args with
    | [] => sret acc
    | ASpread id :: r =>
        v <~ lookup id ;;
        e <~ env_ ;;
        match val_exports e v with
        | None => ill INonInstanceSpread
        | Some ex =>
            let sp := {| sp_val := v; sp_exports := map fst ex |} in
            if spread_effective imports explicit acc sp then spread_args imports explicit r (acc ++ [sp])
            else ill IIneffectiveSpread
        end
    | _ :: r => spread_args imports explicit r acc
    end.

  (** every provided argument must name an import and conform to it *)
  Fixpoint check_args (imports : list (str * kid)) (l : list (str * sval)) : SM unit :=
    match l with
    | [] => sret tt
    | (nm, v) :: r =>
        match im_get imports nm with
        | None => ill (IUnknownArgument nm)
        | Some expected =>
            e <~ env_ ;;
            match val_kind e v with
            | Some k => if u_sub u k expected then check_args imports r else ill (IArgumentMismatch nm)
            | None => ill (IArgumentMismatch nm)
            end
        end
    end.

  Definition find_pkg (nm : str) (v : option version) : SM nat :=
    match ru_pkg_find u nm v with Some p => sret p | None => ill (IUnknownPackage nm) end.

  Definition new_value (evalf : expr -> SM sval) (pkg : package_name) (args : list inst_arg) : SM sval :=
    if str_eqb (pn_name pkg) self_name then ill (IUnknownPackage (pn_name pkg)) else
    p <~ find_pkg (pn_name pkg) (pn_version pkg) ;;
    match pkg_world p with
    | None => ill IOutOfScope
    | Some (_, imports) =>
        let names := map fst imports in
        r <~ explicit_args evalf names args [] ;;
        let '(explicit, fill) := r in
        spreads <~ spread_args names explicit args [] ;;
        (* arguments are checked as they are bound: explicit ones, then spread by spread *)
        let from_spreads :=
          map (fun b => (fst b, VAccess (sp_val (snd b)) (fst b))) (spread_bound names explicit [] spreads) in
        _ <~ check_args imports (explicit ++ from_spreads) ;;
        let bs := map (fun i => (i, bind_import explicit spreads fill i)) names in
        match find (fun b => match snd b with BMissing => true | _ => false end) bs with
        | Some (i, _) => ill (IMissingArgument i)
        | None =>
            fun e => inl (VInst (length (se_insts e)),
                          {| se_names := se_names e; se_imports := se_imports e;
                             se_insts := se_insts e ++ [{| si_pkg := p; si_bindings := bs |}];
                             se_exports := se_exports e |})
        end
    end.

  Fixpoint value_of (x : expr) : SM sval :=
    match x with
    | Expr _ p post => v <~ primary_value p ;; access_chain v post
    end
  with primary_value (p : primary_expr) : SM sval :=
    match p with
    | PNew _ pkg args => new_value (fun y => value_of y) pkg args
    | PNested _ inner => value_of inner
    | PIdent i => lookup i
    end.

  (** ** import statements *)
  Fixpoint project_kind (k : kid) (segs : list str) : SM kid :=
    match segs with
    | [] => sret k
    | s :: r =>
        match ru_proj_exports u k with
        | None => ill (IUnknownPath s)
        | Some ex => match im_get ex s with Some k' => project_kind k' r | None => ill (IUnknownPath s) end
        end
    end.

  Definition path_kind (p : package_path) : SM kid :=
    match split_on c_slash (pp_segments p) with
    | [] => ill IOutOfScope
    | s :: r =>
        if str_eqb (pp_name p) self_name then
          e <~ env_ ;;
          match im_get (se_names e) s with
          | None => ill (IUndefinedName s)
          | Some v => match val_kind e v with Some k => project_kind k r | None => ill IOutOfScope end
          end
        else
          pi <~ find_pkg (pp_name p) (pp_version p) ;;
          match im_get (ru_pkg_defs u pi) s with
          | None => ill (IUnknownPath s)
          | Some k => project_kind k r
          end
    end.

  Definition add_import (nm : str) (k : kid) : SM sval :=
    fun e =>
      if has_key (se_imports e) nm then inr (IConflictingImport nm)
      else if negb (u_import_name_ok u (ru_intern u nm)) then inr (IInvalidName nm)
      else inl (VImport nm, {| se_names := se_names e; se_imports := se_imports e ++ [(nm, k)];
                               se_insts := se_insts e; se_exports := se_exports e |}).

  (** "Items imported by a package path use the path as the name of the import"; otherwise "the name
      of the import will be the same as the local name"; [as] renames.  (An import whose type is a
      local name takes the package path associated with that item's type, if it has one: the
      reference is silent about this form.) *)
  Definition import_stmt (id : ident) (nm : option extern_name) (t : import_type) : SM unit :=
    name <~ match nm with
            | Some n => sret (extern_name_str n)
            | None =>
                match t with
                | ITPackage p => sret (pp_string p)
                | ITFunc _ | ITInterface _ => sret (id_string id)
                | ITIdent i =>
                    v <~ lookup i ;;
                    e <~ env_ ;;
                    match val_kind e v with
                    | Some k => sret (match ru_kind_id u k with Some s => s | None => id_string id end)
                    | None => ill IOutOfScope
                    end
                end
            end ;;
    k <~ match t with
         | ITPackage p => path_kind p
         | ITFunc f =>
             match func_sig f with
             | Some s => match ru_func_kind u s with Some k => sret k | None => ill IOutOfScope end
             | None => ill IOutOfScope
             end
         | ITInterface _ => ill IOutOfScope
         | ITIdent i =>
             v <~ lookup i ;;
             e <~ env_ ;;
             match val_kind e v with Some k => sret k | None => ill IOutOfScope end
         end ;;
    v <~ add_import name (ru_promote u k) ;;
    bind_name id v.

  (** ** export statements *)
  Definition add_export (nm : str) (v : sval) : SM unit :=
    fun e =>
      if has_key (se_exports e) nm then inr (IConflictingExport nm)
      else if negb (u_export_name_ok u (ru_intern u nm)) then inr (IInvalidName nm)
      else inl (tt, {| se_names := se_names e; se_imports := se_imports e; se_insts := se_insts e;
                       se_exports := se_exports e ++ [(nm, v)] |}).

  (** the name of [export e;]: the package path of the instance, the import name, the accessed export
      name *)
  Definition export_name_of (e : senv) (v : sval) : option str :=
    match val_path e v with
    | Some p => Some p
    | None => val_source v
    end.

  Fixpoint spread_export (v : sval) (names : list str) (any : bool) : SM bool :=
    match names with
    | [] => sret any
    | nm :: r =>
        e <~ env_ ;;
        if has_key (se_exports e) nm then spread_export v r any
        else _ <~ add_export nm (VAccess v nm) ;; spread_export v r true
    end.

  Definition export_stmt (x : expr) (opts : export_options) : SM unit :=
    v <~ value_of x ;;
    e <~ env_ ;;
    match opts with
    | EONone =>
        match export_name_of e v with
        | Some nm => add_export nm v
        | None => ill IExportNeedsName
        end
    | EORename n => add_export (extern_name_str n) v
    | EOSpread _ =>
        match val_exports e v with
        | None => ill INonInstanceSpread
        | Some ex =>
            any <~ spread_export v (map fst ex) false ;;
            if any : bool then sret tt
            else if export_spread_conflicts_error dv then ill IIneffectiveSpread
            else match ex with [] => ill IIneffectiveSpread | _ :: _ => sret tt end
        end
    end.

  (** "The let statement allows for binding a local name ... to the result of an expression": nothing
      else happens *)
  Definition let_stmt (id : ident) (x : expr) : SM unit :=
    v <~ value_of x ;; bind_name id v.

  Definition stmt (s : statement) : SM unit :=
    match s with
    | SImport _ id nm t => import_stmt id nm t
    | SType _ => ill IOutOfScope
    | SLet _ id x => let_stmt id x
    | SExport _ x opts => export_stmt x opts
    end.

  Fixpoint stmts (l : list statement) : SM unit :=
    match l with
    | [] => sret tt
    | s :: r => _ <~ stmt s ;; stmts r
    end.
End Spec.

(** the composition a document denotes, or the class of its ill-formedness *)
Definition denote (dv : deviations) (u : runiverse) (d : document) : senv + illformed :=
  match pd_targets (doc_directive d) with
  | Some _ => inr IOutOfScope
  | None =>
      match stmts dv u (pn_name (pd_package (doc_directive d))) (doc_statements d) empty_env with
      | inl (_, e) => inl e
      | inr i => inr i
      end
  end.
