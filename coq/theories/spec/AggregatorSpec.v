(** Declarative reading of property C09, written from the property text (not from aggregator.rs).

    Vocabulary: a *contribution* is an import name together with the arena-free tree of the required kind
    (Types.unfold).  Names live on semver tracks (NamesSpec: [same_track], [version_of]).

    1. Names.  After any successful sequence of contributions, every contributed name has ONE canonical name:
       the contributed name with the highest version on its track ([spec_canonical]); a name without a track is
       its own canonical name; being canonical is idempotent; names on other tracks do not influence it.
    2. Types.  The merged requirement of a track is the [tmerge] of the contributions on that track:
       instance requirements merge to the union of their exports (first-seen order), same-named exports merged
       recursively; any other two requirements merge only when they are equal requirements ([tequiv]: mutual
       subtypes), and then to themselves.  The merged requirement satisfies every contributor ([Sub merged req]).
    3. Failure.  A sequence fails exactly when two contributions of one track have no merge ([tmerge] = None), or
       the same local type name is `use`d from interfaces on different tracks / under different export names.
    4. Order.  Success, the canonical names and the merged trees (up to the order of exports and of imports) do
       not depend on the order of the contributions. *)
From WacV Require Import Str Ord Semver Names NamesSpec Types SubSpec.

(** * 1. Names *)
Definition version_gt (a b : version) : bool := match cmp_version a b with Gt => true | _ => false end.
(** [higher m b]: both have a track version and [m]'s is strictly higher. *)
Definition higher (m b : str) : bool :=
  match version_of m, version_of b with
  | Some vm, Some vb => version_gt vm vb
  | _, _ => false
  end.
(** The highest name among [names] on the track of [n]; [n] itself when it has no track. *)
Definition spec_canonical (names : list str) (n : str) : str :=
  fold_left (fun best m => if same_track n m && higher m best then m else best) names n.

(** Declarative form. *)
Definition Highest (names : list str) (n c : str) : Prop :=
  (c = n \/ (In c names /\ same_track n c = true)) /\
  forall m, In m names -> same_track n m = true -> higher m c = false.

(** * 2. Trees *)
(** Equal requirements: mutual subtypes (resource names compared). *)
Definition tequiv (a b : tree) : bool := sub_names_b a b && sub_names_b b a.

Fixpoint set_assoc {B} (k : str) (v : B) (l : list (str * B)) : list (str * B) :=
  match l with
  | [] => []
  | (k', v') :: r => if str_eqb k k' then (k', v) :: r else (k', v') :: set_assoc k v r
  end.

(** Union of two export lists: the first list's entries (merged with the same-named entry of the second, if any)
    in their order, then the entries only the second has, in their order. *)
Definition union_with (m : tree -> tree -> option tree) (ea eb : list (str * tree)) : option (list (str * tree)) :=
  fold_left (fun acc kb =>
               match acc with
               | None => None
               | Some l => match assoc (fst kb) l with
                           | Some x => match m x (snd kb) with
                                       | Some y => Some (set_assoc (fst kb) y l)
                                       | None => None
                                       end
                           | None => Some (l ++ [kb])
                           end
               end) eb (Some ea).

(** [None] = the two requirements conflict. *)
Fixpoint tmerge_f (n : nat) (a b : tree) : option tree :=
  match n with
  | O => None
  | S n' =>
    match a, b with
    | XInst ea, XInst eb => option_map XInst (union_with (tmerge_f n') ea eb)
    | XTInst ea, XTInst eb => option_map XTInst (union_with (tmerge_f n') ea eb)
    | _, _ => if tequiv a b then Some a else None
    end
  end.
Definition tmerge (a b : tree) : option tree := tmerge_f (S (Nat.max (tdepth a) (tdepth b))) a b.

(** Declarative form of "merged is the union": *)
Definition first_seen_union (a b : list str) : list str :=
  a ++ filter (fun k => negb (existsb (str_eqb k) a)) b.

(** * 3. A sequence of contributions *)
(** occurrences = (name, required tree) in processing order; [all] = every name that occurs. *)
Fixpoint spec_fold (all : list str) (occs : list (str * tree)) (acc : list (str * tree)) : option (list (str * tree)) :=
  match occs with
  | [] => Some acc
  | (n, t) :: r =>
    let k := spec_canonical all n in
    match assoc k acc with
    | Some m => match tmerge m t with
                | Some m' => spec_fold all r (set_assoc k m' acc)
                | None => None
                end
    | None => spec_fold all r (acc ++ [(k, t)])
    end
  end.
Definition spec_merge (occs : list (str * tree)) : option (list (str * tree)) :=
  spec_fold (map fst occs) occs [].

(** `use`: (local type name, identifier of the interface it comes from, original export name). *)
Definition use_spec := (str * (str * option str))%type.
Definition opt_eqb (a b : option str) : bool :=
  match a, b with Some x, Some y => str_eqb x y | None, None => true | _, _ => false end.
Definition uses_clash (ua ub : list use_spec) : bool :=
  existsb (fun a => existsb (fun b => str_eqb (fst a) (fst b)
                                      && negb (compat_spec_b (fst (snd a)) (fst (snd b)) && opt_eqb (snd (snd a)) (snd (snd b)))) ub) ua.
(** two contributions of one track use one local name from incompatible interface versions *)
Fixpoint uses_conflict (cs : list (str * list use_spec)) : bool :=
  match cs with
  | [] => false
  | (n, u) :: r => existsb (fun c => compat_spec_b n (fst c) && uses_clash u (snd c)) r || uses_conflict r
  end.
