(** Declarative reading of property C18, written from README.md ("Dependencies may be located
    within a deps subdirectory ...", [--deps-dir], [--dep PKG=PATH], the [wat] feature) and from the
    property statement, not from fs.rs.  It shares only the vocabulary (paths, file-system states,
    keys, outcomes) with the model.

    The table, for a reference [ns:name[@version]]:

    | explicit [--dep] for the name, reference unversioned | outcome                                   |
    |------------------------------------------------------|-------------------------------------------|
    | path is an existing file                             | that file, read according to its name     |
    | anything else (absent, not a file)                   | error: the given path does not exist      |

    | otherwise, with B = <deps>/ns/name[/<version>]       | outcome                                   |
    |------------------------------------------------------|-------------------------------------------|
    | B is a directory                                     | the WIT package in that directory         |
    | else, text enabled and B".wat" is a file             | that file assembled                       |
    | else B".wasm" is a file                              | that file's bytes                         |
    | else                                                 | missing: skipped / unknown-package by mode|

    where B".ext" is B with ".ext" written after its final component (so "1.2.3" becomes
    "1.2.3.wasm", never "1.2.wasm").  A file given explicitly is read according to its name:
    "x.wit" is a WIT file (encoded), "x.wat" is text (assembled, when text support is enabled),
    anything else is a binary component returned byte for byte. *)
From WacV Require Import Str FsResolve.

(** name = stem ++ "." ++ ext for a non-empty stem *)
Fixpoint named_with_ext (ext name : str) : bool :=
  match name with
  | [] => false
  | _ :: r => str_eqb r (ch_dot :: ext) || named_with_ext ext r
  end.

(** The components below the dependency directory: one per ':'-separated part of the name, then
    the version. *)
Definition key_components (k : key) : list str :=
  split_on ch_colon (k_name k) ++ match k_version k with Some v => [v] | None => [] end.

(** B *)
Definition base (cfg : config) (k : key) : path := root cfg ++ key_components k.

(** B".ext" *)
Definition suffixed (cfg : config) (k : key) (ext : str) : path :=
  root cfg ++ removelast (key_components k) ++ [last (key_components k) [] ++ [ch_dot] ++ ext].

(** [--dep name=path] counts for unversioned references only. *)
Definition applicable_override (cfg : config) (k : key) : option path :=
  match k_version k with
  | Some _ => None
  | None => option_map snd (find (fun e => str_eqb (fst e) (k_name k)) (overrides cfg))
  end.

Section Spec.
  Variable wat_parse : content -> option content.
  Variable wit_dir_encode : content -> option content.
  Variable wit_file_encode : content -> option content.
  Variable wat : bool.

  Definition assembled (p : path) (c : content) : outcome :=
    match wat_parse c with Some b => Loaded SrcWat p b | None => ErrResolution WatFailed end.
  Definition wit_package (p : path) (c : content) : outcome :=
    match wit_dir_encode c with Some b => Loaded SrcWitDir p b | None => ErrResolution WitDirFailed end.
  Definition wit_document (p : path) (c : content) : outcome :=
    match wit_file_encode c with Some b => Loaded SrcWitFile p b | None => ErrResolution WitFileFailed end.

  Definition read_named_file (p : path) (c : content) : outcome :=
    if named_with_ext s_wit (last p []) then wit_document p c
    else if wat && named_with_ext s_wat (last p []) then assembled p c
    else Loaded SrcRaw p c.

  Definition missing (cfg : config) : outcome :=
    if error_on_unknown cfg then ErrUnknown else Skipped.

  Definition spec (fs : filesystem) (cfg : config) (k : key) : outcome :=
    match applicable_override cfg k with
    | Some p =>
        match fs p with
        | File c => read_named_file p c
        | _ => ErrResolution OverrideMissing
        end
    | None =>
        match fs (base cfg k) with
        | Dir c => wit_package (base cfg k) c
        | _ =>
            match (if wat then fs (suffixed cfg k s_wat) else Absent) with
            | File c => assembled (suffixed cfg k s_wat) c
            | _ =>
                match fs (suffixed cfg k s_wasm) with
                | File c => Loaded SrcRaw (suffixed cfg k s_wasm) c
                | _ => missing cfg
                end
            end
        end
    end.
End Spec.

(** Well-formed reference: the final component (last name part, or the version text) is not
    empty.  Names accepted by the wac parser and versions printed by [semver] always satisfy it. *)
Definition key_wf (k : key) : Prop := last (key_components k) [] <> [].
Definition key_wfb (k : key) : bool :=
  match last (key_components k) [] with [] => false | _ => true end.

(** The one situation in which fs.rs is known to leave the table (finding C18-F1/F2): no explicit
    location applies, B is not a directory, and the suffixed candidate the lookup settles on is
    itself a DIRECTORY -- "B.wat" when text support is on, or "B.wasm" when "B.wat" is absent (or
    text support is off). *)
Definition suffixed_dir_chosen (wat : bool) (fs : filesystem) (cfg : config) (k : key) : bool :=
  match applicable_override cfg k with
  | Some _ => false
  | None =>
      negb (is_dir fs (base cfg k)) &&
      ((wat && is_dir fs (suffixed cfg k s_wat))
       || ((negb wat || negb (exists_ fs (suffixed cfg k s_wat))) && is_dir fs (suffixed cfg k s_wasm)))
  end.
