(** What the encoded composition must be, read off the composition GRAPH alone (properties C02, C03).
    Written from the property text: every instantiation once, each argument name bound to the
    designated explicit import / instance export / implicit import, aliases from the designated
    instance, exports bound to the designated items, one embedded component per package; the
    imports are the explicit ones plus one per semver track of unsatisfied argument names, named for
    the highest version. Instances are numbered along an enumeration [ord] of the nodes (the encoder
    may emit independent nodes in any dependency-respecting order). *)
From Coq Require Import String.
From Coq Require Import List Arith Bool NArith.
From WacV Require Import Str StrLit Ord Semver Names Graph Wiring.
Import ListNotations.
Local Open Scope nat_scope.

(** what the per-case universe says about strings and kinds *)
Record wenv := {
  we_name : name -> str;                 (* the name pool *)
  we_pkg_name : nat -> str;              (* universe package -> package name *)
  we_pkg_version : nat -> option str;    (* ... and version text *)
  we_digest : nat -> N;                  (* ... and identity of its bytes *)
  we_sort : kid -> sort;                 (* item kind -> index space *)
  we_iid : kid -> option str }.          (* interface id of an instance kind *)

Section Spec.
  Variable e : wenv.
  Variable u : universe.
  Variable g : gstate.
  Variable dc : bool.   (* EncodeOptions::define_components *)

  Definition nstr (n : name) : str := we_name e n.

  Definition node_sort (n : nat) : sort :=
    match get_node g n with Some nd => we_sort e (nitem nd) | None => SType end.

  Definition is_inst (n : nat) : bool :=
    match get_node g n with Some nd => match nk nd with NInst _ => true | _ => false end | None => false end.
  Definition is_def (n : nat) : bool :=
    match get_node g n with Some nd => match nk nd with NDef => true | _ => false end | None => false end.
  Definition is_import (n : nat) : bool :=
    match get_node g n with Some nd => match nk nd with NImport _ => true | _ => false end | None => false end.

  (** the imports of the instantiated package that have no argument edge, in world order *)
  Definition unsat_args (n : nat) : list (name * kid) :=
    match get_node g n with
    | Some nd =>
        match nk nd, inst_imports u g nd with
        | NInst sat, Some imps =>
            flat_map (fun p : nat * (name * kid) => if existsb (Nat.eqb (fst p)) sat then [] else [snd p])
                     (combine (seq 0 (length imps)) imps)
        | _, _ => []
        end
    | None => []
    end.

  Definition implicit_names : list str := flat_map (fun n => map (fun p => nstr (fst p)) (unsat_args n)) (node_ids g).
  Definition explicit_names : list str :=
    flat_map (fun n => match get_node g n with
                       | Some nd => match nk nd with NImport nm => [nstr nm] | _ => [] end
                       | None => [] end) (node_ids g).
  Definition all_import_names : list str := implicit_names ++ explicit_names.

  (** [b] is a strictly higher version than [a] (both versioned) *)
  Definition higher (a b : str) : bool :=
    match alt_key a, alt_key b with
    | Some (_, va), Some (_, vb) => version_ltb va vb
    | _, _ => false
    end.

  (** the highest-versioned name among [names] on the semver track of [q] (or [q] itself) *)
  Definition canon_in (names : list str) (q : str) : str :=
    fold_left (fun best n => if compat n q && higher best n then n else best) names q.
  Definition canon (q : str) : str := canon_in all_import_names q.

  (** position of [n] among the instantiation nodes of [ord] *)
  Fixpoint index_of (n : nat) (l : list nat) : nat :=
    match l with
    | [] => 0
    | m :: r => if m =? n then 0 else S (index_of n r)
    end.
  Definition rank (ord : list nat) (n : nat) : nat := index_of n (filter is_inst ord).

  (** the name of a definition: the (first) export name bound to it *)
  Definition def_name (n : nat) : str :=
    match find (fun p : name * nat => snd p =? n) (exports g) with
    | Some (nm, _) => nstr nm
    | None => []
    end.

  Fixpoint prov_of (fuel : nat) (ord : list nat) (n : nat) : prov :=
    match fuel with
    | O => POpaque
    | S f =>
        match get_node g n with
        | None => POpaque
        | Some nd =>
            match nk nd with
            | NImport nm => PImp (canon (nstr nm))
            | NInst _ => PInst (rank ord n)
            | NDef => PExp (def_name n)
            | NAlias =>
                match get_alias_source u g n with
                | Some (src, en) => PAli (prov_of f ord src) (nstr en)
                | None => POpaque
                end
            end
        end
    end.
  Definition node_prov (ord : list nat) (n : nat) : prov := prov_of (S (length (nodes g))) ord n.

  Definition pkg_import_name (p : nat) : str :=
    L"unlocked-dep=<" ++ we_pkg_name e p ++
    (match we_pkg_version e p with Some v => L"@{>=" ++ v ++ L"}" | None => [] end) ++ L">".

  Definition node_pkg (n : nat) : option nat :=
    match get_node g n with
    | Some nd => match npkg nd with Some id => get_pkg g id | None => None end
    | None => None
    end.

  Definition comp_prov (n : nat) : prov :=
    match node_pkg n with
    | Some p => if dc then PComp (we_digest e p) else PImp (pkg_import_name p)
    | None => POpaque
    end.

  Definition explicit_args (ord : list nat) (n : nat) : list parg :=
    match get_node g n with
    | Some nd =>
        match inst_imports u g nd with
        | Some imps =>
            flat_map (fun ed => match ek ed with
                                | EArg i => match nth_error imps i with
                                            | Some (nm, _) => [(nstr nm, node_sort (esrc ed), node_prov ord (esrc ed))]
                                            | None => [] end
                                | _ => [] end) (incoming g n)
        | None => []
        end
    | None => []
    end.

  Definition implicit_args (n : nat) : list parg :=
    map (fun p : name * kid => (nstr (fst p), we_sort e (snd p), PImp (canon (nstr (fst p))))) (unsat_args n).

  Definition spec_inst (ord : list nat) (n : nat) : winst :=
    WInst (comp_prov n) (explicit_args ord n ++ implicit_args n).

  Fixpoint nodup_nat (l : list nat) : list nat :=
    match l with
    | [] => []
    | x :: r => x :: filter (fun y => negb (y =? x)) (nodup_nat r)
    end.

  Definition opt_list {A} (o : option A) : list A := match o with Some x => [x] | None => [] end.

  (** packages in order of first instantiation along [ord] *)
  Definition pkgs_in_order (ord : list nat) : list nat :=
    nodup_nat (flat_map (fun n => opt_list (node_pkg n)) (filter is_inst ord)).

  Definition def_names : list str := map def_name (filter is_def (node_ids g)).

  Definition spec_exports (ord : list nat) : list parg :=
    map (fun n => (def_name n, SType, PDef)) (filter is_def ord)
    ++ flat_map (fun p : name * nat =>
         if is_def (snd p) && str_eqb (nstr (fst p)) (def_name (snd p)) then []
         else [(nstr (fst p), node_sort (snd p), node_prov ord (snd p))]) (exports g).

  Definition name_sorts : list sort := [SType; SFunc; SInstance; SComponent; SModule; SValue].

  Definition spec_names (ord : list nat) : list (sort * str * prov) :=
    flat_map (fun s =>
      flat_map (fun n => match get_node g n with
                         | Some nd => match nname nd with
                                      | Some nm => if sort_eqb (we_sort e (nitem nd)) s then [(s, nstr nm, node_prov ord n)] else []
                                      | None => [] end
                         | None => [] end) (node_ids g)) name_sorts.

  Definition wiring_spec (ord : list nat) : wiring :=
    {| w_insts := map (spec_inst ord) (filter is_inst ord);
       w_exports := spec_exports ord;
       w_comps := if dc then map (we_digest e) (pkgs_in_order ord) else [];
       w_names := spec_names ord |}.

  (** C03: the imports the composition calls for (as a set; the order of imports is not part of the property) *)
  Definition spec_imports (ord : list nat) : list (str * sort) :=
    flat_map (fun n => map (fun p : name * kid => (canon (nstr (fst p)), we_sort e (snd p))) (unsat_args n)) (node_ids g)
    ++ flat_map (fun n => match get_node g n with
                          | Some nd => match nk nd with NImport nm => [(canon (nstr nm), we_sort e (nitem nd))] | _ => [] end
                          | None => [] end) (node_ids g)
    ++ (if dc then [] else map (fun p => (pkg_import_name p, SComponent)) (pkgs_in_order ord)).

  (** C03: what each sharer of an import needs from it (export names of the instance types involved) *)
  Definition kind_export_names (k : kid) : list str :=
    match u_inst_exports u k with Some ex => map (fun p : name * kid => nstr (fst p)) ex | None => [] end.
  Definition spec_import_needs : list (str * list str) :=
    flat_map (fun n => map (fun p : name * kid => (canon (nstr (fst p)), kind_export_names (snd p))) (unsat_args n)) (node_ids g)
    ++ flat_map (fun n => match get_node g n with
                          | Some nd => match nk nd with NImport nm => [(canon (nstr nm), kind_export_names (nitem nd))] | _ => [] end
                          | None => [] end) (node_ids g).

  (** C03: exported names and sorts *)
  Definition spec_export_names : list (str * sort) :=
    map (fun p : name * nat => (nstr (fst p), node_sort (snd p))) (exports g).

  (** a dependency-respecting enumeration of exactly the live nodes *)
  Fixpoint nodupb (l : list nat) : bool :=
    match l with [] => true | x :: r => negb (existsb (Nat.eqb x) r) && nodupb r end.
  Definition precedes (ord : list nat) (a b : nat) : bool := index_of a ord <? index_of b ord.
  Definition topo_orderb (ord : list nat) : bool :=
    nodupb ord
    && forallb (fun n => existsb (Nat.eqb n) ord) (node_ids g)
    && forallb (fun n => live g n) ord
    && forallb (fun ed => precedes ord (esrc ed) (etgt ed)) (edges g).
End Spec.
