(** Specification of property C20, written from the property text:

      "Resolving package keys against a registry returns, for every requested key, exactly the
       content published under that name and version, or under the latest release when the key has
       no version, no matter how many requested keys share a name, in which order they were
       requested, or in which order the concurrent downloads complete.  A package, version or
       release that does not exist is reported with the corresponding error attributed to the key
       that asked for it, and no key is silently dropped or given another key's content."

    The only vocabulary shared with the model is the data (keys, registry, result type).
    Interpretation decisions: a yanked release is not published content; "latest release" is the
    highest version (semver order) among the non-yanked releases that are not pre-releases (what
    the requirement [*] means in semver); a name the registry client refuses to parse is an error
    of the key carrying it. *)
From WacV Require Import Str Ord Semver Registry.

(** [c] is published under [name]@[v]. *)
Definition Published (reg : registry) (name : str) (v : version) (c : content) : Prop :=
  exists rels, reg_find reg name = Some rels /\ release rels v = Some (Released c).

Definition Exists_pkg (reg : registry) (name : str) : Prop := exists rels, reg_find reg name = Some rels.

(** [v] is a candidate for "latest". *)
Definition Candidate (reg : registry) (name : str) (v : version) (c : content) : Prop :=
  Published reg name v c /\ pre v = [].

Definition Latest (reg : registry) (name : str) (v : version) (c : content) : Prop :=
  Candidate reg name v c /\
  forall v' c', Candidate reg name v' c' -> cmp_version v' v <> Gt.

(** What one key is owed, whatever else was requested. *)
Inductive outcome := KOk (c : content) | KErr (e : rerror).

Inductive KeyOutcome (valid_name : str -> bool) (reg : registry) : pkey * span -> outcome -> Prop :=
  | KO_invalid : forall n ov s, valid_name n = false ->
      KeyOutcome valid_name reg ((n, ov), s) (KErr (EInvalidPackageName n s))
  | KO_nopkg : forall n ov s, valid_name n = true -> ~ Exists_pkg reg n ->
      KeyOutcome valid_name reg ((n, ov), s) (KErr (EPackageDoesNotExist n s))
  | KO_exact : forall n v s c, valid_name n = true -> Published reg n v c ->
      KeyOutcome valid_name reg ((n, Some v), s) (KOk c)
  | KO_nover : forall n v s, valid_name n = true -> Exists_pkg reg n -> (forall c, ~ Published reg n v c) ->
      KeyOutcome valid_name reg ((n, Some v), s) (KErr (EPackageVersionDoesNotExist n v s))
  | KO_latest : forall n s v c, valid_name n = true -> Latest reg n v c ->
      KeyOutcome valid_name reg ((n, None), s) (KOk c)
  | KO_norel : forall n s, valid_name n = true -> Exists_pkg reg n -> (forall v c, ~ Candidate reg n v c) ->
      KeyOutcome valid_name reg ((n, None), s) (KErr (EPackageNoReleases n s)).

(** The whole answer.  If every key is owed content, the answer is a map with exactly one entry per
    requested key holding that content (as a finite map: the order of entries is not part of the
    property).  Otherwise the answer is the error owed to one of the failing keys. *)
Inductive Resolve_spec (valid_name : str -> bool) (reg : registry) (keys : keys_t) : result -> Prop :=
  | RS_ok : forall m,
      NoDup (map fst m) ->
      (forall k c, In (k, c) m <-> exists s, In (k, s) keys /\ KeyOutcome valid_name reg (k, s) (KOk c)) ->
      (forall k s, In (k, s) keys -> exists c, KeyOutcome valid_name reg (k, s) (KOk c)) ->
      Resolve_spec valid_name reg keys (ROk m)
  | RS_err : forall e k s,
      In (k, s) keys -> KeyOutcome valid_name reg (k, s) (KErr e) ->
      Resolve_spec valid_name reg keys (RErr e).

(** * Executable form (extracted; evaluated on the implementation's observations). *)
Definition latest_b (rels : releases) : option content :=
  (* highest candidate, by a plain scan that does not share code with the model's [max_by] *)
  let cands := filter (fun r => match snd r with Released _ => is_nil (pre (fst r)) | Yanked => false end) rels in
  let is_max (r : version * rstate) :=
    forallb (fun r' => match cmp_version (fst r') (fst r) with Gt => false | _ => true end) cands in
  match filter is_max cands with
  | (_, Released c) :: _ => Some c
  | _ => None
  end.

Definition key_outcome_b (valid_name : str -> bool) (reg : registry) (ks : pkey * span) : outcome :=
  let '((n, ov), s) := ks in
  if negb (valid_name n) then KErr (EInvalidPackageName n s) else
  match reg_find reg n with
  | None => KErr (EPackageDoesNotExist n s)
  | Some rels =>
      match ov with
      | Some v => match release rels v with
                  | Some (Released c) => KOk c
                  | _ => KErr (EPackageVersionDoesNotExist n v s)
                  end
      | None => match latest_b rels with
                | Some c => KOk c
                | None => KErr (EPackageNoReleases n s)
                end
      end
  end.

Definition outcome_is_ok (o : outcome) : bool := match o with KOk _ => true | KErr _ => false end.

Fixpoint nodup_keys_b (m : list (pkey * content)) : bool :=
  match m with
  | [] => true
  | (k, _) :: r => negb (existsb (fun x => pkey_eqb (fst x) k) r) && nodup_keys_b r
  end.

Definition spec_check (valid_name : str -> bool) (reg : registry) (keys : keys_t) (r : result) : bool :=
  match r with
  | ROk m =>
      (* every key is owed content and has it; no duplicate and no foreign entry *)
      nodup_keys_b m &&
      forallb (fun ks => match key_outcome_b valid_name reg ks with
                         | KOk c => match im_get pkey_eqb m (fst ks) with
                                    | Some c' => c =? c'
                                    | None => false
                                    end
                         | KErr _ => false
                         end) keys &&
      forallb (fun kc => existsb (fun ks => pkey_eqb (fst ks) (fst kc)) keys) m
  | RErr e =>
      existsb (fun ks => match key_outcome_b valid_name reg ks with
                         | KErr e' => rerror_eqb e e'
                         | KOk _ => false
                         end) keys
  | RPanic => false
  end.

(** Well-formed inputs: the requested keys are the key set of an IndexMap (no duplicate
    (name, version) pair); the registry has one log per name and one release per version. *)
Definition wf_keys (keys : keys_t) : Prop := NoDup (map fst keys).
Definition wf_reg (reg : registry) : Prop :=
  NoDup (map fst reg) /\ forall n rels, In (n, rels) reg -> NoDup (map fst rels).

(** No two requested keys share a package name. *)
Definition no_shared_name (keys : keys_t) : Prop := NoDup (map (fun ks => kname (fst ks)) keys).
