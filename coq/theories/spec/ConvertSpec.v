(** Specification of C08, first half: "loading a component as a package yields a world that lists exactly the
    component's imports and exports, in order, with the right kinds, names, function signatures (parameter
    names, order, result, async), value types, resource identity/aliasing and used-type provenance, and an
    instance type equal to its exports".

    Written from that text over the abstract validator type graph ([Convert.vgraph], an independent reading
    of the reference validator's type information) and the arena-free tree denotation of [wac_types]
    kinds ([Types.unfold]); not from package.rs.

    - [lists_exactly]          the world lists the imports / exports by name, in order, with the right item kind;
                               the instance type is the export list
    - [spec_tree]              the tree a validator entity denotes: parameter names and order, result, async
                               flag, every value-type constructor, names and order inside instance and component
                               types.  [tree_faithful]: the converted kind unfolds to exactly this tree.
    - [walk]                   the validator entity and the converted kind are traversed TOGETHER; the traversal
                               fails when the shapes differ and otherwise reports which validator identifier was
                               turned into which [wac_types] identifier, and the type-export sites in order.
    - [ids_one_to_one]         identity: one validator identifier, one [wac_types] identifier, and conversely
    - [resources_agree]        two converted resources have the same alias root iff the validator gives them the
                               same resource
    - [uses_agree]             used-type provenance: an interface (or component type) records a [use] for a type
                               item exactly when the referenced type goes back, through the validator's alias
                               links, to an item first exported by ANOTHER interface; the entry names that
                               interface and the original item name (only when it differs).

    Each has a boolean form that the correspondence driver evaluates on the observation of the REAL
    implementation. *)
From WacV Require Import Str Types Convert.

(** * Names, order, kinds *)
Definition ent_kind_ok (g : vgraph) (e : vent) (k : kind) : bool :=
  match e, k with
  | EModule _, KModule _ | EFunc _, KFunc _ | EValue _, KValue _ | EInstance _, KInstance _
  | EComponent _, KComponent _ => true
  | EType _ cr, KType t =>
    match node_of g cr, t with
    | Some (NDef _), TValue _ | Some (NFunc _ _ _), TFunc _ | Some (NInst _), TInterface _
    | Some (NComp _ _), TWorld _ | Some (NRes _), TResource _ => true
    | _, _ => false
    end
  | _, _ => false
  end.

(** same names in the same order, and item-wise the right kind *)
Definition items_agree (g : vgraph) (l : list (str * vent)) (m : list (str * kind)) : Prop :=
  Forall2 (fun a b => fst a = fst b /\ ent_kind_ok g (snd a) (snd b) = true) l m.

Definition lists_exactly (g : vgraph) (t : types) (p : package) : Prop :=
  exists w i,
    get_world t (pk_ty p) = Some w /\ get_if t (pk_instance p) = Some i /\
    items_agree g (vg_imports g) (w_imports w) /\
    items_agree g (vg_exports g) (w_exports w) /\
    i_exports i = w_exports w.

Fixpoint items_agree_b (g : vgraph) (l : list (str * vent)) (m : list (str * kind)) : bool :=
  match l, m with
  | [], [] => true
  | a :: l', b :: m' => str_eqb (fst a) (fst b) && ent_kind_ok g (snd a) (snd b) && items_agree_b g l' m'
  | _, _ => false
  end.
Definition kitems_eqb (a b : list (str * kind)) : bool :=
  list_eqb (fun x y => str_eqb (fst x) (fst y) && kind_eqb (snd x) (snd y)) a b.
Definition lists_exactly_b (g : vgraph) (t : types) (p : package) : bool :=
  match get_world t (pk_ty p), get_if t (pk_instance p) with
  | Some w, Some i =>
    items_agree_b g (vg_imports g) (w_imports w) && items_agree_b g (vg_exports g) (w_exports w)
    && kitems_eqb (i_exports i) (w_exports w)
  | _, _ => false
  end.

(** * The tree a validator entity denotes (resource-free fragment: [None] below a resource) *)
Definition spec_vt_body (U : vval -> option vtree) (g : vgraph) (v : vval) : option vtree :=
  match v with
  | WPrim p => Some (VTPrim p)
  | WRef d =>
    match node_of g d with
    | Some (NDef x) =>
      match x with
      | WDPrim p => Some (VTPrim p)
      | WDRecord fs => option_map VTRecord (map_snd U fs)
      | WDVariant cs => option_map VTVariant (map_snd (omap U) cs)
      | WDList x => option_map VTList (U x)
      | WDFsl x n => option_map (fun y => VTFsl y n) (U x)
      | WDTuple l => option_map VTTuple (all_some (map U l))
      | WDFlags l => Some (VTFlags l)
      | WDEnum l => Some (VTEnum l)
      | WDOption x => option_map VTOption (U x)
      | WDResult o e => match omap U o, omap U e with Some o', Some e' => Some (VTResult o' e') | _, _ => None end
      | WDFuture o => option_map VTFuture (omap U o)
      | WDStream o => option_map VTStream (omap U o)
      | WDOwn _ | WDBorrow _ | WDMap _ _ => None
      end
    | _ => None
    end
  end.
Fixpoint spec_vt (fuel : nat) (g : vgraph) (v : vval) : option vtree :=
  match fuel with
  | O => None
  | S f => spec_vt_body (spec_vt f g) g v
  end.

Definition spec_ft (fuel : nat) (g : vgraph) (v : vid) : option ftree :=
  match node_of g v with
  | Some (NFunc a ps r) =>
    match map_snd (spec_vt fuel g) ps, omap (spec_vt fuel g) r with
    | Some ps', Some r' => Some (mkft ps' r' a)
    | _, _ => None
    end
  | _ => None
  end.

Definition spec_inst (U : vent -> option tree) (g : vgraph) (i : vid) : option (list (str * tree)) :=
  match node_of g i with Some (NInst ex) => map_snd U ex | _ => None end.
Definition spec_comp (U : vent -> option tree) (g : vgraph) (c : vid) : option (list (str * tree) * list (str * tree)) :=
  match node_of g c with
  | Some (NComp im ex) => match map_snd U im, map_snd U ex with Some a, Some b => Some (a, b) | _, _ => None end
  | _ => None
  end.
Definition spec_mod (g : vgraph) (m : vid) : option moduletype :=
  match node_of g m with Some (NMod (Some mt)) => Some mt | _ => None end.
Definition spec_tree_body (U : vent -> option tree) (fuel : nat) (g : vgraph) (e : vent) : option tree :=
  match e with
  | EModule m => option_map XMod (spec_mod g m)
  | EFunc v => option_map XFunc (spec_ft fuel g v)
  | EValue v => option_map XValue (spec_vt fuel g v)
  | EInstance i => option_map XInst (spec_inst U g i)
  | EComponent c => option_map (fun ie => XComp (fst ie) (snd ie)) (spec_comp U g c)
  | EType _ cr =>
    match node_of g cr with
    | Some (NDef _) => option_map XTValue (spec_vt fuel g (WRef cr))
    | Some (NFunc _ _ _) => option_map XTFunc (spec_ft fuel g cr)
    | Some (NInst _) => option_map XTInst (spec_inst U g cr)
    | Some (NComp _ _) => option_map (fun ie => XTComp (fst ie) (snd ie)) (spec_comp U g cr)
    | _ => None
    end
  end.
Fixpoint spec_tree (fuel : nat) (g : vgraph) (e : vent) : option tree :=
  match fuel with
  | O => None
  | S f => spec_tree_body (spec_tree f g) (S f) g e
  end.

(** the converted kind denotes the tree of the validator entity *)
Definition tree_faithful (g : vgraph) (t : types) (e : vent) (k : kind) : Prop :=
  forall fuel tr, spec_tree fuel g e = Some tr -> exists fuel', unfold fuel' t k = Some tr.

(** * Joint traversal *)
Inductive ev :=
| EvMap (v : vid) (x : entity)                          (* validator identifier -> wac identifier *)
| EvSite (ow : owner) (name : str) (rf cr : vid).       (* a type item of an interface / a type import of a component type *)

Fixpoint zipM {A B} (f : A -> B -> option (list ev)) (l : list A) (m : list B) : option (list ev) :=
  match l, m with
  | [], [] => Some []
  | a :: l', b :: m' =>
    match f a b, zipM f l' m' with Some x, Some y => Some (x ++ y) | _, _ => None end
  | _, _ => None
  end.
Definition optZ {A B} (f : A -> B -> option (list ev)) (a : option A) (b : option B) : option (list ev) :=
  match a, b with
  | None, None => Some []
  | Some x, Some y => f x y
  | _, _ => None
  end.
Definition namedZ {A B} (f : A -> B -> option (list ev)) (a : str * A) (b : str * B) : option (list ev) :=
  if str_eqb (fst a) (fst b) then f (snd a) (snd b) else None.
Definition strs_eqb (a b : list str) : bool := list_eqb str_eqb a b.

Section Walk.
  Variable g : vgraph.
  Variable t : types.

  Fixpoint walk_val (fuel : nat) (v : vval) (x : valtype) : option (list ev) :=
    match fuel with
    | O => None
    | S f =>
      let W := walk_val f in
      match v with
      | WPrim p => match x with VPrim q => if prim_eqb p q then Some [] else None | _ => None end
      | WRef d =>
        match node_of g d with
        | Some (NDef nd) =>
          option_map (cons (EvMap d (EnType (TValue x))))
            match nd, x with
            | WDOwn r, VOwn i => Some [EvMap r (EnRes i)]
            | WDBorrow r, VBorrow i => Some [EvMap r (EnRes i)]
            | _, VDefined i =>
              match get_def t i with
              | None => None
              | Some dd =>
                match nd, dd with
                | WDPrim p, DAlias (VPrim q) => if prim_eqb p q then Some [] else None
                | WDRecord a, DRecord b => zipM (namedZ W) a b
                | WDVariant a, DVariant b => zipM (namedZ (optZ W)) a b
                | WDList a, DList b => W a b
                | WDFsl a n, DFsl b m => if n =? m then W a b else None
                | WDTuple a, DTuple b => zipM W a b
                | WDFlags a, DFlags b => if strs_eqb a b then Some [] else None
                | WDEnum a, DEnum b => if strs_eqb a b then Some [] else None
                | WDOption a, DOption b => W a b
                | WDResult ao ae, DResult bo be =>
                  match optZ W ao bo, optZ W ae be with Some x, Some y => Some (x ++ y) | _, _ => None end
                | WDFuture a, DFuture b => optZ W a b
                | WDStream a, DStream b => optZ W a b
                | _, _ => None
                end
              end
            | _, _ => None
            end
        | _ => None
        end
      end
    end.

  Definition walk_func (fuel : nat) (v : vid) (i : id) : option (list ev) :=
    match node_of g v, get_func t i with
    | Some (NFunc a ps r), Some ft =>
      if Bool.eqb a (f_async ft) then
        match zipM (namedZ (walk_val fuel)) ps (f_params ft), optZ (walk_val fuel) r (f_result ft) with
        | Some x, Some y => Some (EvMap v (EnType (TFunc i)) :: x ++ y)
        | _, _ => None
        end
      else None
    | _, _ => None
    end.

  Definition site_ev (ow : option owner) (name : str) (e : vent) : list ev :=
    match ow, e with
    | Some o, EType rf cr => [EvSite o name rf cr]
    | _, _ => []
    end.

  Fixpoint walk_ent (fuel : nat) (e : vent) (k : kind) : option (list ev) :=
    match fuel with
    | O => None
    | S f =>
      (* the events of an item come before its own site event: [entity] runs before [use_or_own] *)
      let items (ow : option owner) :=
          zipM (fun a b => if str_eqb (fst a) (fst b)
                           then option_map (fun x => x ++ site_ev ow (fst a) (snd a)) (walk_ent f (snd a) (snd b))
                           else None) in
      let inst v i :=
          match node_of g v, get_if t i with
          | Some (NInst ex), Some x =>
            option_map (cons (EvMap v (EnType (TInterface i)))) (items (Some (OwIface i)) ex (i_exports x))
          | _, _ => None
          end in
      let comp v w :=
          match node_of g v, get_world t w with
          | Some (NComp im ex), Some x =>
            match items (Some (OwWorld w)) im (w_imports x), items None ex (w_exports x) with
            | Some a, Some b => Some (EvMap v (EnType (TWorld w)) :: a ++ b)
            | _, _ => None
            end
          | _, _ => None
          end in
      match e, k with
      | EModule m, KModule i => Some [EvMap m (EnType (TModule i))]
      | EFunc v, KFunc i => walk_func fuel v i
      | EValue v, KValue x => walk_val fuel v x
      | EInstance v, KInstance i => inst v i
      | EComponent v, KComponent w => comp v w
      | EType _ cr, KType ty =>
        match node_of g cr, ty with
        | Some (NDef _), TValue x => walk_val fuel (WRef cr) x
        | Some (NFunc _ _ _), TFunc i => walk_func fuel cr i
        | Some (NInst _), TInterface i => inst cr i
        | Some (NComp _ _), TWorld w => comp cr w
        | Some (NRes _), TResource r => Some [EvMap cr (EnRes r)]
        | _, _ => None
        end
      | _, _ => None
      end
    end.

  (** the whole package: imports, then exports, of the top-level world *)
  Definition walk_items (fuel : nat) : list (str * vent) -> list (str * kind) -> option (list ev) :=
    zipM (fun a b => if str_eqb (fst a) (fst b) then walk_ent fuel (snd a) (snd b) else None).
  Definition walk_package (fuel : nat) (p : package) : option (list ev) :=
    match get_world t (pk_ty p) with
    | Some w =>
      match walk_items fuel (vg_imports g) (w_imports w), walk_items fuel (vg_exports g) (w_exports w) with
      | Some a, Some b => Some (a ++ b)
      | _, _ => None
      end
    | None => None
    end.
End Walk.

(** * Identity *)
Definition ty_is_handle (x : entity) : bool :=
  match x with EnType (TValue (VOwn _)) | EnType (TValue (VBorrow _)) | EnType (TValue (VPrim _)) => true | _ => false end.
Definition entity_eqb (a b : entity) : bool :=
  match a, b with
  | EnType x, EnType y => ty_eqb x y
  | EnRes x, EnRes y => id_eqb x y
  | _, _ => false
  end.
Fixpoint maps_of (l : list ev) : list (vid * entity) :=
  match l with
  | [] => []
  | EvMap v x :: r => (v, x) :: maps_of r
  | _ :: r => maps_of r
  end.

(** one validator identifier is converted to one [wac_types] identifier ... *)
Definition functional (m : list (vid * entity)) : Prop :=
  forall v x y, In (v, x) m -> In (v, y) m -> x = y.
(** ... and one [wac_types] identifier comes from one validator identifier ([own<r>] / [borrow<r>] are not
    identifiers of their own in [wac_types]: they are the handle value types of the resource) *)
Definition injective (m : list (vid * entity)) : Prop :=
  forall v w x, In (v, x) m -> In (w, x) m -> ty_is_handle x = false -> v = w.
Definition ids_one_to_one (evs : list ev) : Prop := functional (maps_of evs) /\ injective (maps_of evs).

Fixpoint functional_b (m : list (vid * entity)) : bool :=
  match m with
  | [] => true
  | (v, x) :: r => forallb (fun p => negb (Nat.eqb v (fst p)) || entity_eqb x (snd p)) r && functional_b r
  end.
Fixpoint injective_b (m : list (vid * entity)) : bool :=
  match m with
  | [] => true
  | (v, x) :: r =>
    (ty_is_handle x || forallb (fun p => negb (entity_eqb x (snd p)) || Nat.eqb v (fst p)) r) && injective_b r
  end.
Definition ids_one_to_one_b (evs : list ev) : bool := functional_b (maps_of evs) && injective_b (maps_of evs).

(** * Resource identity and aliasing *)
Fixpoint res_root (fuel : nat) (t : types) (r : id) : option id :=
  match fuel with
  | O => None
  | S f => match get_res t r with
           | None => None
           | Some x => match res_source x with Some s => res_root f t s | None => Some r end
           end
  end.
Definition rid_of (g : vgraph) (v : vid) : option nat :=
  match node_of g v with Some (NRes r) => Some r | _ => None end.
Fixpoint res_pairs (fuel : nat) (g : vgraph) (t : types) (m : list (vid * entity)) : option (list (nat * id)) :=
  match m with
  | [] => Some []
  | (v, EnRes r) :: rest =>
    match rid_of g v, res_root fuel t r, res_pairs fuel g t rest with
    | Some a, Some b, Some l => Some ((a, b) :: l)
    | _, _, _ => None
    end
  | _ :: rest => res_pairs fuel g t rest
  end.
(** same validator resource <-> same alias root *)
Definition resources_agree (l : list (nat * id)) : Prop :=
  forall a b x y, In (a, x) l -> In (b, y) l -> (a = b <-> x = y).
Fixpoint resources_agree_b (l : list (nat * id)) : bool :=
  match l with
  | [] => true
  | (a, x) :: r => forallb (fun p => Bool.eqb (Nat.eqb a (fst p)) (id_eqb x (snd p))) r && resources_agree_b r
  end.

(** * Used-type provenance *)
Fixpoint sites_of (l : list ev) : list (owner * str * vid * vid)%type :=
  match l with
  | [] => []
  | EvSite o n rf cr :: r => (o, n, rf, cr) :: sites_of r
  | _ :: r => sites_of r
  end.
Definition site_seen (o : owner) (n : str) (seen : list (owner * str)) : bool :=
  existsb (fun p => owner_eqb o (fst p) && str_eqb n (snd p)) seen.

(** ** The first-owner rule, over the type items in the order in which they are met.

    State: [u_origins] maps a validator identifier to the item that OWNS the type ((interface or component type,
    item name)); [u_entries] are the [use] entries decided so far, oldest first.
    A type item (o, n, rf, cr) -- owner [o], name [n], referenced identifier [rf], created identifier [cr]:
    - if no identifier on the alias chain of [rf] ([rf] itself first) has an origin, the item is ORIGINAL: [cr] gets the
      origin (o, n); no entry;
    - otherwise let (other, orig) be the origin of the nearest such identifier: [cr] gets the same origin (unless it has
      one), and an entry  n -> (other, orig when it differs from n)  is recorded for [o] exactly when [other] is an
      interface different from [o] (nothing for a type the owner owns itself, nothing when the origin is a component type). *)
Definition usite := (owner * str * vid * vid)%type.
Record ust := mkust { u_origins : list (vid * (owner * str)); u_entries : list (owner * (str * used)) }.
Definition ust0 : ust := mkust [] [].
Definition use_entry (o : owner) (n : str) (other : owner) (orig : str) : list (owner * (str * used)) :=
  match other with
  | OwIface i => if owner_eqb o other then [] else [(o, (n, (i, if str_eqb n orig then None else Some orig)))]
  | OwWorld _ => []
  end.
Definition site_step (fuel : nat) (g : vgraph) (st : ust) (x : usite) : option ust :=
  let '(o, n, rf, cr) := x in
  match find_owner fuel g (u_origins st) rf with
  | None => None
  | Some None => Some (mkust ((cr, (o, n)) :: u_origins st) (u_entries st))
  | Some (Some (other, orig)) =>
    Some (mkust (match nassoc cr (u_origins st) with Some _ => u_origins st | None => (cr, (other, orig)) :: u_origins st end)
                (u_entries st ++ use_entry o n other orig))
  end.
Fixpoint replay (fuel : nat) (g : vgraph) (sites : list usite) (st : ust) : option ust :=
  match sites with
  | [] => Some st
  | x :: r => match site_step fuel g st x with Some st' => replay fuel g r st' | None => None end
  end.

(** a site met again (the joint traversal reaches the same instance type twice; the conversion does not) counts once *)
Fixpoint dedupe (sites : list usite) (seen : list (owner * str)) : list usite :=
  match sites with
  | [] => []
  | (o, n, rf, cr) :: r => if site_seen o n seen then dedupe r seen else (o, n, rf, cr) :: dedupe r ((o, n) :: seen)
  end.
Definition expected_uses (fuel : nat) (g : vgraph) (sites : list usite) : option (list (owner * (str * used))) :=
  option_map u_entries (replay fuel g (dedupe sites []) ust0).
(** the entries of one owner, as the [IndexMap] they are inserted into *)
Definition uses_for (o : owner) (l : list (owner * (str * used))) : list (str * used) :=
  fold_left (fun acc p => if owner_eqb o (fst p) then imap_insert (fst (snd p)) (snd (snd p)) acc else acc) l [].
Definition used_eqb (a b : str * used) : bool :=
  str_eqb (fst a) (fst b) && id_eqb (fst (snd a)) (fst (snd b))
  && match snd (snd a), snd (snd b) with
     | None, None => true
     | Some x, Some y => str_eqb x y
     | _, _ => false
     end.
(** every interface and every world of the collection has exactly the expected entries, in order *)
Definition uses_agree (t : types) (l : list (owner * (str * used))) : Prop :=
  (forall n x, nth_error (t_interfaces t) n = Some x -> i_uses x = uses_for (OwIface (mkid (t_tag t) n)) l) /\
  (forall n x, nth_error (t_worlds t) n = Some x -> w_uses x = uses_for (OwWorld (mkid (t_tag t) n)) l).
Fixpoint check_from {A} (f : nat -> A -> bool) (n : nat) (l : list A) : bool :=
  match l with
  | [] => true
  | x :: r => f n x && check_from f (S n) r
  end.
Definition uses_agree_b (t : types) (l : list (owner * (str * used))) : bool :=
  check_from (fun n x => list_eqb used_eqb (i_uses x) (uses_for (OwIface (mkid (t_tag t) n)) l)) 0 (t_interfaces t)
  && check_from (fun n x => list_eqb used_eqb (w_uses x) (uses_for (OwWorld (mkid (t_tag t) n)) l)) 0 (t_worlds t).

(** * Well-typedness of the validator graph (an assumption about the oracle, checked on every case by the driver)

    Every reference of a node points to a node of the expected sort, item names are unique inside an instance type and
    inside the import / export list of a component type. *)
Definition is_def (g : vgraph) (v : vid) : bool := match node_of g v with Some (NDef _) => true | _ => false end.
Definition is_func (g : vgraph) (v : vid) : bool := match node_of g v with Some (NFunc _ _ _) => true | _ => false end.
Definition is_inst (g : vgraph) (v : vid) : bool := match node_of g v with Some (NInst _) => true | _ => false end.
Definition is_comp (g : vgraph) (v : vid) : bool := match node_of g v with Some (NComp _ _) => true | _ => false end.
Definition is_mod (g : vgraph) (v : vid) : bool := match node_of g v with Some (NMod _) => true | _ => false end.
Definition is_res (g : vgraph) (v : vid) : bool := match node_of g v with Some (NRes _) => true | _ => false end.
Definition wt_val (g : vgraph) (v : vval) : bool := match v with WRef d => is_def g d | WPrim _ => true end.
Definition wt_oval (g : vgraph) (o : option vval) : bool := match o with Some v => wt_val g v | None => true end.
Definition wt_def (g : vgraph) (d : vdef) : bool :=
  match d with
  | WDRecord fs => forallb (fun kv => wt_val g (snd kv)) fs
  | WDVariant cs => forallb (fun kv => wt_oval g (snd kv)) cs
  | WDList v | WDFsl v _ | WDOption v => wt_val g v
  | WDTuple l => forallb (wt_val g) l
  | WDResult o e => wt_oval g o && wt_oval g e
  | WDFuture o | WDStream o => wt_oval g o
  | WDMap k v => wt_val g k && wt_val g v
  | WDOwn r | WDBorrow r => is_res g r
  | WDPrim _ | WDFlags _ | WDEnum _ => true
  end.
Definition wt_ent (g : vgraph) (e : vent) : bool :=
  match e with
  | EModule m => is_mod g m
  | EFunc f => is_func g f
  | EValue v => wt_val g v
  | EType _ cr => match node_of g cr with Some (NMod _) | None => false | Some _ => true end
  | EInstance i => is_inst g i
  | EComponent c => is_comp g c
  end.
Fixpoint nodup_names (l : list str) : bool :=
  match l with
  | [] => true
  | x :: r => negb (existsb (str_eqb x) r) && nodup_names r
  end.
Definition wt_items (g : vgraph) (l : list (str * vent)) : bool :=
  forallb (fun kv => wt_ent g (snd kv)) l && nodup_names (map fst l).
Definition wt_node (g : vgraph) (n : vnode) : bool :=
  match n with
  | NDef d => wt_def g d
  | NFunc _ ps r => forallb (fun kv => wt_val g (snd kv)) ps && wt_oval g r
  | NInst ex => wt_items g ex
  | NComp im ex => wt_items g im && wt_items g ex
  | NRes _ | NMod _ => true
  end.
Definition wt_graph_b (g : vgraph) : bool :=
  forallb (fun np => wt_node g (fst np)) (vg_nodes g)
  && forallb (fun kv => wt_ent g (snd kv)) (vg_imports g) && forallb (fun kv => wt_ent g (snd kv)) (vg_exports g).

(** * The situation of finding F1 ([from-bytes-panics-on-instance-type-instantiated-twice]), as a predicate on the graph

    The type items of the graph: (node, position, referenced, created) for every type export of an instance type and
    every type import of a component type.  [shares_created_b]: two DIFFERENT items have the same created identifier,
    and that identifier is aliasable (created differs from referenced; for function / instance / component types the
    two coincide and the second item simply finds the first as its owner).  The validator makes created identifiers
    unique per item; they are shared exactly when it COPIES an instance type (one copy per use of a type that declares a
    resource) -- the copies keep the created identifiers of the non-resource type exports. *)
Fixpoint items_from (v : vid) (pos : nat) (l : list (str * vent)) : list (vid * nat * vid * vid) :=
  match l with
  | [] => []
  | (_, EType rf cr) :: r => (v, pos, rf, cr) :: items_from v (S pos) r
  | _ :: r => items_from v (S pos) r
  end.
Fixpoint type_items_from (v : vid) (nodes : list (vnode * option vid)) : list (vid * nat * vid * vid) :=
  match nodes with
  | [] => []
  | (NInst ex, _) :: r => items_from v 0%nat ex ++ type_items_from (S v) r
  | (NComp im _, _) :: r => items_from v 0%nat im ++ type_items_from (S v) r
  | _ :: r => type_items_from (S v) r
  end.
Definition type_items (g : vgraph) : list (vid * nat * vid * vid) := type_items_from 0%nat (vg_nodes g).
Fixpoint shares_in (l : list (vid * nat * vid * vid)) : bool :=
  match l with
  | [] => false
  | (_, _, rf, cr) :: r =>
    (negb (Nat.eqb rf cr) && existsb (fun y => Nat.eqb (snd y) cr) r) || shares_in r
  end.
Definition shares_created_b (g : vgraph) : bool := shares_in (type_items g).

