(** The WAC grammar of LANGUAGE.md ("WAC Grammar") as tree-indexed derivation relations.

    A relation [g_X ts r x] reads: "starting at the token stream [ts], the nonterminal X derives the
    tokens up to (not including) the remainder [r], and [x] is the tree this derivation builds".
    (Definite-clause form of a context-free grammar: the derived token list is the difference between
    [ts] and [r]; see [Derives_document] at the end for the whole-input form.) One constructor per
    alternative of the EBNF, in the order of the document. The relations are parameterised by the
    record of deviation flags [d]: a constructor guarded by [flag d = true] is a production that
    LANGUAGE.md does not have but the parser realises (or, for [named_results] / [borrow_any_type],
    one that LANGUAGE.md has and the parser does not). [G_doc] = the relations at [doc_flags];
    [G_impl] = at [impl_flags].

    Written from LANGUAGE.md and the text of property C12; the only things shared with the parser
    model are data: the AST, the flags record, and the pure functions that turn ONE token into a leaf
    of the tree ([mk_ident], [strlit_of], [package_name_of], [package_path_of] -- package names, paths
    and versions are lexical tokens, DESIGN §8). *)
From WacV Require Import Str Token Lexer Semver Ast Parser.

Definition drel (A : Type) : Type := list lexitem -> list lexitem -> A -> Prop.

(** One token of kind [k]. *)
Definition tok (k : token) : drel rtoken := fun ts r t => ts = LTok t :: r /\ tk t = k.

(** [item (',' item)* ','?] or nothing; the boolean tells whether the list ended with a comma. *)
Inductive seplist {A} (R : drel A) : drel (list A * bool) :=
| sl_nil ts : seplist R ts ts ([], false)
| sl_one ts r a : R ts r a -> seplist R ts r ([a], false)
| sl_trail ts r1 r a c : R ts r1 a -> tok TComma r1 r c -> seplist R ts r ([a], true)
| sl_cons ts r1 r2 r a c l tr :
    R ts r1 a -> tok TComma r1 r2 c -> seplist R r2 r (l, tr) -> l <> [] -> seplist R ts r (a :: l, tr).

(** [item*] *)
Inductive many {A} (R : drel A) : drel (list A) :=
| many_nil ts : many R ts ts []
| many_cons ts r1 r a l : R ts r1 a -> many R r1 r l -> many R ts r (a :: l).

(** [(k X)?] *)
Inductive opt {A} (k : token) (R : drel A) : drel (option A) :=
| opt_none ts : opt k R ts ts None
| opt_some ts r1 r t a : tok k ts r1 t -> R r1 r a -> opt k R ts r (Some a).

Section Grammar.
Variable d : deviations.

(* ------------------------------------------------------------------ leaves *)

(** id: a '%'-escapable kebab-case identifier (one token; the tree keeps the text without '%') *)
Definition g_id : drel ident := fun ts r i => exists t, tok TIdent ts r t /\ i = mk_ident t.
(** string: double-quoted text without a double quote inside (one token) *)
Definition g_string : drel strlit := fun ts r s => exists t, tok TString ts r t /\ strlit_of t = Some s.
(** package-name ::= id (':' id)+ ('@' version)?  with version ::= SEMVER  (one token) *)
Definition g_package_name : drel package_name :=
  fun ts r p => exists t, tok TPackageName ts r t /\ package_name_of t = LeafOk p.
(** package-path ::= id (':' id)+ ('/' id)+ ('@' version)? *)
Definition g_package_path : drel package_path :=
  fun ts r p => exists t, tok TPackagePath ts r t /\ package_path_of t = LeafOk p.

(* ------------------------------------------------------------------ types *)

Inductive g_type : drel ty :=
(** type ::= u8 | s8 | ... | string *)
| gt_prim ts r t p : ts = LTok t :: r -> prim_of_token (tk t) = Some p -> g_type ts r (TyPrim p (tsp t))
(** tuple ::= 'tuple' '<' type (',' type)* ','? '>' *)
| gt_tuple ts r1 r2 r3 r kw o c tys tr :
    tok TTupleKeyword ts r1 kw -> tok TOpenAngle r1 r2 o ->
    g_types r2 r3 (tys, tr) -> tys <> [] -> tok TCloseAngle r3 r c ->
    g_type ts r (TyTuple tys (span_join (tsp kw) (tsp c)))
(** list ::= 'list' '<' type '>' *)
| gt_list ts r1 r2 r3 r kw o c t :
    tok TListKeyword ts r1 kw -> tok TOpenAngle r1 r2 o -> g_type r2 r3 t -> tok TCloseAngle r3 r c ->
    g_type ts r (TyList t (span_join (tsp kw) (tsp c)))
(** option ::= 'option' '<' type '>' *)
| gt_option ts r1 r2 r3 r kw o c t :
    tok TOptionKeyword ts r1 kw -> tok TOpenAngle r1 r2 o -> g_type r2 r3 t -> tok TCloseAngle r3 r c ->
    g_type ts r (TyOption t (span_join (tsp kw) (tsp c)))
(** result ::= 'result' *)
| gt_result ts r kw : tok TResultKeyword ts r kw -> g_type ts r (TyResult None None (tsp kw))
(**          | 'result' '<' type '>' *)
| gt_result_ok ts r1 r2 r3 r kw o c t :
    tok TResultKeyword ts r1 kw -> tok TOpenAngle r1 r2 o -> g_type r2 r3 t -> tok TCloseAngle r3 r c ->
    g_type ts r (TyResult (Some t) None (span_join (tsp kw) (tsp c)))
(**          | 'result' '<' '_' ',' type '>' *)
| gt_result_err ts r1 r2 r3 r4 r5 r kw o u cm c t :
    tok TResultKeyword ts r1 kw -> tok TOpenAngle r1 r2 o -> tok TUnderscore r2 r3 u ->
    tok TComma r3 r4 cm -> g_type r4 r5 t -> tok TCloseAngle r5 r c ->
    g_type ts r (TyResult None (Some t) (span_join (tsp kw) (tsp c)))
(**          | 'result' '<' type ',' type '>' *)
| gt_result_both ts r1 r2 r3 r4 r5 r kw o cm c t1 t2 :
    tok TResultKeyword ts r1 kw -> tok TOpenAngle r1 r2 o -> g_type r2 r3 t1 ->
    tok TComma r3 r4 cm -> g_type r4 r5 t2 -> tok TCloseAngle r5 r c ->
    g_type ts r (TyResult (Some t1) (Some t2) (span_join (tsp kw) (tsp c)))
(** deviation [result_underscore_forms]: 'result' '<' '_' '>' *)
| gt_result_u ts r1 r2 r3 r kw o u c :
    result_underscore_forms d = true ->
    tok TResultKeyword ts r1 kw -> tok TOpenAngle r1 r2 o -> tok TUnderscore r2 r3 u -> tok TCloseAngle r3 r c ->
    g_type ts r (TyResult None None (span_join (tsp kw) (tsp c)))
(** deviation [result_underscore_forms]: 'result' '<' '_' ',' '_' '>' *)
| gt_result_uu ts r1 r2 r3 r4 r5 r kw o u1 cm u2 c :
    result_underscore_forms d = true ->
    tok TResultKeyword ts r1 kw -> tok TOpenAngle r1 r2 o -> tok TUnderscore r2 r3 u1 ->
    tok TComma r3 r4 cm -> tok TUnderscore r4 r5 u2 -> tok TCloseAngle r5 r c ->
    g_type ts r (TyResult None None (span_join (tsp kw) (tsp c)))
(** deviation [result_underscore_forms]: 'result' '<' type ',' '_' '>' *)
| gt_result_tu ts r1 r2 r3 r4 r5 r kw o cm u c t :
    result_underscore_forms d = true ->
    tok TResultKeyword ts r1 kw -> tok TOpenAngle r1 r2 o -> g_type r2 r3 t ->
    tok TComma r3 r4 cm -> tok TUnderscore r4 r5 u -> tok TCloseAngle r5 r c ->
    g_type ts r (TyResult (Some t) None (span_join (tsp kw) (tsp c)))
(** borrow ::= 'borrow' '<' type '>' -- the parser realises only [type ::= id] here *)
| gt_borrow ts r1 r2 r3 r kw o c i :
    tok TBorrowKeyword ts r1 kw -> tok TOpenAngle r1 r2 o -> g_id r2 r3 i -> tok TCloseAngle r3 r c ->
    g_type ts r (TyBorrow i (span_join (tsp kw) (tsp c)))
| gt_borrow_ty ts r1 r2 r3 r kw o c t :
    borrow_any_type d = true ->
    tok TBorrowKeyword ts r1 kw -> tok TOpenAngle r1 r2 o -> g_type r2 r3 t ->
    (forall i, t <> TyIdent i) -> tok TCloseAngle r3 r c ->
    g_type ts r (TyBorrowTy t (span_join (tsp kw) (tsp c)))
(** type ::= ... | id *)
| gt_id ts r i : g_id ts r i -> g_type ts r (TyIdent i)
(** [type (',' type)* ','?]: [seplist g_type], unfolded because of the mutual recursion *)
with g_types : drel (list ty * bool) :=
| gts_nil ts : g_types ts ts ([], false)
| gts_one ts r a : g_type ts r a -> g_types ts r ([a], false)
| gts_trail ts r1 r a c : g_type ts r1 a -> tok TComma r1 r c -> g_types ts r ([a], true)
| gts_cons ts r1 r2 r a c l tr :
    g_type ts r1 a -> tok TComma r1 r2 c -> g_types r2 r (l, tr) -> l <> [] -> g_types ts r (a :: l, tr).

(** named-type ::= id ':' type *)
Definition g_named_type : drel named_type := fun ts r n =>
  exists r1 r2 i c t, g_id ts r1 i /\ tok TColon r1 r2 c /\ g_type r2 r t /\ n = {| nt_id := i; nt_ty := t |}.

(** params ::= named-type (',' named-type)* ','?     (possibly absent: [params?]) *)
Definition g_params : drel (list named_type) := fun ts r ps => exists tr, seplist g_named_type ts r (ps, tr).

(** results ::= type | '(' named-type (',' named-type)* ','? ')' *)
Inductive g_results : drel result_list :=
| gr_scalar ts r t : g_type ts r t -> g_results ts r (RLScalar t)
| gr_named ts r1 r2 r o c ps :
    named_results d = true ->
    tok TOpenParen ts r1 o -> g_params r1 r2 ps -> ps <> [] -> tok TCloseParen r2 r c ->
    g_results ts r (RLNamed ps)
(** deviation [arrow_empty_results]: nothing after the arrow *)
| gr_empty ts : arrow_empty_results d = true -> g_results ts ts RLEmpty.

(** func-type ::= 'func' '(' params? ')' ('->' results)? *)
Definition g_func_type : drel func_type := fun ts r f =>
  exists r1 r2 r3 r4 kw o c ps res,
    tok TFuncKeyword ts r1 kw /\ tok TOpenParen r1 r2 o /\ g_params r2 r3 ps /\ tok TCloseParen r3 r4 c /\
    opt TArrow g_results r4 r res /\
    f = {| ft_params := ps; ft_results := match res with Some x => x | None => RLEmpty end |}.

(* ------------------------------------------------------------------ type declarations *)

(** variant-case ::= id ('(' type ')')? *)
Definition g_variant_case : drel variant_case := fun ts r v =>
  exists r1 i t,
    g_id ts r1 i /\
    opt TOpenParen (fun a b x => exists b1 c, g_type a b1 x /\ tok TCloseParen b1 b c) r1 r t /\
    v = {| vc_docs := docs_of ts; vc_id := i; vc_ty := t |}.

Definition g_field : drel field := fun ts r f =>
  exists n, g_named_type ts r n /\ f = {| fd_docs := docs_of ts; fd_id := nt_id n; fd_ty := nt_ty n |}.
Definition g_flag : drel flag := fun ts r f => exists i, g_id ts r i /\ f = {| fl_docs := docs_of ts; fl_id := i |}.
Definition g_enum_case : drel enum_case := fun ts r c =>
  exists i, g_id ts r i /\ c = {| ec_docs := docs_of ts; ec_id := i |}.

(** kw id '{' item (',' item)* ','? '}'   -- non-empty *)
Definition g_braced {A} (kw : token) (item : drel A) (mk : list doc -> ident -> list A -> item_type_decl)
  : drel item_type_decl := fun ts r x =>
  exists r1 r2 r3 r4 k i o c items tr,
    tok kw ts r1 k /\ g_id r1 r2 i /\ tok TOpenBrace r2 r3 o /\ seplist item r3 r4 (items, tr) /\ items <> [] /\
    tok TCloseBrace r4 r c /\ x = mk (docs_of ts) i items.

(** resource-item ::= constructor | method
    constructor ::= 'constructor' param-list ';'          (param-list read as '(' params? ')')
    method      ::= id ':' 'static'? func-type ';' *)
Inductive g_resource_item : drel resource_method :=
| gri_constructor ts r1 r2 r3 r4 r kw o c s ps :
    tok TConstructorKeyword ts r1 kw -> tok TOpenParen r1 r2 o -> g_params r2 r3 ps ->
    tok TCloseParen r3 r4 c -> tok TSemicolon r4 r s ->
    g_resource_item ts r (RMConstructor (docs_of ts) (tsp kw) ps)
| gri_method ts r1 r2 r3 r4 r i c st f s :
    g_id ts r1 i -> tok TColon r1 r2 c -> opt TStaticKeyword (fun a b (x : unit) => a = b) r2 r3 st ->
    g_func_type r3 r4 f -> tok TSemicolon r4 r s ->
    g_resource_item ts r (RMMethod (docs_of ts) i (match st with Some _ => true | None => false end) f).

(** type-decl ::= variant-decl | record-decl | flags-decl | enum-decl | type-alias *)
Inductive g_type_decl : drel item_type_decl :=
| gd_variant ts r x : g_braced TVariantKeyword g_variant_case DVariant ts r x -> g_type_decl ts r x
| gd_record ts r x : g_braced TRecordKeyword g_field DRecord ts r x -> g_type_decl ts r x
| gd_flags ts r x : g_braced TFlagsKeyword g_flag DFlags ts r x -> g_type_decl ts r x
| gd_enum ts r x : g_braced TEnumKeyword g_enum_case DEnum ts r x -> g_type_decl ts r x
(** type-alias ::= 'type' id '=' (func-type | type) ';' *)
| gd_alias_func ts r1 r2 r3 r4 r kw i eq f s :
    tok TTypeKeyword ts r1 kw -> g_id r1 r2 i -> tok TEquals r2 r3 eq -> g_func_type r3 r4 f ->
    tok TSemicolon r4 r s -> g_type_decl ts r (DAlias (docs_of ts) i (TAFunc f))
| gd_alias_type ts r1 r2 r3 r4 r kw i eq t s :
    tok TTypeKeyword ts r1 kw -> g_id r1 r2 i -> tok TEquals r2 r3 eq -> g_type r3 r4 t ->
    tok TSemicolon r4 r s -> g_type_decl ts r (DAlias (docs_of ts) i (TAType t)).

(** item-type-decl ::= resource-decl | type-decl
    resource-decl  ::= 'resource' id (';' | '{' resource-item* '}') *)
Inductive g_item_type_decl : drel item_type_decl :=
| gi_resource_semi ts r1 r2 r kw i s :
    tok TResourceKeyword ts r1 kw -> g_id r1 r2 i -> tok TSemicolon r2 r s ->
    g_item_type_decl ts r (DResource (docs_of ts) i [])
| gi_resource_body ts r1 r2 r3 r4 r kw i o c ms :
    tok TResourceKeyword ts r1 kw -> g_id r1 r2 i -> tok TOpenBrace r2 r3 o ->
    many g_resource_item r3 r4 ms -> tok TCloseBrace r4 r c ->
    g_item_type_decl ts r (DResource (docs_of ts) i ms)
| gi_type_decl ts r x : g_type_decl ts r x -> g_item_type_decl ts r x.

(* ------------------------------------------------------------------ interfaces and worlds *)

(** use-path ::= package-path | id *)
Inductive g_use_path : drel use_path :=
| gup_package ts r p : g_package_path ts r p -> g_use_path ts r (UPPackage p)
| gup_id ts r i : g_id ts r i -> g_use_path ts r (UPIdent i).

(** use-item ::= id ('as' id)? *)
Definition g_use_item : drel use_item := fun ts r u =>
  exists r1 i a, g_id ts r1 i /\ opt TAsKeyword g_id r1 r a /\ u = {| ui_id := i; ui_as := a |}.

(** use-type ::= 'use' use-path '.' '{' use-items '}' ';'      use-items non-empty *)
Definition g_use : drel use_decl := fun ts r u =>
  exists r1 r2 r3 r4 r5 r6 kw p dt o c s items tr,
    tok TUseKeyword ts r1 kw /\ g_use_path r1 r2 p /\ tok TDot r2 r3 dt /\ tok TOpenBrace r3 r4 o /\
    seplist g_use_item r4 r5 (items, tr) /\ (items <> [] \/ empty_use_items d = true) /\
    tok TCloseBrace r5 r6 c /\ tok TSemicolon r6 r s /\
    u = {| u_docs := docs_of ts; u_path := p; u_items := items |}.

(** func-type-ref ::= func-type | id *)
Inductive g_func_type_ref : drel func_type_ref :=
| gfr_func ts r f : g_func_type ts r f -> g_func_type_ref ts r (FRFunc f)
| gfr_id ts r i : g_id ts r i -> g_func_type_ref ts r (FRIdent i).

(** interface-item ::= use-type | item-type-decl | interface-export
    interface-export ::= id ':' func-type-ref ';' *)
Inductive g_interface_item : drel interface_item :=
| gii_use ts r u : g_use ts r u -> g_interface_item ts r (IIUse u)
| gii_type ts r x : g_item_type_decl ts r x -> g_interface_item ts r (IIType x)
| gii_export ts r1 r2 r3 r i c f s :
    g_id ts r1 i -> tok TColon r1 r2 c -> g_func_type_ref r2 r3 f -> tok TSemicolon r3 r s ->
    g_interface_item ts r (IIExport (docs_of ts) i f).

(** '{' interface-item* '}' *)
Definition g_interface_body : drel (list interface_item) := fun ts r items =>
  exists r1 r2 o c, tok TOpenBrace ts r1 o /\ many g_interface_item r1 r2 items /\ tok TCloseBrace r2 r c.

(** inline-interface ::= 'interface' '{' interface-item* '}' *)
Definition g_inline_interface : drel (list interface_item) := fun ts r items =>
  exists r1 kw, tok TInterfaceKeyword ts r1 kw /\ g_interface_body r1 r items.

(** extern-type ::= func-type | inline-interface | id *)
Inductive g_extern_type : drel extern_type :=
| get_func ts r f : g_func_type ts r f -> g_extern_type ts r (ETFunc f)
| get_interface ts r b : g_inline_interface ts r b -> g_extern_type ts r (ETInterface b)
| get_id ts r i : g_id ts r i -> g_extern_type ts r (ETIdent i).

(** world-item-path ::= named-world-item | package-path | id      named-world-item ::= id ':' extern-type *)
Inductive g_world_item_path : drel world_item_path :=
| gwp_named ts r1 r2 r i c t :
    g_id ts r1 i -> tok TColon r1 r2 c -> g_extern_type r2 r t -> g_world_item_path ts r (WPNamed i t)
| gwp_package ts r p : g_package_path ts r p -> g_world_item_path ts r (WPPackage p)
| gwp_id ts r i : g_id ts r i -> g_world_item_path ts r (WPIdent i).

(** world-ref ::= package-path | id *)
Inductive g_world_ref : drel world_ref :=
| gwr_package ts r p : g_package_path ts r p -> g_world_ref ts r (WRPackage p)
| gwr_id ts r i : g_id ts r i -> g_world_ref ts r (WRIdent i).

(** world-include-item ::= id 'as' id *)
Definition g_include_item : drel include_item := fun ts r x =>
  exists r1 r2 a kw b, g_id ts r1 a /\ tok TAsKeyword r1 r2 kw /\ g_id r2 r b /\ x = {| ii_from := a; ii_to := b |}.

(** world-item ::= use-type | item-type-decl | world-import | world-export | world-include *)
Inductive g_world_item : drel world_item :=
| gwi_use ts r u : g_use ts r u -> g_world_item ts r (WIUse u)
| gwi_type ts r x : g_item_type_decl ts r x -> g_world_item ts r (WIType x)
(** world-import ::= 'import' world-item-path ';' *)
| gwi_import ts r1 r2 r kw p s :
    tok TImportKeyword ts r1 kw -> g_world_item_path r1 r2 p -> tok TSemicolon r2 r s ->
    g_world_item ts r (WIImport (docs_of ts) p)
(** world-export ::= 'export' world-item-path ';' *)
| gwi_export ts r1 r2 r kw p s :
    tok TExportKeyword ts r1 kw -> g_world_item_path r1 r2 p -> tok TSemicolon r2 r s ->
    g_world_item ts r (WIExport (docs_of ts) p)
(** world-include ::= 'include' world-ref ('with' '{' world-include-items '}')? ';' *)
| gwi_include ts r1 r2 r3 r kw w wi s :
    tok TIncludeKeyword ts r1 kw -> g_world_ref r1 r2 w ->
    opt TWithKeyword (fun a b items => exists b1 b2 o c tr,
        tok TOpenBrace a b1 o /\ seplist g_include_item b1 b2 (items, tr) /\
        (items <> [] \/ empty_include_with d = true) /\ tok TCloseBrace b2 b c) r2 r3 wi ->
    tok TSemicolon r3 r s ->
    g_world_item ts r (WIInclude (docs_of ts) w (match wi with Some x => x | None => [] end)).

(** type-statement ::= interface-decl | world-decl | type-decl *)
Inductive g_type_statement : drel type_statement :=
(** interface-decl ::= 'interface' id '{' interface-item* '}' *)
| gts_interface ts r1 r2 r kw i items :
    tok TInterfaceKeyword ts r1 kw -> g_id r1 r2 i -> g_interface_body r2 r items ->
    g_type_statement ts r (TSInterface (docs_of ts) i items)
(** world-decl ::= 'world' id '{' world-item* '}' *)
| gts_world ts r1 r2 r3 r4 r kw i o c items :
    tok TWorldKeyword ts r1 kw -> g_id r1 r2 i -> tok TOpenBrace r2 r3 o -> many g_world_item r3 r4 items ->
    tok TCloseBrace r4 r c -> g_type_statement ts r (TSWorld (docs_of ts) i items)
| gts_type ts r x : g_type_decl ts r x -> g_type_statement ts r (TSType x).

(* ------------------------------------------------------------------ expressions *)

(** postfix-expr ::= access-expr | named-access-expr
    access-expr ::= '.' id        named-access-expr ::= '[' string ']' *)
Inductive g_postfix : drel postfix_expr :=
| gpf_access ts r1 r dt i : tok TDot ts r1 dt -> g_id r1 r i -> g_postfix ts r (PAccess (span_join (tsp dt) (id_span i)) i)
| gpf_named ts r1 r2 r o s c :
    tok TOpenBracket ts r1 o -> g_string r1 r2 s -> tok TCloseBracket r2 r c ->
    g_postfix ts r (PNamedAccess (span_join (tsp o) (tsp c)) s).

Inductive g_arg_name : drel arg_name :=
| gan_id ts r i : g_id ts r i -> g_arg_name ts r (ANIdent i)
| gan_string ts r s : g_string ts r s -> g_arg_name ts r (ANString s).

(** expr ::= primary-expr postfix-expr*
    primary-expr ::= new-expr | nested-expr | id
    new-expr ::= 'new' package-name '{' instantiation-args '}'
    nested-expr ::= '(' expr ')'
    instantiation-arg ::= id | '...' id | named-instantiation-arg       (and the fill '...')
    named-instantiation-arg ::= (id | string) ':' expr *)
Inductive g_expr : drel expr :=
| ge_expr ts r1 r p post : g_primary ts r1 p -> many g_postfix r1 r post -> g_expr ts r (mk_expr p post)
with g_primary : drel primary_expr :=
| gp_new ts r1 r2 r3 r4 r kw pkg o c args tr :
    tok TNewKeyword ts r1 kw -> g_package_name r1 r2 pkg -> tok TOpenBrace r2 r3 o ->
    g_args r3 r4 (args, tr) -> args_ok d args tr = true -> tok TCloseBrace r4 r c ->
    g_primary ts r (PNew (span_join (tsp kw) (tsp c)) pkg args)
| gp_nested ts r1 r2 r o c x :
    tok TOpenParen ts r1 o -> g_expr r1 r2 x -> tok TCloseParen r2 r c ->
    g_primary ts r (PNested (span_join (tsp o) (tsp c)) x)
| gp_id ts r i : g_id ts r i -> g_primary ts r (PIdent i)
(** arguments separated by commas with an optional trailing comma ([seplist], unfolded because of the
    mutual recursion); where the fill [...] may stand is decided by [args_ok] above:
    LANGUAGE.md: instantiation-args ::= instantiation-arg (',' instantiation-arg)* (',' '...'?)? *)
with g_args : drel (list inst_arg * bool) :=
| ga_nil ts : g_args ts ts ([], false)
| ga_one ts r a : g_arg ts r a -> g_args ts r ([a], false)
| ga_trail ts r1 r a c : g_arg ts r1 a -> tok TComma r1 r c -> g_args ts r ([a], true)
| ga_cons ts r1 r2 r a c l tr :
    g_arg ts r1 a -> tok TComma r1 r2 c -> g_args r2 r (l, tr) -> l <> [] -> g_args ts r (a :: l, tr)
with g_arg : drel inst_arg :=
| gar_inferred ts r i : g_id ts r i -> g_arg ts r (AInferred i)
| gar_spread ts r1 r e i : tok TEllipsis ts r1 e -> g_id r1 r i -> g_arg ts r (ASpread i)
| gar_named ts r1 r2 r n c x : g_arg_name ts r1 n -> tok TColon r1 r2 c -> g_expr r2 r x -> g_arg ts r (ANamed n x)
| gar_fill ts r e : tok TEllipsis ts r e -> g_arg ts r (AFill (tsp e)).

(* ------------------------------------------------------------------ statements, document *)

Inductive g_extern_name : drel extern_name :=
| gen_id ts r i : g_id ts r i -> g_extern_name ts r (ENIdent i)
| gen_string ts r s : g_string ts r s -> g_extern_name ts r (ENString s).

(** import-type ::= package-path | func-type | inline-interface | id *)
Inductive g_import_type : drel import_type :=
| git_package ts r p : g_package_path ts r p -> g_import_type ts r (ITPackage p)
| git_func ts r f : g_func_type ts r f -> g_import_type ts r (ITFunc f)
| git_interface ts r b : g_inline_interface ts r b -> g_import_type ts r (ITInterface b)
| git_id ts r i : g_id ts r i -> g_import_type ts r (ITIdent i).

(** export-options ::= '...' | 'as' (id | string) *)
Inductive g_export_options : drel export_options :=
| geo_none ts : g_export_options ts ts EONone
| geo_spread ts r e : tok TEllipsis ts r e -> g_export_options ts r (EOSpread (tsp e))
| geo_rename ts r1 r kw n : tok TAsKeyword ts r1 kw -> g_extern_name r1 r n -> g_export_options ts r (EORename n).

(** statement ::= import-statement | type-statement | let-statement | export-statement *)
Inductive g_statement : drel statement :=
(** import-statement ::= 'import' id ('as' (id | string))? ':' import-type ';' *)
| gs_import ts r1 r2 r3 r4 r5 r kw i name c t s :
    tok TImportKeyword ts r1 kw -> g_id r1 r2 i -> opt TAsKeyword g_extern_name r2 r3 name ->
    tok TColon r3 r4 c -> g_import_type r4 r5 t -> tok TSemicolon r5 r s ->
    g_statement ts r (SImport (docs_of ts) i name t)
| gs_type ts r t : g_type_statement ts r t -> g_statement ts r (SType t)
(** let-statement ::= 'let' id '=' expr ';' *)
| gs_let ts r1 r2 r3 r4 r kw i eq x s :
    tok TLetKeyword ts r1 kw -> g_id r1 r2 i -> tok TEquals r2 r3 eq -> g_expr r3 r4 x -> tok TSemicolon r4 r s ->
    g_statement ts r (SLet (docs_of ts) i x)
(** export-statement ::= 'export' expr (export-options)? ';' *)
| gs_export ts r1 r2 r3 r kw x o s :
    tok TExportKeyword ts r1 kw -> g_expr r1 r2 x -> g_export_options r2 r3 o -> tok TSemicolon r3 r s ->
    g_statement ts r (SExport (docs_of ts) x o).

(** package-decl ::= `package` package-name (`targets` package-path)? `;` *)
Definition g_package_decl : drel package_directive := fun ts r pd =>
  exists r1 r2 r3 kw p t s,
    tok TPackageKeyword ts r1 kw /\ g_package_name r1 r2 p /\ opt TTargetsKeyword g_package_path r2 r3 t /\
    tok TSemicolon r3 r s /\ pd = {| pd_package := p; pd_targets := t |}.

(** document ::= package-decl statement* *)
Definition g_document : drel document := fun ts r doc =>
  exists r1 pd ss,
    g_package_decl ts r1 pd /\ many g_statement r1 r ss /\
    doc = {| doc_docs := docs_of ts; doc_directive := pd; doc_statements := ss |}.

End Grammar.

(** A token list (the lexer's output without errors) derives a document. *)
Definition Derives_document (d : deviations) (toks : list rtoken) (doc : document) : Prop :=
  g_document d (map LTok toks) [] doc.
