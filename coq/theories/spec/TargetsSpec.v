(** Declarative reading of property C11, written from the property text (not from resolution.rs or
    targets.rs).

    "The encoded component imports only items the world imports (explicitly or through used
     interfaces) at types the world's imports satisfy, and exports every export of the world at a
     conforming type; if the composition imports something outside the world, omits a required export,
     or mismatches a type, resolution fails with the corresponding diagnostic."

    The world's import table is the list of its explicit imports and of the interfaces reached through
    [use]; an entry of a table is "consulted" for a name under a MATCHING DISCIPLINE:
    - exact:   the entry carrying that very name;
    - semver:  the entry carrying that very name if there is one, otherwise the entry with the highest
               version among those on the name's compatibility track (C15).
    [sat a b] ("a satisfies b") is the subtype oracle; imports are contravariant (the world's item must
    satisfy what the composition asks for), exports covariant.  [promote] turns a type-level item of a
    world into the item it describes.

    Tables are assumed CONSISTENT: two entries with one name carry one kind (unique keys of an
    [IndexMap]; an interface listed both explicitly and through [use] is one interface). *)
From WacV Require Import Str Ord Semver NamesSpec Targets.

Definition consistent {V} (l : list (str * V)) : Prop :=
  forall n x y, In (n, x) l -> In (n, y) l -> x = y.

(** Highest version on the track of [q] (as in C15's [nm_get_highest]). *)
Definition Highest {V} (es : list (str * V)) (q : str) (x : V) : Prop :=
  exists n v, In (n, x) es /\ same_track n q = true /\ version_of n = Some v /\
    forall n' x' v', In (n', x') es -> same_track n' q = true -> version_of n' = Some v' ->
                     cmp_version v' v <> Gt.

Inductive discipline := Exact | Semver.

Definition consult {V} (d : discipline) (es : list (str * V)) (q : str) (x : V) : Prop :=
  match d with
  | Exact => In (q, x) es
  | Semver => In (q, x) es \/ (~ In q (map fst es) /\ Highest es q x)
  end.

Definition absent {V} (d : discipline) (es : list (str * V)) (q : str) : Prop :=
  match d with
  | Exact => ~ In q (map fst es)
  | Semver => forall n x, In (n, x) es -> n <> q /\ same_track n q = false
  end.

Section Spec.
  Variable K : Type.
  Variable promote : K -> K.
  Variable sub : K -> K -> bool.
  Variable d : discipline.

  (** explicit imports and used interfaces alike *)
  Definition wtable (w : tworld K) : list (str * K) := tw_implicit w ++ tw_imports w.

  Definition iname (i : str * K * bool) : str := fst (fst i).
  Definition ikind (i : str * K * bool) : K := snd (fst i).

  (** an import of the composition is covered by the world *)
  Definition import_ok (w : tworld K) (i : str * K * bool) : Prop :=
    exists e, consult d (wtable w) (iname i) e /\ sub (promote e) (ikind i) = true.
  (** failure class 1: the composition imports something outside the world *)
  Definition import_outside (w : tworld K) (i : str * K * bool) : Prop :=
    absent d (wtable w) (iname i).
  (** failure class 3 (import side): a type is mismatched *)
  Definition import_mismatch (w : tworld K) (i : str * K * bool) : Prop :=
    exists e, consult d (wtable w) (iname i) e /\ sub (promote e) (ikind i) = false.

  (** an export of the world is provided by the composition *)
  Definition export_ok (c : comp K) (x : str * K) : Prop :=
    exists y, consult d (c_exports c) (fst x) y /\ sub y (promote (snd x)) = true.
  (** failure class 2: a required export is omitted *)
  Definition export_missing (c : comp K) (x : str * K) : Prop :=
    absent d (c_exports c) (fst x).
  (** failure class 3 (export side) *)
  Definition export_mismatch (c : comp K) (x : str * K) : Prop :=
    exists y, consult d (c_exports c) (fst x) y /\ sub y (promote (snd x)) = false.

  Definition Conforms (w : tworld K) (c : comp K) : Prop :=
    Forall (import_ok w) (c_imports c) /\ Forall (export_ok c) (tw_exports w).

  (** "[P] is the first failure of the scan": everything before the item is fine, the item fails by [P]. *)
  Definition first_failing {A} (ok : A -> Prop) (P : A -> Prop) (l : list A) (a : A) : Prop :=
    exists pre post, l = pre ++ a :: post /\ Forall ok pre /\ P a.

  (** The diagnostics, in the order "imports of the composition, then exports of the world". *)
  Definition diag_import_not_in_target (w : tworld K) (c : comp K) (n : str) : Prop :=
    exists i, iname i = n /\ first_failing (import_ok w) (import_outside w) (c_imports c) i.
  Definition diag_import_mismatch (w : tworld K) (c : comp K) (n : str) : Prop :=
    exists i, iname i = n /\ first_failing (import_ok w) (import_mismatch w) (c_imports c) i.
  Definition diag_missing_export (w : tworld K) (c : comp K) (n : str) : Prop :=
    Forall (import_ok w) (c_imports c) /\
    exists x, fst x = n /\ first_failing (export_ok c) (export_missing c) (tw_exports w) x.
  Definition diag_export_mismatch (w : tworld K) (c : comp K) (n : str) : Prop :=
    Forall (import_ok w) (c_imports c) /\
    exists x, fst x = n /\ first_failing (export_ok c) (export_mismatch c) (tw_exports w) x.

  (** The report of a check that does not stop at the first failure: the three failure classes as sets. *)
  Definition in_not_in_target (w : tworld K) (c : comp K) (n : str) : Prop :=
    exists i, In i (c_imports c) /\ iname i = n /\ import_outside w i.
  Definition in_missing (w : tworld K) (c : comp K) (n : str) : Prop :=
    exists x, In x (tw_exports w) /\ fst x = n /\ export_missing c x.
  Definition in_mismatched (w : tworld K) (c : comp K) (n : str) : Prop :=
    (exists i, In i (c_imports c) /\ iname i = n /\ import_mismatch w i) \/
    (exists x, In x (tw_exports w) /\ fst x = n /\ export_mismatch c x).
End Spec.

Arguments wtable {K}. Arguments iname {K}. Arguments ikind {K}.
Arguments Conforms {K}. Arguments import_ok {K}. Arguments export_ok {K}.
Arguments import_outside {K}. Arguments import_mismatch {K}. Arguments export_missing {K}.
Arguments export_mismatch {K}. Arguments first_failing {A}.
Arguments diag_import_not_in_target {K}. Arguments diag_import_mismatch {K}.
Arguments diag_missing_export {K}. Arguments diag_export_mismatch {K}.
Arguments in_not_in_target {K}. Arguments in_missing {K}. Arguments in_mismatched {K}.

(** Well-formed descriptions. *)
Definition wf_pair {K} (w : tworld K) (c : comp K) : Prop :=
  consistent (wtable w) /\ consistent (c_exports c).

(** "The same verdict": a first-failure verdict agrees with a report when both accept, or the
    diagnostic names a member of the corresponding set of the report. *)
Definition agree (v : rverdict) (s : sverdict) : Prop :=
  match s with
  | SPanic => False
  | SReport r =>
      match v with
      | ROk => report_ok r = true
      | RErr (ImportNotInTarget n) => In n (r_not_in_target r)
      | RErr (MissingTargetExport n) => In n (r_missing r)
      | RErr (TargetMismatch _ n) => In n (map fst (r_mismatched r))
      end
  end.

(** No two distinct names of the pair are semver-compatible with each other across the two sides. *)
Definition exact_names {K} (w : tworld K) (c : comp K) : Prop :=
  (forall i m, In i (c_imports c) -> In m (map fst (wtable w)) -> same_track m (iname i) = true -> m = iname i) /\
  (forall n m, In n (map fst (tw_exports w)) -> In m (map fst (c_exports c)) -> same_track m n = true -> m = n).

(** * Executable form of the specification (what the driver prints next to the model's answer).
    Written as searches over ALL entries, not as first-match lookups. *)
Section SpecB.
  Variable K : Type.
  Variable promote : K -> K.
  Variable sub : K -> K -> bool.

  Definition has_name {V} (es : list (str * V)) (q : str) : bool := existsb (fun e => str_eqb (fst e) q) es.

  Definition vle_b (a b : version) : bool :=
    match cmp_version a b with Gt => false | _ => true end.

  (** [e] is on the track of [q] and no entry on that track has a higher version *)
  Definition highest_b {V} (es : list (str * V)) (q : str) (e : str * V) : bool :=
    same_track (fst e) q &&
    match version_of (fst e) with
    | None => false
    | Some v =>
        forallb (fun e' => if same_track (fst e') q
                           then match version_of (fst e') with Some v' => vle_b v' v | None => true end
                           else true) es
    end.

  (** entries consulted for [q] *)
  Definition consulted {V} (d : discipline) (es : list (str * V)) (q : str) : list (str * V) :=
    match d with
    | Exact => filter (fun e => str_eqb (fst e) q) es
    | Semver => if has_name es q then filter (fun e => str_eqb (fst e) q) es
                else filter (highest_b es q) es
    end.

  Inductive status := StOk | StOutside | StMismatch.

  (** classification of one lookup against a table, [test] being the type test on the consulted entry *)
  Definition classify {V} (d : discipline) (es : list (str * V)) (q : str) (test : V -> bool) : status :=
    match consulted d es q with
    | [] => StOutside
    | l => if existsb (fun e => test (snd e)) l then StOk else StMismatch
    end.

  Definition import_status (d : discipline) (w : tworld K) (i : str * K * bool) : status :=
    classify d (wtable w) (iname i) (fun e => sub (promote e) (ikind i)).
  Definition export_status (d : discipline) (c : comp K) (x : str * K) : status :=
    classify d (c_exports c) (fst x) (fun y => sub y (promote (snd x))).

  Definition is_ok (s : status) : bool := match s with StOk => true | _ => false end.

  Definition conforms_b (d : discipline) (w : tworld K) (c : comp K) : bool :=
    forallb (fun i => is_ok (import_status d w i)) (c_imports c) &&
    forallb (fun x => is_ok (export_status d c x)) (tw_exports w).

  (** first failure in scan order, as a diagnostic *)
  Fixpoint first_bad {A} (st : A -> status) (l : list A) : option (A * status) :=
    match l with
    | [] => None
    | a :: r => match st a with StOk => first_bad st r | s => Some (a, s) end
    end.

  Definition spec_first (d : discipline) (w : tworld K) (c : comp K) : rverdict :=
    match first_bad (import_status d w) (c_imports c) with
    | Some (i, StOutside) => RErr (ImportNotInTarget (iname i))
    | Some (i, _) => RErr (TargetMismatch EImport (iname i))
    | None =>
        match first_bad (export_status d c) (tw_exports w) with
        | Some (x, StOutside) => RErr (MissingTargetExport (fst x))
        | Some (x, _) => RErr (TargetMismatch EExport (fst x))
        | None => ROk
        end
    end.

  (** the three sets (with repetitions; compared as sets) *)
  Definition spec_not_in_target (d : discipline) (w : tworld K) (c : comp K) : list str :=
    map iname (filter (fun i => match import_status d w i with StOutside => true | _ => false end) (c_imports c)).
  Definition spec_missing (d : discipline) (w : tworld K) (c : comp K) : list str :=
    map fst (filter (fun x => match export_status d c x with StOutside => true | _ => false end) (tw_exports w)).
  Definition spec_mismatched (d : discipline) (w : tworld K) (c : comp K) : list str :=
    map iname (filter (fun i => match import_status d w i with StMismatch => true | _ => false end) (c_imports c))
    ++ map fst (filter (fun x => match export_status d c x with StMismatch => true | _ => false end) (tw_exports w)).

  (** executable side conditions *)
  Definition consistent_b (keq : K -> K -> bool) (l : list (str * K)) : bool :=
    forallb (fun a => forallb (fun b => if str_eqb (fst a) (fst b) then keq (snd a) (snd b) else true) l) l.
  Definition exact_names_b (w : tworld K) (c : comp K) : bool :=
    forallb (fun i => forallb (fun m => if same_track (fst m) (iname i) then str_eqb (fst m) (iname i) else true)
                        (wtable w)) (c_imports c) &&
    forallb (fun n => forallb (fun m => if same_track (fst m) (fst n) then str_eqb (fst m) (fst n) else true)
                        (c_exports c)) (tw_exports w).
End SpecB.

Arguments consulted {V}. Arguments classify {V}. Arguments highest_b {V}. Arguments has_name {V}.
Arguments import_status {K}. Arguments export_status {K}. Arguments conforms_b {K}.
Arguments spec_first {K}. Arguments spec_not_in_target {K}. Arguments spec_missing {K}.
Arguments spec_mismatched {K}. Arguments consistent_b {K}. Arguments exact_names_b {K}.
