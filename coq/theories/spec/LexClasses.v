(** Lexical classes of the WAC tokens, as boolean predicates on the token TEXT.

    Written from LANGUAGE.md, section "WAC Grammar" (the last two EBNF lines and the productions
    [package-name], [package-path], [version]) and from the text of property C12 -- not from the lexer
    model. Nothing here runs a scanner: every class is decided by splitting the text at its separators
    ([split_on], [split_first] of lib/Str.v) and testing the pieces character-wise.

        id           ::= '%'? [a-z][a-z0-9]* ( '-' [a-z][a-z0-9]* )*
        string       ::= DQUOTE character-that-is-not-a-double-quote* DQUOTE
        package-name ::= id (':' id)+ ('@' version)?
        package-path ::= id (':' id)+ ('/' id)+ ('@' version)?
        version      ::= <SEMVER>

    The classes take the record of deviation flags the grammar uses ([Parser.deviations], see
    spec/Grammar.v); at [doc_flags] they are the classes of LANGUAGE.md, at [impl_flags] those the lexer
    of [lexer.rs] realises. The lexical deviations (all recorded in /verif/known-findings.json):

    - [uppercase_words]   (C12-uppercase-words): the subpattern [word] of lexer.rs is
          [[a-z][a-z0-9]*|[A-Z][A-Z0-9]*]; LANGUAGE.md has lower-case words only.
    - [dangling_dash]     (C12-dangling-dash): an identifier directly followed by a [-] that no word
          follows is ONE Ident token including the [-]. Such a text is in no class of LANGUAGE.md and
          does not match the [Ident] regex of lexer.rs either (artefact of the generated automaton).
    - [keyword_colon]     (C12-keyword-colon): a keyword directly followed by [:] (no package name) is an
          Ident token: the text of an Ident token may then be a keyword.
    - [pkg_separator_zone] (C12-pkg-separator-zone): where a package name is directly followed by a
          dangling [:] or [-], or a prefix of a keyword by a dangling [-], the behaviour of the generated
          automaton is not modelled; the zone is delimited by [unmodelled_at] / [unmodelled_zone] below.
    - [version]: LANGUAGE.md says <SEMVER>; the token rule of lexer.rs is
          [[0-9]+ ( \.[0-9a-zA-Z-\+]+ )*] ([semver_b]); texts such as [1.x] are lexemes and are rejected
          later, by the parser ([InvalidVersion], Parser.package_name_of).
    - strings: LANGUAGE.md and [helpers::string] agree (everything up to the next double quote, line
          feeds included); control characters other than tab, CR, LF never reach the lexer (screening).
    - white space: lexer.rs also skips form feed; screening rejects it first, so it is never seen. *)
From WacV Require Import Str Token Lexer LexSpec Semver Ast Parser.

(* ------------------------------------------------------------------ characters *)

Definition lower_or_digit (c : N) : bool := is_lower c || is_digit c.
Definition upper_or_digit (c : N) : bool := is_upper c || is_digit c.
(** [[0-9a-zA-Z-\+]] *)
Definition version_char (c : N) : bool := is_digit c || is_alpha c || (c =? 45) || (c =? 43).

Definition nonempty_all (p : N -> bool) (w : str) : bool :=
  match w with [] => false | _ :: _ => forallb p w end.

Section Classes.
Variable d : deviations.

(* ------------------------------------------------------------------ id *)

(** [a-z][a-z0-9]* *)
Definition lower_word (w : str) : bool :=
  match w with c :: r => is_lower c && forallb lower_or_digit r | [] => false end.
(** [A-Z][A-Z0-9]*  (deviation [uppercase_words]) *)
Definition upper_word (w : str) : bool :=
  match w with c :: r => is_upper c && forallb upper_or_digit r | [] => false end.
Definition word_b (w : str) : bool := lower_word w || (uppercase_words d && upper_word w).

(** word ( '-' word )* : every piece between dashes is a word (so no leading, trailing or double dash). *)
Definition kebab_b (s : str) : bool := forallb word_b (split_on c_minus s).

Definition strip_percent (s : str) : str :=
  match s with c :: r => if c =? c_percent then r else s | [] => [] end.

(** id ::= '%'? word ( '-' word )* *)
Definition id_b (s : str) : bool := kebab_b (strip_percent s).

(** Does a text start like a word / like an id?  (One resp. two characters of lookahead.) *)
Definition starts_word (s : str) : bool :=
  match s with c :: _ => is_lower c || (uppercase_words d && is_upper c) | [] => false end.
Definition starts_id (s : str) : bool := starts_word (strip_percent s).

(* ------------------------------------------------------------------ string, version *)

(** string ::= DQUOTE character-that-is-not-a-double-quote* DQUOTE *)
Definition string_b (w : str) : bool :=
  match w with
  | c :: r => (c =? c_quote) &&
              match rev r with
              | q :: body => (q =? c_quote) && forallb (fun x => negb (x =? c_quote)) body
              | [] => false
              end
  | [] => false
  end.

(** The version lexeme of lexer.rs: [0-9]+ ( '.' [0-9a-zA-Z-+]+ )* *)
Definition semver_b (v : str) : bool :=
  match split_on c_period v with
  | num :: groups => nonempty_all is_digit num && forallb (nonempty_all version_char) groups
  | [] => false
  end.

(* ------------------------------------------------------------------ package names and paths *)

(** text before the first '@', and the text after it if there is one *)
Definition split_version (w : str) : str * option str :=
  match split_first c_atsign w with Some (a, v) => (a, Some v) | None => (w, None) end.

Definition version_ok (v : option str) : bool :=
  match v with Some x => semver_b x | None => true end.

(** id (':' id)+ *)
Definition pkg_core_b (s : str) : bool :=
  match split_on c_colon s with
  | i1 :: i2 :: more => forallb id_b (i1 :: i2 :: more)
  | _ => false
  end.

(** package-name ::= id (':' id)+ ('@' version)? *)
Definition pkg_name_b (w : str) : bool :=
  let (a, v) := split_version w in pkg_core_b a && version_ok v.

(** package-path ::= id (':' id)+ ('/' id)+ ('@' version)? *)
Definition pkg_path_b (w : str) : bool :=
  let (a, v) := split_version w in
  match split_on c_slash a with
  | core :: p1 :: more => pkg_core_b core && forallb id_b (p1 :: more)
  | _ => false
  end && version_ok v.

(* ------------------------------------------------------------------ keywords and punctuation *)

Fixpoint text_of_kind (k : token) (tbl : list (str * token)) : option str :=
  match tbl with
  | [] => None
  | (x, t) :: r => if token_eqb t k then Some x else text_of_kind k r
  end.

(** The one text of a keyword or punctuation token (LexSpec tables, written from the EBNF). *)
Definition fixed_text (k : token) : option str := text_of_kind k (doc_keywords ++ doc_symbols).

Definition is_keyword_text (w : str) : bool :=
  match lookup_str w doc_keywords with Some _ => true | None => false end.
Definition is_symbol_kind (k : token) : bool :=
  match text_of_kind k doc_symbols with Some _ => true | None => false end.

(* ------------------------------------------------------------------ classes per token kind *)

(** The token RULES (lexer.rs regexes = LANGUAGE.md productions, up to [uppercase_words]): the
    language each rule declares, before priorities. A keyword text is also in the Ident rule. *)
Definition rule_class (k : token) (w : str) : bool :=
  match k with
  | TIdent => id_b w
  | TString => string_b w
  | TPackageName => pkg_name_b w
  | TPackagePath => pkg_path_b w
  | TComment | TBlockComment => false     (* skipped, never emitted *)
  | _ => match fixed_text k with Some x => str_eqb x w | None => false end
  end.

(** [foo-]: an id followed by one dash (deviation [dangling_dash]). *)
Definition dash_ident_b (w : str) : bool :=
  match rev w with c :: r => (c =? c_minus) && id_b (rev r) | [] => false end.

(** What a token of kind [k] EMITTED by the lexer may carry as text. Ident: an id that is not a
    keyword (keywords have priority) -- unless [keyword_colon] --, or, with [dangling_dash], an id
    followed by a dash. Everything else: the rule's language. *)
Definition token_class (k : token) (w : str) : bool :=
  match k with
  | TIdent => (id_b w && (keyword_colon d || negb (is_keyword_text w))) || (dangling_dash d && dash_ident_b w)
  | _ => rule_class k w
  end.

(* ------------------------------------------------------------------ the unmodelled zone *)

(** A separator that continues nothing: [-] not followed by a word, [:] not followed by an id. *)
Definition dangling_sep (s : str) : bool :=
  match s with
  | c :: r => ((c =? c_minus) && negb (starts_word r)) || ((c =? c_colon) && negb (starts_id r))
  | [] => false
  end.
Definition dangling_dash_at (s : str) : bool :=
  match s with c :: r => (c =? c_minus) && negb (starts_word r) | [] => false end.

Definition is_keyword_prefix (w : str) : bool := existsb (fun kv => starts_with w (fst kv)) doc_keywords.

(** [unmodelled_at s]: the input [s] (at a position where a token starts) begins with a package name
    [id (':' id)+] directly followed by a dangling [-] or [:], or with an id that is a prefix of a
    keyword directly followed by a dangling [-]. Decided by trying every split point. *)
Definition unmodelled_at (s : str) : bool :=
  existsb (fun n => let p := firstn n s in let r := skipn n s in
                    (pkg_core_b p && dangling_sep r) ||
                    (id_b p && is_keyword_prefix p && dangling_dash_at r))
          (seq 1 (length s)).

Fixpoint tails (s : str) : list str :=
  match s with [] => [[]] | _ :: r => s :: tails r end.

(** The unmodelled lexeme zone, as a predicate on the whole source: the flag is set and the shape
    occurs at some position (inside comments and strings too: an over-approximation of the positions
    where a token starts; [lex_no_fuel_item] gives the exact position for the item the lexer emits). *)
Definition unmodelled_zone (src : str) : bool :=
  pkg_separator_zone d && existsb unmodelled_at (tails src).

(* ------------------------------------------------------------------ follow conditions *)

(** What may FOLLOW the text [w] of a token of kind [k] so that the token ends where [w] ends and keeps
    its kind ([relex_stable]): one or two characters of lookahead into [rest]. *)

(** Case of the last word of an id-like text = case of its last letter ([dflt] if there is none). *)
Fixpoint last_case (w : str) (dflt : bool) : bool :=
  match w with [] => dflt | c :: r => last_case r (if is_alpha c then is_upper c else dflt) end.

(** [rest] neither continues a word of case [up] nor adds a word. *)
Definition word_stop (up : bool) (rest : str) : bool :=
  match rest with
  | [] => true
  | c :: r => negb (if up then upper_or_digit c else lower_or_digit c) && negb ((c =? c_minus) && starts_word r)
  end.
Definition id_follow (w rest : str) : bool := word_stop (last_case w false) rest.

(** [rest] neither continues the version [v] nor adds a dot group to it. *)
Definition semver_follow (v rest : str) : bool :=
  match rest with
  | [] => true
  | c :: r => negb (if existsb (N.eqb c_period) v then version_char c else is_digit c) &&
              negb ((c =? c_period) && match r with c2 :: _ => version_char c2 | [] => false end)
  end.

Definition starts_version (r : str) : bool := match r with c :: _ => is_digit c | [] => false end.

(** Ident in id form ([is_ident]) or keyword: see [keyword_colon], [dangling_dash]. *)
Definition word_follow (is_ident : bool) (w rest : str) : bool :=
  id_follow w rest &&
  match rest with
  | c :: r =>
      if c =? c_minus then
        negb (dangling_dash d) && negb (pkg_separator_zone d && is_keyword_prefix w) &&
        (negb is_ident || negb (is_keyword_text w))
      else if c =? c_colon then
        negb (starts_id r) && (if is_keyword_text w then Bool.eqb is_ident (keyword_colon d) else true)
      else negb is_ident || negb (is_keyword_text w)
  | [] => negb is_ident || negb (is_keyword_text w)
  end.

(** Package name ([path = false]) or package path ([path = true]). *)
Definition pkg_follow (path : bool) (w rest : str) : bool :=
  match split_version w with
  | (_, Some v) => semver_follow v rest
  | (_, None) =>
      id_follow w rest &&
      match rest with
      | c :: r =>
          if c =? c_minus then path || negb (pkg_separator_zone d)
          else if c =? c_colon then path || (negb (starts_id r) && negb (pkg_separator_zone d))
          else if c =? c_slash then negb (starts_id r)
          else if c =? c_atsign then negb (starts_version r)
          else true
      | [] => true
      end
  end.

(** No punctuation text longer than [w] starts [w ++ rest]. *)
Definition symbol_follow (w rest : str) : bool :=
  forallb (fun kv => negb (starts_with (fst kv) (w ++ rest)) || (length (fst kv) <=? length w)%nat) doc_symbols.

Definition follow_ok (k : token) (w rest : str) : bool :=
  match k with
  | TString => true
  | TIdent => if dash_ident_b w then negb (starts_word rest) else word_follow true w rest
  | TPackageName => pkg_follow false w rest
  | TPackagePath => pkg_follow true w rest
  | TComment | TBlockComment => false
  | _ => if is_symbol_kind k then symbol_follow w rest else word_follow false w rest
  end.

End Classes.
