(** Declarative component-model subtyping on arena-free trees (DESIGN.md Appendix A.5).

    Written from the component-model rules as implemented by the reference validator for argument
    matching, NOT from checker.rs:
    - value and defined types are invariant: one rule per constructor, premises on the components;
      names (fields, cases, flags, enum cases, parameters) must agree in order; option/result/variant
      payloads must be present on both sides or on neither;
    - functions: same async flag, same parameter names in order, parameters and result pointwise;
    - instances: width and depth (every export of the supertype is offered by the subtype);
    - components: imports contravariant (every import of the subtype is provided by the supertype's
      import of the same name, whose type is a subtype), exports covariant;
    - core modules: as components, on core extern types, with core import matching:
      limits  a.min >= b.min  and  (b.max absent  or  a.max present and a.max <= b.max); everything else equal
      (an absent memory page size means the default 2^16).

    Resources are generative in the component model; this specification is about the resource-free
    fragment.  The relation takes the treatment of resource names as a parameter [RES] so that one set of
    rules serves both the property ([RES := fun _ _ => False]: no rule for resources) and the
    characterisation of what the checker does with resources ([RES := eq]: names are compared). *)
From WacV Require Import Str Types.

Inductive Opt2 {A} (P : A -> A -> Prop) : option A -> option A -> Prop :=
| Opt2_none : Opt2 P None None
| Opt2_some x y : P x y -> Opt2 P (Some x) (Some y).

(** A memory type without an explicit page size has the default page size 2^16 (custom-page-sizes proposal):
    the two spellings denote the same type. *)
Definition page_log2 (p : option N) : N := match p with Some x => x | None => 16 end.
Definition PageCM (a b : option N) : Prop := page_log2 a = page_log2 b.

Section Rules.
  Variable RES : str -> str -> Prop.
  (** when two memory page sizes are the same: [PageCM] for the property; [eq] on the [Option]s is what the
      checker does (see C07 [algo_iff_declarative_refuted]) *)
  Variable PG : option N -> option N -> Prop.

  Inductive VSub : vtree -> vtree -> Prop :=
  | VS_prim p : VSub (VTPrim p) (VTPrim p)
  | VS_borrow n m : RES n m -> VSub (VTBorrow n) (VTBorrow m)
  | VS_own n m : RES n m -> VSub (VTOwn n) (VTOwn m)
  | VS_tuple a b : Forall2 VSub a b -> VSub (VTTuple a) (VTTuple b)
  | VS_list a b : VSub a b -> VSub (VTList a) (VTList b)
  | VS_fsl a b n : VSub a b -> VSub (VTFsl a n) (VTFsl b n)
  | VS_option a b : VSub a b -> VSub (VTOption a) (VTOption b)
  | VS_result ao ae bo be : Opt2 VSub ao bo -> Opt2 VSub ae be -> VSub (VTResult ao ae) (VTResult bo be)
  | VS_variant a b : Forall2 (fun x y => fst x = fst y /\ Opt2 VSub (snd x) (snd y)) a b ->
                     VSub (VTVariant a) (VTVariant b)
  | VS_record a b : Forall2 (fun x y => fst x = fst y /\ VSub (snd x) (snd y)) a b ->
                    VSub (VTRecord a) (VTRecord b)
  | VS_flags l : VSub (VTFlags l) (VTFlags l)
  | VS_enum l : VSub (VTEnum l) (VTEnum l)
  | VS_stream a b : Opt2 VSub a b -> VSub (VTStream a) (VTStream b)
  | VS_future a b : Opt2 VSub a b -> VSub (VTFuture a) (VTFuture b).

  Definition FSub (f g : ftree) : Prop :=
    ft_async f = ft_async g /\
    Forall2 (fun x y => fst x = fst y /\ VSub (snd x) (snd y)) (ft_params f) (ft_params g) /\
    Opt2 VSub (ft_result f) (ft_result g).

  (** Core import matching. *)
  Definition limits_ok (ai : N) (am : option N) (bi : N) (bm : option N) : Prop :=
    bi <= ai /\ match bm with
                | None => True
                | Some y => match am with Some x => x <= y | None => False end
                end.
  Inductive ESub : coreextern -> coreextern -> Prop :=
  | ES_func f : ESub (CEFunc f) (CEFunc f)
  | ES_table e ai am bi bm t64 sh : limits_ok ai am bi bm -> ESub (CETable e ai am t64 sh) (CETable e bi bm t64 sh)
  | ES_memory m64 sh ai am bi bm pa pb : limits_ok ai am bi bm -> PG pa pb ->
                                         ESub (CEMemory m64 sh ai am pa) (CEMemory m64 sh bi bm pb)
  | ES_global v m sh : ESub (CEGlobal v m sh) (CEGlobal v m sh)
  | ES_tag f : ESub (CETag f) (CETag f).
  Definition MSub (a b : moduletype) : Prop :=
    (forall k x, In (k, x) (m_imports a) -> exists y, assoc2 k (m_imports b) = Some y /\ ESub y x) /\
    (forall k y, In (k, y) (m_exports b) -> exists x, assoc k (m_exports a) = Some x /\ ESub x y).

  (** [assoc k l] is "the item named k" (names are unique in well-formed trees). *)
  Inductive Sub : tree -> tree -> Prop :=
  | S_func f g : FSub f g -> Sub (XFunc f) (XFunc g)
  | S_inst ea eb : (forall k b, In (k, b) eb -> exists a, assoc k ea = Some a /\ Sub a b) ->
                   Sub (XInst ea) (XInst eb)
  | S_comp ia ea ib eb :
      (forall k a, In (k, a) ia -> exists b, assoc k ib = Some b /\ Sub b a) ->
      (forall k b, In (k, b) eb -> exists a, assoc k ea = Some a /\ Sub a b) ->
      Sub (XComp ia ea) (XComp ib eb)
  | S_mod a b : MSub a b -> Sub (XMod a) (XMod b)
  | S_value a b : VSub a b -> Sub (XValue a) (XValue b)
  | S_tres n m : RES n m -> Sub (XTRes n) (XTRes m)
  | S_tfunc f g : FSub f g -> Sub (XTFunc f) (XTFunc g)
  | S_tvalue a b : VSub a b -> Sub (XTValue a) (XTValue b)
  | S_tinst ea eb : (forall k b, In (k, b) eb -> exists a, assoc k ea = Some a /\ Sub a b) ->
                    Sub (XTInst ea) (XTInst eb)
  | S_tcomp ia ea ib eb :
      (forall k a, In (k, a) ia -> exists b, assoc k ib = Some b /\ Sub b a) ->
      (forall k b, In (k, b) eb -> exists a, assoc k ea = Some a /\ Sub a b) ->
      Sub (XTComp ia ea) (XTComp ib eb)
  | S_tmod a b : MSub a b -> Sub (XTMod a) (XTMod b).
End Rules.

(** The property's relation: no rule relates two resources. *)
Definition NoRes (_ _ : str) : Prop := False.
Definition SubCM : tree -> tree -> Prop := Sub NoRes PageCM.

(** * Executable form (a decision procedure for [Sub]; proved equivalent in proofs/SubSpecProofs.v) *)
Section Decide.
  Variable res_b : str -> str -> bool.
  Variable pg_b : option N -> option N -> bool.

  Definition opt2_b {A} (p : A -> A -> bool) (a b : option A) : bool :=
    match a, b with None, None => true | Some x, Some y => p x y | _, _ => false end.
  Fixpoint forall2_b {A B} (p : A -> B -> bool) (a : list A) (b : list B) : bool :=
    match a, b with
    | [], [] => true
    | x :: a', y :: b' => p x y && forall2_b p a' b'
    | _, _ => false
    end.

  Fixpoint vsub_b (a b : vtree) {struct a} : bool :=
    match a, b with
    | VTPrim p, VTPrim q => prim_eqb p q
    | VTBorrow n, VTBorrow m | VTOwn n, VTOwn m => res_b n m
    | VTTuple x, VTTuple y =>
      (fix go (x : list vtree) (y : list vtree) : bool :=
         match x, y with
         | [], [] => true
         | u :: x', v :: y' => vsub_b u v && go x' y'
         | _, _ => false
         end) x y
    | VTList x, VTList y | VTOption x, VTOption y => vsub_b x y
    | VTFsl x n, VTFsl y m => (n =? m) && vsub_b x y
    | VTResult ao ae, VTResult bo be =>
      match ao, bo with None, None => true | Some u, Some v => vsub_b u v | _, _ => false end
      && match ae, be with None, None => true | Some u, Some v => vsub_b u v | _, _ => false end
    | VTVariant x, VTVariant y =>
      (fix go (x : list (str * option vtree)) (y : list (str * option vtree)) : bool :=
         match x, y with
         | [], [] => true
         | (n, u) :: x', (m, v) :: y' =>
           str_eqb n m
           && match u, v with None, None => true | Some u', Some v' => vsub_b u' v' | _, _ => false end
           && go x' y'
         | _, _ => false
         end) x y
    | VTRecord x, VTRecord y =>
      (fix go (x : list (str * vtree)) (y : list (str * vtree)) : bool :=
         match x, y with
         | [], [] => true
         | (n, u) :: x', (m, v) :: y' => str_eqb n m && vsub_b u v && go x' y'
         | _, _ => false
         end) x y
    | VTFlags x, VTFlags y | VTEnum x, VTEnum y => list_eqb str_eqb x y
    | VTStream x, VTStream y | VTFuture x, VTFuture y =>
      match x, y with None, None => true | Some u, Some v => vsub_b u v | _, _ => false end
    | _, _ => false
    end.

  Definition fsub_b (f g : ftree) : bool :=
    Bool.eqb (ft_async f) (ft_async g)
    && forall2_b (fun x y => str_eqb (fst x) (fst y) && vsub_b (snd x) (snd y)) (ft_params f) (ft_params g)
    && opt2_b vsub_b (ft_result f) (ft_result g).

  Definition limits_b (ai : N) (am : option N) (bi : N) (bm : option N) : bool :=
    (bi <=? ai) && match bm with
                   | None => true
                   | Some y => match am with Some x => x <=? y | None => false end
                   end.
  Definition esub_b (a b : coreextern) : bool :=
    match a, b with
    | CEFunc f, CEFunc g | CETag f, CETag g => corefunc_eqb f g
    | CETable ae ai am a64 ash, CETable be bi bm b64 bsh =>
      reftype_eqb ae be && limits_b ai am bi bm && Bool.eqb a64 b64 && Bool.eqb ash bsh
    | CEMemory a64 ash ai am ap, CEMemory b64 bsh bi bm bp =>
      Bool.eqb a64 b64 && Bool.eqb ash bsh && limits_b ai am bi bm
      && pg_b ap bp
    | CEGlobal av am ash, CEGlobal bv bm bsh => coretype_eqb av bv && Bool.eqb am bm && Bool.eqb ash bsh
    | _, _ => false
    end.
  Definition msub_b (a b : moduletype) : bool :=
    forallb (fun kx => match assoc2 (fst kx) (m_imports b) with
                       | Some y => esub_b y (snd kx) | None => false end) (m_imports a)
    && forallb (fun ky => match assoc (fst ky) (m_exports a) with
                          | Some x => esub_b x (snd ky) | None => false end) (m_exports b).

  (** Items: recursion on explicit fuel (the import rule swaps the sides). *)
  Fixpoint sub_f (n : nat) (a b : tree) : bool :=
    match n with
    | O => false
    | S n' =>
      let cov ea eb := forallb (fun kb => match assoc (fst kb) ea with
                                          | Some x => sub_f n' x (snd kb) | None => false end) eb in
      let contra ia ib := forallb (fun ka => match assoc (fst ka) ib with
                                             | Some y => sub_f n' y (snd ka) | None => false end) ia in
      match a, b with
      | XFunc f, XFunc g | XTFunc f, XTFunc g => fsub_b f g
      | XInst ea, XInst eb | XTInst ea, XTInst eb => cov ea eb
      | XComp ia ea, XComp ib eb | XTComp ia ea, XTComp ib eb => contra ia ib && cov ea eb
      | XMod x, XMod y | XTMod x, XTMod y => msub_b x y
      | XValue x, XValue y | XTValue x, XTValue y => vsub_b x y
      | XTRes n, XTRes m => res_b n m
      | _, _ => false
      end
    end.
End Decide.

Fixpoint list_max (l : list nat) : nat := match l with [] => O | x :: r => Nat.max x (list_max r) end.
Fixpoint tdepth (t : tree) : nat :=
  match t with
  | XInst e | XTInst e => S (list_max (map (fun kv => tdepth (snd kv)) e))
  | XComp i e | XTComp i e =>
    S (Nat.max (list_max (map (fun kv => tdepth (snd kv)) i)) (list_max (map (fun kv => tdepth (snd kv)) e)))
  | _ => 1%nat
  end.

Definition nores_b (_ _ : str) : bool := false.
Definition pagecm_b (a b : option N) : bool := page_log2 a =? page_log2 b.
Definition popt_eqb (a b : option N) : bool :=
  match a, b with Some x, Some y => x =? y | None, None => true | _, _ => false end.
(** The verdict of the specification on two trees. *)
Definition sub_b (a b : tree) : bool := sub_f nores_b pagecm_b (S (Nat.max (tdepth a) (tdepth b))) a b.
(** Same with resource names compared and page sizes compared as written (what the checker does). *)
Definition sub_names_b (a b : tree) : bool := sub_f str_eqb popt_eqb (S (Nat.max (tdepth a) (tdepth b))) a b.
