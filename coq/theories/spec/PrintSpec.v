(** Specification side of property C13 ("printing a parsed document and re-parsing it gives the same
    document"), written from the property text:

    - [sn] ("strip and normalise"): the tree with every source position removed ([strip]) and every
      list of doc comments replaced by the list of its non-empty trimmed lines ([norm_docs]); two
      documents are "identical up to source positions and doc-comment line splitting" when their [sn]
      images are equal;
    - [RoundTrip]: the printed text parses, and the tree it parses to is [sn]-equal to the original;
    - [Idempotent]: printing that second tree (from the printed text) reproduces the text;
    - the token view of a printed text ([atok]: kind, text, doc comments standing before it), used to
      state the token-level theorem, and [tokens_of_pieces] / [items_of_pieces], the token stream a
      lexer has to deliver for the pieces the printer wrote (used to state [render_lex]);
    - [wf_document]: the leaves of a tree are what the source text has at their spans (what
      [Document::parse] guarantees for its own result: [parse_wf]). *)
From WacV Require Import Str Token Lexer LexTables LexImpl Semver Ast Parser Printer.

(* ------------------------------------------------------------------ strip + norm_docs *)

Definition span0 : span := {| off := 0; slen := 0 |}.

(** The non-empty trimmed lines of a list of doc comments. *)
Definition doc_norm_text (text : str) : list str :=
  filter (fun l => negb (is_nil l)) (map trim (split_on c_nl text)).
Definition doc_norm (ds : list doc) : list str := flat_map (fun d => doc_norm_text (fst d)) ds.
Definition sn_docs (ds : list doc) : list doc := map (fun l => (l, span0)) (doc_norm ds).

Definition sn_ident (i : ident) : ident := {| id_string := id_string i; id_span := span0 |}.
Definition sn_strlit (s : strlit) : strlit := {| s_value := s_value s; s_span := span0 |}.
Definition sn_package_name (p : package_name) : package_name :=
  {| pn_string := pn_string p; pn_name := pn_name p; pn_version := pn_version p; pn_span := span0 |}.
Definition sn_package_path (p : package_path) : package_path :=
  {| pp_span := span0; pp_string := pp_string p; pp_name := pp_name p; pp_segments := pp_segments p;
     pp_version := pp_version p |}.

Fixpoint sn_ty (t : ty) : ty :=
  match t with
  | TyPrim p _ => TyPrim p span0
  | TyTuple ts _ => TyTuple (map sn_ty ts) span0
  | TyList t _ => TyList (sn_ty t) span0
  | TyOption t _ => TyOption (sn_ty t) span0
  | TyResult ok err _ => TyResult (option_map sn_ty ok) (option_map sn_ty err) span0
  | TyBorrow i _ => TyBorrow (sn_ident i) span0
  | TyBorrowTy t _ => TyBorrowTy (sn_ty t) span0
  | TyIdent i => TyIdent (sn_ident i)
  end.

Definition sn_named_type (n : named_type) : named_type :=
  {| nt_id := sn_ident (nt_id n); nt_ty := sn_ty (nt_ty n) |}.
Definition sn_result_list (r : result_list) : result_list :=
  match r with
  | RLEmpty => RLEmpty
  | RLScalar t => RLScalar (sn_ty t)
  | RLNamed rs => RLNamed (map sn_named_type rs)
  end.
Definition sn_func_type (f : func_type) : func_type :=
  {| ft_params := map sn_named_type (ft_params f); ft_results := sn_result_list (ft_results f) |}.
Definition sn_extern_name (n : extern_name) : extern_name :=
  match n with ENIdent i => ENIdent (sn_ident i) | ENString s => ENString (sn_strlit s) end.

Definition sn_variant_case (c : variant_case) : variant_case :=
  {| vc_docs := sn_docs (vc_docs c); vc_id := sn_ident (vc_id c); vc_ty := option_map sn_ty (vc_ty c) |}.
Definition sn_field (f : field) : field :=
  {| fd_docs := sn_docs (fd_docs f); fd_id := sn_ident (fd_id f); fd_ty := sn_ty (fd_ty f) |}.
Definition sn_flag (f : flag) : flag := {| fl_docs := sn_docs (fl_docs f); fl_id := sn_ident (fl_id f) |}.
Definition sn_enum_case (c : enum_case) : enum_case :=
  {| ec_docs := sn_docs (ec_docs c); ec_id := sn_ident (ec_id c) |}.

Definition sn_resource_method (m : resource_method) : resource_method :=
  match m with
  | RMConstructor docs _ ps => RMConstructor (sn_docs docs) span0 (map sn_named_type ps)
  | RMMethod docs i st f => RMMethod (sn_docs docs) (sn_ident i) st (sn_func_type f)
  end.

Definition sn_item_type_decl (d : item_type_decl) : item_type_decl :=
  match d with
  | DResource docs i ms => DResource (sn_docs docs) (sn_ident i) (map sn_resource_method ms)
  | DVariant docs i cs => DVariant (sn_docs docs) (sn_ident i) (map sn_variant_case cs)
  | DRecord docs i fs => DRecord (sn_docs docs) (sn_ident i) (map sn_field fs)
  | DFlags docs i fs => DFlags (sn_docs docs) (sn_ident i) (map sn_flag fs)
  | DEnum docs i cs => DEnum (sn_docs docs) (sn_ident i) (map sn_enum_case cs)
  | DAlias docs i k =>
      DAlias (sn_docs docs) (sn_ident i)
        (match k with TAFunc f => TAFunc (sn_func_type f) | TAType t => TAType (sn_ty t) end)
  end.

Definition sn_func_type_ref (t : func_type_ref) : func_type_ref :=
  match t with FRFunc f => FRFunc (sn_func_type f) | FRIdent i => FRIdent (sn_ident i) end.
Definition sn_use_path (p : use_path) : use_path :=
  match p with UPPackage p => UPPackage (sn_package_path p) | UPIdent i => UPIdent (sn_ident i) end.
Definition sn_use_item (u : use_item) : use_item :=
  {| ui_id := sn_ident (ui_id u); ui_as := option_map sn_ident (ui_as u) |}.
Definition sn_use (u : use_decl) : use_decl :=
  {| u_docs := sn_docs (u_docs u); u_path := sn_use_path (u_path u); u_items := map sn_use_item (u_items u) |}.

Definition sn_interface_item (it : interface_item) : interface_item :=
  match it with
  | IIUse u => IIUse (sn_use u)
  | IIType d => IIType (sn_item_type_decl d)
  | IIExport docs i t => IIExport (sn_docs docs) (sn_ident i) (sn_func_type_ref t)
  end.

Definition sn_extern_type (t : extern_type) : extern_type :=
  match t with
  | ETIdent i => ETIdent (sn_ident i)
  | ETFunc f => ETFunc (sn_func_type f)
  | ETInterface items => ETInterface (map sn_interface_item items)
  end.
Definition sn_world_item_path (p : world_item_path) : world_item_path :=
  match p with
  | WPNamed i t => WPNamed (sn_ident i) (sn_extern_type t)
  | WPPackage p => WPPackage (sn_package_path p)
  | WPIdent i => WPIdent (sn_ident i)
  end.
Definition sn_world_ref (w : world_ref) : world_ref :=
  match w with WRIdent i => WRIdent (sn_ident i) | WRPackage p => WRPackage (sn_package_path p) end.
Definition sn_include_item (it : include_item) : include_item :=
  {| ii_from := sn_ident (ii_from it); ii_to := sn_ident (ii_to it) |}.
Definition sn_world_item (w : world_item) : world_item :=
  match w with
  | WIUse u => WIUse (sn_use u)
  | WIType d => WIType (sn_item_type_decl d)
  | WIImport docs p => WIImport (sn_docs docs) (sn_world_item_path p)
  | WIExport docs p => WIExport (sn_docs docs) (sn_world_item_path p)
  | WIInclude docs w items => WIInclude (sn_docs docs) (sn_world_ref w) (map sn_include_item items)
  end.
Definition sn_type_statement (t : type_statement) : type_statement :=
  match t with
  | TSInterface docs i items => TSInterface (sn_docs docs) (sn_ident i) (map sn_interface_item items)
  | TSWorld docs i items => TSWorld (sn_docs docs) (sn_ident i) (map sn_world_item items)
  | TSType d => TSType (sn_item_type_decl d)
  end.
Definition sn_import_type (t : import_type) : import_type :=
  match t with
  | ITPackage p => ITPackage (sn_package_path p)
  | ITFunc f => ITFunc (sn_func_type f)
  | ITInterface items => ITInterface (map sn_interface_item items)
  | ITIdent i => ITIdent (sn_ident i)
  end.
Definition sn_arg_name (n : arg_name) : arg_name :=
  match n with ANIdent i => ANIdent (sn_ident i) | ANString s => ANString (sn_strlit s) end.
Definition sn_postfix (p : postfix_expr) : postfix_expr :=
  match p with
  | PAccess _ i => PAccess span0 (sn_ident i)
  | PNamedAccess _ s => PNamedAccess span0 (sn_strlit s)
  end.

Fixpoint sn_expr (x : expr) : expr :=
  match x with Expr _ p post => Expr span0 (sn_primary p) (map sn_postfix post) end
with sn_primary (p : primary_expr) : primary_expr :=
  match p with
  | PNew _ pkg args =>
      PNew span0 (sn_package_name pkg)
        ((fix go (l : list inst_arg) : list inst_arg :=
            match l with [] => [] | a :: r => sn_arg a :: go r end) args)
  | PNested _ inner => PNested span0 (sn_expr inner)
  | PIdent i => PIdent (sn_ident i)
  end
with sn_arg (a : inst_arg) : inst_arg :=
  match a with
  | AInferred i => AInferred (sn_ident i)
  | ASpread i => ASpread (sn_ident i)
  | ANamed n x => ANamed (sn_arg_name n) (sn_expr x)
  | AFill _ => AFill span0
  end.

Definition sn_export_options (o : export_options) : export_options :=
  match o with
  | EONone => EONone
  | EOSpread _ => EOSpread span0
  | EORename n => EORename (sn_extern_name n)
  end.
Definition sn_statement (s : statement) : statement :=
  match s with
  | SImport docs i name t =>
      SImport (sn_docs docs) (sn_ident i) (option_map sn_extern_name name) (sn_import_type t)
  | SType t => SType (sn_type_statement t)
  | SLet docs i x => SLet (sn_docs docs) (sn_ident i) (sn_expr x)
  | SExport docs x o => SExport (sn_docs docs) (sn_expr x) (sn_export_options o)
  end.
Definition sn_directive (d : package_directive) : package_directive :=
  {| pd_package := sn_package_name (pd_package d); pd_targets := option_map sn_package_path (pd_targets d) |}.

(** [strip (norm_docs d)] *)
Definition sn (d : document) : document :=
  {| doc_docs := sn_docs (doc_docs d); doc_directive := sn_directive (doc_directive d);
     doc_statements := map sn_statement (doc_statements d) |}.

(* ------------------------------------------------------------------ the property *)

(** [Document::parse] of the model. *)
Definition reparse (text : str) : pres document := parse_document impl_flags impl_cfg text.

(** The printer does not panic, its text parses, and the tree is the original one up to source
    positions and doc-comment line splitting. *)
Definition RoundTrip (fx : fixes) (src : str) (d : document) : Prop :=
  exists text d', print fx src d = Some text /\ reparse text = POk d' [] /\ sn d' = sn d.

(** Printing the re-parsed tree (out of the printed text) reproduces the text byte for byte. *)
Definition Idempotent (fx : fixes) (src : str) (d : document) : Prop :=
  forall text d', print fx src d = Some text -> reparse text = POk d' [] -> print fx text d' = Some text.

(* ------------------------------------------------------------------ token view of the printed text *)

(** A token without its position: kind, text, and the texts of the doc comments before it. *)
Definition atok : Set := (token * str * list str)%type.
Definition erase (t : rtoken) : atok := (tk t, ttext t, map fst (tdocs t)).

(** What [Lexer::comments] makes of the comment the printer wrote for one doc line. *)
Definition doc_of_line (l : str) : str := trim (32 :: l).

Definition slice_or_nil (src : str) (sp : span) : str :=
  match slice src sp with Some t => t | None => [] end.

(** The tokens a list of printer commands writes ([docs]: doc lines written since the last token). *)
Fixpoint catoks (src : str) (docs : list str) (cs : list cmd) : list atok :=
  match cs with
  | [] => []
  | CTok k :: r => (k, fixed_text k, docs) :: catoks src [] r
  | CSrc k sp :: r => (k, slice_or_nil src sp, docs) :: catoks src [] r
  | CDoc l :: r => catoks src (docs ++ [doc_of_line l]) r
  | _ :: r => catoks src docs r
  end.

(** The same from the pieces written. *)
Fixpoint patoks (docs : list str) (ps : list piece) : list atok :=
  match ps with
  | [] => []
  | PcTok k t :: r => (k, t, docs) :: patoks [] r
  | PcDoc l :: r => patoks (docs ++ [doc_of_line l]) r
  | PcWs _ :: r => patoks docs r
  end.

(** The token stream, with byte spans, that the pieces denote: what the lexer must return for
    [text_of ps] if no two pieces fuse ([render_lex]). [o]: byte offset of the first piece. *)
Fixpoint tokens_of_pieces (o : N) (docs : list doc) (ps : list piece) : list rtoken :=
  match ps with
  | [] => []
  | PcTok k t :: r =>
      {| tk := k; tsp := {| off := o; slen := byte_len t |}; ttext := t; tdocs := docs |}
      :: tokens_of_pieces (o + byte_len t) [] r
  | PcDoc l :: r =>
      let text := doc_prefix ++ l in     (* the comment token; the line feed after it is not part of it *)
      tokens_of_pieces (o + byte_len text + 1)
                       (docs ++ [(doc_of_line l, {| off := o; slen := byte_len text |})]) r
  | PcWs s :: r => tokens_of_pieces (o + byte_len s) docs r
  end.

Definition items_of_pieces (ps : list piece) : list lexitem := map LTok (tokens_of_pieces 0 [] ps).

(** The one condition that concerns the lexer's keyword-before-colon artefact: an identifier piece
    whose text is spelled like a keyword is directly followed by the colon piece. (Decidable; vacuous
    when no identifier is spelled like a keyword.) *)
Definition kw_text (t : str) : bool := match lookup_str t (keywords impl_cfg) with Some _ => true | None => false end.
Fixpoint kwcb (ps : list piece) : bool :=
  match ps with
  | [] => true
  | PcTok TIdent t :: r =>
      (negb (kw_text t) || match r with PcTok _ (c :: _) :: _ => (c =? c_colon)%N | _ => false end) && kwcb r
  | _ :: r => kwcb r
  end.

(* ------------------------------------------------------------------ well-formed trees *)

Definition tok_at (k : token) (sp : span) (text : str) : rtoken :=
  {| tk := k; tsp := sp; ttext := text; tdocs := [] |}.

Section WF.
Variable src : str.

Definition wf_ident (i : ident) : Prop :=
  exists t, slice src (id_span i) = Some t /\ id_string i = id_string (mk_ident (tok_at TIdent span0 t)).
Definition wf_strlit (s : strlit) : Prop :=
  exists t, slice src (s_span s) = Some t /\ unquote t = Some (s_value s).
Definition wf_package_name (p : package_name) : Prop :=
  exists t, slice src (pn_span p) = Some t /\ package_name_of (tok_at TPackageName (pn_span p) t) = LeafOk p.
Definition wf_package_path (p : package_path) : Prop :=
  exists t, slice src (pp_span p) = Some t /\ package_path_of (tok_at TPackagePath (pp_span p) t) = LeafOk p.

Fixpoint wf_ty (t : ty) : Prop :=
  match t with
  | TyPrim _ _ => True
  | TyTuple ts _ =>
      ts <> [] /\ (fix all (l : list ty) : Prop := match l with [] => True | x :: r => wf_ty x /\ all r end) ts
  | TyList t _ | TyOption t _ => wf_ty t
  | TyResult ok err _ =>
      match ok with Some t => wf_ty t | None => True end /\ match err with Some t => wf_ty t | None => True end
  | TyBorrow i _ => wf_ident i
  | TyBorrowTy _ _ => False
  | TyIdent i => wf_ident i
  end.

Fixpoint All {A} (P : A -> Prop) (l : list A) : Prop :=
  match l with [] => True | x :: r => P x /\ All P r end.

Definition wf_named_type (n : named_type) : Prop := wf_ident (nt_id n) /\ wf_ty (nt_ty n).
Definition wf_func_type (f : func_type) : Prop :=
  All wf_named_type (ft_params f) /\
  match ft_results f with RLEmpty => True | RLScalar t => wf_ty t | RLNamed _ => False end.
Definition wf_extern_name (n : extern_name) : Prop :=
  match n with ENIdent i => wf_ident i | ENString s => wf_strlit s end.

Definition wf_resource_method (m : resource_method) : Prop :=
  match m with
  | RMConstructor _ _ ps => All wf_named_type ps
  | RMMethod _ i _ f => wf_ident i /\ wf_func_type f
  end.

Definition wf_item_type_decl (d : item_type_decl) : Prop :=
  match d with
  | DResource _ i ms => wf_ident i /\ All wf_resource_method ms
  | DVariant _ i cs =>
      wf_ident i /\ cs <> [] /\
      All (fun c => wf_ident (vc_id c) /\ match vc_ty c with Some t => wf_ty t | None => True end) cs
  | DRecord _ i fs => wf_ident i /\ fs <> [] /\ All (fun f => wf_ident (fd_id f) /\ wf_ty (fd_ty f)) fs
  | DFlags _ i fs => wf_ident i /\ fs <> [] /\ All (fun f => wf_ident (fl_id f)) fs
  | DEnum _ i cs => wf_ident i /\ cs <> [] /\ All (fun c => wf_ident (ec_id c)) cs
  | DAlias _ i k => wf_ident i /\ match k with TAFunc f => wf_func_type f | TAType t => wf_ty t end
  end.

Definition is_resource (d : item_type_decl) : bool := match d with DResource _ _ _ => true | _ => false end.

Definition wf_use (u : use_decl) : Prop :=
  match u_path u with UPPackage p => wf_package_path p | UPIdent i => wf_ident i end /\
  All (fun it => wf_ident (ui_id it) /\ match ui_as it with Some a => wf_ident a | None => True end) (u_items u).

Definition wf_interface_item (it : interface_item) : Prop :=
  match it with
  | IIUse u => wf_use u
  | IIType d => wf_item_type_decl d
  | IIExport _ i t => wf_ident i /\ match t with FRFunc f => wf_func_type f | FRIdent j => wf_ident j end
  end.

Definition wf_extern_type (t : extern_type) : Prop :=
  match t with
  | ETIdent i => wf_ident i
  | ETFunc f => wf_func_type f
  | ETInterface items => All wf_interface_item items
  end.
Definition wf_world_item_path (p : world_item_path) : Prop :=
  match p with
  | WPNamed i t => wf_ident i /\ wf_extern_type t
  | WPPackage p => wf_package_path p
  | WPIdent i => wf_ident i
  end.
Definition wf_world_item (w : world_item) : Prop :=
  match w with
  | WIUse u => wf_use u
  | WIType d => wf_item_type_decl d
  | WIImport _ p | WIExport _ p => wf_world_item_path p
  | WIInclude _ w items =>
      match w with WRIdent i => wf_ident i | WRPackage p => wf_package_path p end /\
      All (fun it => wf_ident (ii_from it) /\ wf_ident (ii_to it)) items
  end.
Definition wf_type_statement (t : type_statement) : Prop :=
  match t with
  | TSInterface _ i items => wf_ident i /\ All wf_interface_item items
  | TSWorld _ i items => wf_ident i /\ All wf_world_item items
  | TSType d => is_resource d = false /\ wf_item_type_decl d
  end.

Definition wf_postfix (p : postfix_expr) : Prop :=
  match p with PAccess _ i => wf_ident i | PNamedAccess _ s => wf_strlit s end.

Fixpoint wf_expr (x : expr) : Prop :=
  match x with Expr _ p post => wf_primary p /\ All wf_postfix post end
with wf_primary (p : primary_expr) : Prop :=
  match p with
  | PNew _ pkg args =>
      wf_package_name pkg /\
      (fix all (l : list inst_arg) : Prop := match l with [] => True | a :: r => wf_arg a /\ all r end) args
  | PNested _ inner => wf_expr inner
  | PIdent i => wf_ident i
  end
with wf_arg (a : inst_arg) : Prop :=
  match a with
  | AInferred i | ASpread i => wf_ident i
  | ANamed n x => match n with ANIdent i => wf_ident i | ANString s => wf_strlit s end /\ wf_expr x
  | AFill _ => True
  end.

Definition wf_statement (s : statement) : Prop :=
  match s with
  | SImport _ i name t =>
      wf_ident i /\ match name with Some n => wf_extern_name n | None => True end /\
      match t with
      | ITPackage p => wf_package_path p
      | ITFunc f => wf_func_type f
      | ITInterface items => All wf_interface_item items
      | ITIdent j => wf_ident j
      end
  | SType t => wf_type_statement t
  | SLet _ i x => wf_ident i /\ wf_expr x
  | SExport _ x o => wf_expr x /\ match o with EORename n => wf_extern_name n | _ => True end
  end.

Definition wf_document (d : document) : Prop :=
  wf_package_name (pd_package (doc_directive d)) /\
  match pd_targets (doc_directive d) with Some p => wf_package_path p | None => True end /\
  All wf_statement (doc_statements d).

End WF.
