(** Lexical tables written from LANGUAGE.md (section "WAC Grammar") and from the text of property
    C12 -- not from the Rust source. [doc_cfg] is the lexer configuration of the documented language. *)
From Coq Require Import String.
From WacV Require Import Str StrLit Token Lexer.

(** Every quoted (or, for the primitive types, bare) word of the EBNF. *)
Definition doc_keywords : list (str * token) := [
  (L"package", TPackageKeyword); (L"targets", TTargetsKeyword);
  (L"import", TImportKeyword); (L"as", TAsKeyword);
  (L"interface", TInterfaceKeyword); (L"use", TUseKeyword); (L"world", TWorldKeyword);
  (L"export", TExportKeyword); (L"include", TIncludeKeyword); (L"with", TWithKeyword);
  (L"resource", TResourceKeyword); (L"constructor", TConstructorKeyword);
  (L"static", TStaticKeyword); (L"variant", TVariantKeyword); (L"record", TRecordKeyword);
  (L"flags", TFlagsKeyword); (L"enum", TEnumKeyword); (L"type", TTypeKeyword);
  (L"func", TFuncKeyword);
  (L"u8", TU8Keyword); (L"s8", TS8Keyword); (L"u16", TU16Keyword); (L"s16", TS16Keyword);
  (L"u32", TU32Keyword); (L"s32", TS32Keyword); (L"u64", TU64Keyword); (L"s64", TS64Keyword);
  (L"f32", TF32Keyword); (L"f64", TF64Keyword); (L"char", TCharKeyword);
  (L"bool", TBoolKeyword); (L"string", TStringKeyword);
  (L"tuple", TTupleKeyword); (L"list", TListKeyword); (L"option", TOptionKeyword);
  (L"result", TResultKeyword); (L"borrow", TBorrowKeyword);
  (L"let", TLetKeyword); (L"new", TNewKeyword) ].

(** Every quoted punctuation of the EBNF ([/] and [@] occur inside package paths and names). *)
Definition doc_symbols : list (str * token) := [
  (L";", TSemicolon); (L"{", TOpenBrace); (L"}", TCloseBrace); (L":", TColon);
  (L"=", TEquals); (L"(", TOpenParen); (L")", TCloseParen); (L"->", TArrow);
  (L"<", TOpenAngle); (L">", TCloseAngle); (L"_", TUnderscore); (L"[", TOpenBracket);
  (L"]", TCloseBracket); (L".", TDot); (L"...", TEllipsis); (L",", TComma);
  (L"/", TSlash); (L"@", TAt) ].

(** Property C12: "any text containing a bidirectional-override, deprecated or control code point
    other than tab, CR and LF". Bidirectional overrides/isolates (CVE-2021-42574): U+202A..U+202E,
    U+2066..U+2069. Deprecated/discouraged (Unicode 13, as in the WIT specification): U+0149,
    U+0673, U+0F77, U+0F79, U+17A3, U+17A4, U+17B4, U+17B5. *)
Definition doc_allowed_controls : list N := [9; 10; 13].
Definition doc_bidi : list N := [8234; 8235; 8236; 8237; 8238; 8294; 8295; 8296; 8297].
Definition doc_deprecated : list N := [329; 1651; 3959; 3961; 6051; 6052; 6068; 6069].

Definition doc_screen_arms : list screen_arm :=
  [ArmAllow doc_allowed_controls; ArmReject SEBidi doc_bidi; ArmReject SEDiscouraged doc_deprecated;
   ArmControl SEControl; ArmWild].

Definition doc_cfg : lexcfg :=
  {| keywords := doc_keywords; symbols := doc_symbols; allow_upper := false; arms := doc_screen_arms;
     q_dash := false; q_kwcolon := false; q_pkgzone := false |}.
