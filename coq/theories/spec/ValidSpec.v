(** Property C01, the part of "a valid component" that is stated here (the component-model validator itself is
    an oracle): executable predicates on the item log / decoded wiring of an encoded composition, written from
    the property text and from what the validator demands of an instantiate item:
      - every index refers to an earlier item of the right sort ([Wiring.log_in_scope]);
      - an instantiate item passes EXACTLY one argument per import of the instantiated component: no import is
        missing ("missing import"), none is passed twice ("duplicate argument"), nothing else is passed;
      - every argument edge of the composition graph was accepted by the subtype oracle ([args_checked_b]). *)
From Coq Require Import List Arith Bool NArith.
From WacV Require Import Str Graph Wiring WiringSpec.
Import ListNotations.
Local Open Scope nat_scope.

Fixpoint count_str (x : str) (l : list str) : nat :=
  match l with
  | [] => 0
  | y :: r => (if str_eqb y x then 1 else 0) + count_str x r
  end.

(** the two lists have the same elements with the same multiplicities *)
Definition same_names (a b : list str) : Prop := forall x, count_str x a = count_str x b.

Definition same_namesb (a b : list str) : bool :=
  (length a =? length b) && forallb (fun x => count_str x a =? count_str x b) a.

Definition arg_name (a : parg) : str := fst (fst a).

(** which universe package an instantiated component is: an embedded component is identified by its bytes, an
    imported one by the name of the component import *)
Definition pkg_of_prov (e : wenv) (npk : nat) (pr : prov) : option nat :=
  find (fun p => match pr with
                 | PComp d => N.eqb d (we_digest e p)
                 | PImp nm => str_eqb nm (pkg_import_name e p)
                 | _ => false
                 end) (seq 0 npk).

Definition import_names (e : wenv) (u : universe) (p : nat) : option (list str) :=
  match nth_error (u_pkgs u) p with
  | Some pd => Some (map (fun x : name * kid => nstr e (fst x)) (pd_imports pd))
  | None => None
  end.

Definition inst_item_complete (e : wenv) (u : universe) (wi : winst) : bool :=
  match wi with
  | WInst comp args =>
      match pkg_of_prov e (length (u_pkgs u)) comp with
      | Some p => match import_names e u p with
                  | Some names => same_namesb (map arg_name args) names
                  | None => false
                  end
      | None => false     (* an instantiation of something that is not a registered package *)
      end
  | WBag _ => true
  end.

(** every instantiate item of the decoded output passes exactly the imports of its component *)
Definition inst_complete_b (e : wenv) (u : universe) (w : wiring) : bool := forallb (inst_item_complete e u) (w_insts w).

(** the same question asked of the composition graph: indices passed explicitly, indices left to implicit imports *)
Definition explicit_idx (g : gstate) (n : nat) : list nat :=
  flat_map (fun ed => match ek ed with EArg i => [i] | _ => [] end) (incoming g n).
Definition implicit_idx (sat : list nat) (len : nat) : list nat :=
  filter (fun i => negb (existsb (Nat.eqb i) sat)) (seq 0 len).

(** every argument edge satisfies the subtype oracle and designates an import of the target's package *)
Definition edge_checked_b (u : universe) (g : gstate) (ed : edge) : bool :=
  match ek ed with
  | EArg i =>
      match get_node g (esrc ed), get_node g (etgt ed) with
      | Some sn, Some tn =>
          match inst_imports u g tn with
          | Some imps => match nth_error imps i with Some (_, k) => u_sub u (nitem sn) k | None => false end
          | None => false
          end
      | _, _ => false
      end
  | _ => true
  end.
Definition args_checked_b (u : universe) (g : gstate) : bool := forallb (edge_checked_b u g) (edges g).
