(** Declarative reading of property C10, written from the property text (not from plug.rs).

    The sentence is read IMPORT-first (DESIGN.md section 8):

      "each socket import for which a plug exports a type-compatible item under the same name (or,
       failing that, a semver-compatible name) is supplied by that plug's export; every other socket
       import remains an import of the result; every socket export is exported under its own name; a
       plug contributing nothing is not instantiated.  If two plugs both offer a compatible item for
       the same socket import the operation fails rather than choosing silently; it reports that no
       plugging happened exactly when no socket import could be supplied."

    For a socket import [i = (m, t)] and one plug with world exports [exps]:
      [offer exps i] = the export the plug offers for [i]: its export named [m] if that is
      type-compatible with [t]; failing that, its first export whose name is semver-compatible with
      [m] and whose kind is type-compatible with [t].
    [suppliers plugs i] = the plugs (by position in the ordered list) that offer something for [i].
    The verdict: failure if some import has two suppliers; "no plugging happened" if no import has a
    supplier; otherwise success with the wiring  import |-> its unique supplier / stays an import. *)
From Coq Require Import List Arith Bool NArith.
From WacV Require Import Str Names Graph Plug.
Import ListNotations.

Section Spec.
  Variable text : name -> str.
  Variable sub : kid -> kid -> bool.

  Definition offer (exps : list item) (i : item) : option name :=
    match find (fun e => N.eqb (fst e) (fst i) && sub (snd e) (snd i)) exps with
    | Some e => Some (fst e)
    | None =>
        match find (fun e => compat (text (fst e)) (text (fst i)) && sub (snd e) (snd i)) exps with
        | Some e => Some (fst e)
        | None => None
        end
    end.

  (** positions (from [k]) of the plugs offering something for [i], with the offered export *)
  Fixpoint suppliers_from (k : nat) (plugs : list (list item)) (i : item) : list (nat * name) :=
    match plugs with
    | [] => []
    | exps :: r =>
        match offer exps i with
        | Some e => (k, e) :: suppliers_from (S k) r i
        | None => suppliers_from (S k) r i
        end
    end.
  Definition suppliers := suppliers_from 0.

  Inductive verdict :=
    | VFail                                                  (* two plugs offer for one import *)
    | VNoPlug                                                (* nothing could be supplied *)
    | VOk (wiring : list (name * option (nat * name))).      (* per socket import, in import order *)

  Definition spec_plug (imps : list item) (plugs : list (list item)) : verdict :=
    let sup := map (fun i => (fst i, suppliers plugs i)) imps in
    if existsb (fun x => Nat.leb 2 (length (snd x))) sup then VFail
    else if forallb (fun x => match snd x with [] => true | _ => false end) sup then VNoPlug
    else VOk (map (fun x => (fst x, match snd x with [s] => Some s | _ => None end)) sup).

  (** the plugs (positions) that contribute nothing *)
  Definition idle (imps : list item) (plugs : list (list item)) (k : nat) : bool :=
    forallb (fun i => negb (existsb (fun x => Nat.eqb (fst x) k) (suppliers plugs i))) imps.

  (** The hypotheses under which the export-first algorithm of plug.rs and this reading agree:
      no two different names of the list lie on one semver track. *)
  Definition tracks_distinct (l : list name) : Prop :=
    forall a b, In a l -> In b l -> compat (text a) (text b) = true -> a = b.

  Fixpoint tracks_distinct_b (l : list name) : bool :=
    match l with
    | [] => true
    | a :: r => forallb (fun b => N.eqb a b || negb (compat (text a) (text b))) r && tracks_distinct_b r
    end.
End Spec.

(** * What the result graph says (queries of [Graph.v]) *)

(** the socket import [m] is an argument of [sock], supplied by the alias of export [e] of an
    instantiation of package [p] *)
Definition supplied_by (u : universe) (s : gstate) (sock : nat) (m : name) (p : pkgid) (e : name) : Prop :=
  exists a n nd sat,
    In (m, a) (get_args u s sock) /\ (forall a', In (m, a') (get_args u s sock) -> a' = a) /\
    get_alias_source u s a = Some (n, e) /\
    get_node s n = Some nd /\ nk nd = NInst sat /\ npkg nd = Some p.

(** the socket import [(m, t)] is not an argument and is listed among the imports of the result *)
Definition stays_import (u : universe) (s : gstate) (sock : nat) (m : name) (t : kid) : Prop :=
  (forall a, ~ In (m, a) (get_args u s sock)) /\ In (m, t, None) (list_imports u s).

(** the socket export [x] is exported under its own name: the graph export [x] is the alias of
    export [x] of the socket instantiation *)
Definition reexported (u : universe) (s : gstate) (sock : nat) (x : name) : Prop :=
  exists a, alist_get N.eqb (exports s) x = Some a /\ get_alias_source u s a = Some (sock, x).

(** no node of the graph belongs to package [p] *)
Definition not_instantiated (s : gstate) (p : pkgid) : Prop :=
  forall n nd, get_node s n = Some nd -> npkg nd <> Some p.

(** a graph in which nothing was built yet (packages may be registered) *)
Definition blank (s : gstate) : Prop :=
  nodes s = [] /\ free_nodes s = [] /\ edges s = [] /\ exports s = [].

(** the data of a case: socket imports, socket exports, exports of every plug (in list order) *)
Definition resolved (pu : puniverse) (s : gstate) (plugs : list pkgid) (socket : pkgid)
           (imps sx : list item) (pls : list (list item)) : Prop :=
  (exists sd, pkg_desc pu s socket = Some sd /\ pd_imports sd = imps /\ u_inst_exports pu (pd_inst sd) = Some sx) /\
  Forall2 (fun p exps => exists pd, pkg_desc pu s p = Some pd /\ u_inst_exports pu (pd_inst pd) = Some exps) plugs pls.

(** IndexMap keys are unique; export names of a validated component are valid extern names *)
Definition wf_case (pu : puniverse) (imps sx : list item) (pls : list (list item)) : Prop :=
  NoDup (map fst imps) /\ NoDup (map fst sx) /\ Forall (fun exps => NoDup (map fst exps)) pls /\
  Forall (fun x => u_export_name_ok pu (fst x) = true) sx.

(** a case as the property quantifies it: a blank graph with the packages registered *)
Definition plug_case (pu : puniverse) (s : gstate) (plugs : list pkgid) (socket : pkgid)
           (imps sx : list item) (pls : list (list item)) : Prop :=
  blank s /\ resolved pu s plugs socket imps sx pls /\ wf_case pu imps sx pls.

(** the socket imports no two names on one semver track *)
Definition socket_tracks_distinct (pu : puniverse) (imps : list item) : Prop :=
  tracks_distinct (pu_name_text pu) (map fst imps).
(** no plug exports two names on one semver track (needed before repair 7db12e7 only; kept for the driver's H= flag) *)
Definition plug_tracks_distinct (pu : puniverse) (pls : list (list item)) : Prop :=
  Forall (fun exps => tracks_distinct (pu_name_text pu) (map fst exps)) pls.

(** executable form of [resolved] (used by the driver and by the refutation witnesses) *)
Definition case_data (pu : puniverse) (s : gstate) (plugs : list pkgid) (socket : pkgid)
  : option (list item * list item * list (list item)) :=
  match pkg_desc pu s socket with
  | None => None
  | Some sd =>
      match u_inst_exports pu (pd_inst sd) with
      | None => None
      | Some sx =>
          let pls := map (fun p => match pkg_desc pu s p with
                                   | Some pd => u_inst_exports pu (pd_inst pd)
                                   | None => None end) plugs in
          if forallb (fun o => match o with Some _ => true | None => false end) pls
          then Some (pd_imports sd, sx, flat_map (fun o => match o with Some x => [x] | None => [] end) pls)
          else None
      end
  end.
