From Coq Require Import ExtrOcamlBasic NArith.
From WacV Require Import Str Names Graph Plug PlugSpec.
Extraction Language OCaml.
Extraction "../build/c10/model.ml"
  N.of_nat N.to_nat empty_graph register register_all plug sock_node node_ids get_node get_alias_source get_args
  list_imports get_pkg find_pkg_slot incoming outgoing alist_get
  compat find_target plug_matches plug_pairs offer suppliers spec_plug idle tracks_distinct_b case_data.
