From Coq Require Import ExtrOcamlBasic.
From WacV Require Import Str Ord Semver Names NamesSpec Show.
Extraction Language OCaml.
Definition show_version (v : version) : str :=
  show_N (major v) ++ [c_dot] ++ show_N (minor v) ++ [c_dot] ++ show_N (patch v)
  ++ (if is_nil (pre v) then [] else c_dash :: pre v)
  ++ (if is_nil (build v) then [] else c_plus :: build v).
Extraction "../build/c15/model.ml"
  N.of_nat show_version parse_version cmp_version alt_key compat nm_build nm_get nm_insert nm_empty
  compat_spec_b spec_get track_of name_track.
