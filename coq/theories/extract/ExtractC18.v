From Coq Require Import ExtrOcamlBasic.
From WacV Require Import Str FsResolve FsSpec.
Extraction Language OCaml.
Extraction "../build/c18/model.ml"
  N.of_nat N.compare resolve_one resolve_one_fixed resolve_all is_failure spec fs_of_list suffixed_dir_chosen key_wfb base suffixed applicable_override
  s_wasm s_wat s_wit.
