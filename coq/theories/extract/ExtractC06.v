From Coq Require Import ExtrOcamlBasic NArith.
From WacV Require Import Graph.
Extraction Language OCaml.
Extraction "../build/c06/model.ml"
  N.of_nat N.to_nat empty_graph step run node_ids get_node get_alias_source get_args list_imports
  get_pkg find_pkg_slot incoming outgoing alist_get.
