From Coq Require Import ExtrOcamlBasic.
From WacV Require Import Str Names NamesSpec Types Checker SubSpec Aggregator AggregatorSpec.
Extraction Language OCaml.
Extraction "../build/c09/model.ml"
  N.of_nat mktypes mkid mkres mkfunc mkif mkworld mkmod mkcf mkref
  aggregate aggregate_all agg0 imports canonical a_types a_imports a_redirects a_ifaces
  check st0 unfold resfree sub_b sub_names_b
  spec_canonical spec_merge uses_conflict tmerge tequiv same_track alt_key compat.
