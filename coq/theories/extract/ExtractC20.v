From Coq Require Import ExtrOcamlBasic.
From WacV Require Import Str Ord Semver Registry RegistrySpec Show.
Extraction Language OCaml.
Definition show_version20 (v : version) : str :=
  show_N (major v) ++ [c_dot] ++ show_N (minor v) ++ [c_dot] ++ show_N (patch v)
  ++ (if is_nil (pre v) then [] else c_dash :: pre v)
  ++ (if is_nil (build v) then [] else c_plus :: build v).
Extraction "../build/c20/model.ml"
  N.of_nat show_version20 parse_version str_eqb pkey_eqb
  resolve tasks_of resolve_fixed tasks_of_fixed perms spec_check key_outcome_b.
