From Coq Require Import ExtrOcamlBasic NArith.
From WacV Require Import Graph Wiring WiringSpec EncodeModel ValidSpec.
Extraction Language OCaml.
Extraction "../build/c01/model.ml"
  N.of_nat N.to_nat empty_graph step node_ids get_node get_alias_source get_args list_imports
  get_pkg find_pkg_slot incoming outgoing alist_get inst_imports
  decode_wiring erase_defs mark_deps log_in_scope
  wiring_spec spec_imports def_names topo_orderb is_inst
  toposort encode_with_order tau_replay unmark
  inst_complete_b inst_item_complete args_checked_b explicit_idx implicit_idx same_namesb.
