From Coq Require Import ExtrOcamlBasic NArith.
From WacV Require Import Graph Wiring WiringSpec EncodeModel.
Extraction Language OCaml.
Extraction "../build/c02/model.ml"
  N.of_nat N.to_nat empty_graph step node_ids get_node get_alias_source get_args list_imports
  get_pkg find_pkg_slot incoming outgoing alist_get
  decode_wiring decode_imports erase_defs mark_deps log_in_scope
  wiring_spec canon spec_import_needs spec_imports spec_export_names def_names topo_orderb
  toposort encode_with_order tau_replay unmark.
