(** Extraction for the C04 correspondence: the C12 parser under the implementation's tables, the
    resolver model, the graph queries used to print the dump, and the reference evaluation of
    LangSpec with its comparison against an observed graph. *)
From Coq Require Import ExtrOcamlBasic NArith.
From WacV Require Import Str Token Lexer LexImpl Semver Ast Parser Graph Resolver LangSpec.
Extraction Language OCaml.

Definition parse_impl (src : str) : pres document := parse_document impl_flags impl_cfg src.

Extraction "../build/c04/model.ml"
  N.of_nat N.to_nat parse_impl parse_version version_eqb resolve
  node_ids get_node get_alias_source get_args list_imports find_pkg_slot outgoing alist_get
  denote doc_flags impl_flags_c04 binding_value.
