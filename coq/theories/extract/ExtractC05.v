(** Extraction for the C05 correspondence: the same WAC source text is parsed by the parser model
    (implementation flags), resolved by the declaration model [Decls.v] and, independently, denoted by
    [WitDenote.v]; both print one canonical observation line. *)
From Coq Require Import ExtrOcamlBasic String.
From WacV Require Import Str StrLit Show Token Lexer LexTables LexImpl Semver Parser Types Decls WitDenote.
From WacV Require Ast.
Extraction Language OCaml.

Definition sep (s : str) (f : str) (l : list str) : str :=
  (fix go l := match l with
               | [] => []
               | [x] => x
               | x :: r => x ++ s ++ go r
               end) l.
Definition comma := sep L"," [].

Definition show_prim (p : prim) : str :=
  match p with
  | PU8 => L"u8" | PS8 => L"s8" | PU16 => L"u16" | PS16 => L"s16" | PU32 => L"u32" | PS32 => L"s32"
  | PU64 => L"u64" | PS64 => L"s64" | PF32 => L"f32" | PF64 => L"f64" | PChar => L"char" | PBool => L"bool"
  | PString => L"string" | PErrorContext => L"error-context"
  end.

Fixpoint show_vt (t : vtree) : str :=
  let o x := match x with Some y => show_vt y | None => L"_" end in
  match t with
  | VTPrim p => show_prim p
  | VTBorrow n => L"borrow(" ++ n ++ L")"
  | VTOwn n => L"own(" ++ n ++ L")"
  | VTTuple l => L"tuple(" ++ comma (map show_vt l) ++ L")"
  | VTList x => L"list(" ++ show_vt x ++ L")"
  | VTFsl x n => L"fsl(" ++ show_vt x ++ L"," ++ show_N n ++ L")"
  | VTOption x => L"option(" ++ show_vt x ++ L")"
  | VTResult a b => L"result(" ++ o a ++ L"," ++ o b ++ L")"
  | VTVariant c => L"variant(" ++ comma (map (fun kv => fst kv ++ match snd kv with Some y => L":" ++ show_vt y | None => [] end) c) ++ L")"
  | VTRecord f => L"record(" ++ comma (map (fun kv => fst kv ++ L":" ++ show_vt (snd kv)) f) ++ L")"
  | VTFlags l => L"flags(" ++ comma l ++ L")"
  | VTEnum l => L"enum(" ++ comma l ++ L")"
  | VTStream x => L"stream(" ++ o x ++ L")"
  | VTFuture x => L"future(" ++ o x ++ L")"
  end.

Definition show_ft (f : ftree) : str :=
  (if ft_async f then L"async " else []) ++
  L"func(" ++ comma (map (fun kv => fst kv ++ L":" ++ show_vt (snd kv)) (Types.ft_params f)) ++ L")->" ++
  match ft_result f with Some y => show_vt y | None => L"_" end.

Fixpoint show_tree (t : tree) : str :=
  let items l := sep L";" [] (map (fun kv => fst kv ++ L"=" ++ show_tree (snd kv)) l) in
  match t with
  | XFunc f => L"F:" ++ show_ft f
  | XInst e => L"I{" ++ items e ++ L"}"
  | XComp i e => L"C{" ++ items i ++ L"}{" ++ items e ++ L"}"
  | XMod _ => L"M"
  | XValue v => L"V:" ++ show_vt v
  | XTRes n => L"res(" ++ n ++ L")"
  | XTFunc f => L"TF:" ++ show_ft f
  | XTValue v => L"T:" ++ show_vt v
  | XTInst e => L"TI{" ++ items e ++ L"}"
  | XTComp i e => L"TC{" ++ items i ++ L"}{" ++ items e ++ L"}"
  | XTMod _ => L"TM"
  end.

Definition show_defs (l : list (str * tree)) : str :=
  sep L" | " [] (map (fun kv => fst kv ++ L"=" ++ show_tree (snd kv)) l).

Definition show_derr (e : derr) : str :=
  match e with
  | EDuplicateName => L"DuplicateName" | EUndefinedName => L"UndefinedName"
  | EDeclarationConflict => L"DeclarationConflict"
  | EDuplicateVariantCase => L"DuplicateVariantCase" | EDuplicateRecordField => L"DuplicateRecordField"
  | EDuplicateFlag => L"DuplicateFlag" | EDuplicateEnumCase => L"DuplicateEnumCase"
  | EInvalidAliasType => L"InvalidAliasType" | ENotFuncType => L"NotFuncType"
  | ENotResourceType => L"NotResourceType" | ENotValueType => L"NotValueType"
  | ENotFuncOrInterface => L"NotFuncOrInterface" | ENotInterface => L"NotInterface" | ENotWorld => L"NotWorld"
  | EDuplicateWorldItem => L"DuplicateWorldItem" | EDuplicateWorldIncludeName => L"DuplicateWorldIncludeName"
  | EWorldIncludeConflict => L"WorldIncludeConflict" | EMissingWorldInclude => L"MissingWorldInclude"
  | EDuplicateInterfaceExport => L"DuplicateInterfaceExport" | EUndefinedInterfaceType => L"UndefinedInterfaceType"
  | EUseConflict => L"UseConflict" | ENotInterfaceValueType => L"NotInterfaceValueType"
  | EDuplicateResourceConstructor => L"DuplicateResourceConstructor"
  | EDuplicateResourceMethod => L"DuplicateResourceMethod" | EDuplicateParameter => L"DuplicateParameter"
  | EBorrowInResult => L"BorrowInResult" | EUnknownPackage => L"UnknownPackage"
  | EPackagePathMissingExport => L"PackagePathMissingExport"
  end.

Definition total_size (t : types) : nat :=
  length (t_defined t) + length (t_resources t) + length (t_funcs t) + length (t_interfaces t) + length (t_worlds t) + 8.

(** ids and use maps (correspondence only; the trees do not contain them) *)
Definition iface_id_of (t : types) (i : id) : str :=
  match get_if t i with Some x => match i_id x with Some n => n | None => L"-" end | None => L"?" end.
Definition show_uses (t : types) (u : list (str * used)) : str :=
  comma (map (fun kv => fst kv ++ L"<-" ++ iface_id_of t (fst (snd kv)) ++ L"#" ++
                       match snd (snd kv) with Some n => n | None => L"-" end) u).
Definition show_meta (t : types) (k : kind) : str :=
  match k with
  | KType (TInterface i) =>
    match get_if t i with
    | Some x => L"id=" ++ match i_id x with Some n => n | None => L"-" end ++ L" uses=[" ++ show_uses t (i_uses x) ++ L"]"
    | None => L"?"
    end
  | KType (TWorld w) =>
    match get_world t w with
    | Some x => L"id=" ++ match w_id x with Some n => n | None => L"-" end ++ L" uses=[" ++ show_uses t (w_uses x) ++ L"]"
    | None => L"?"
    end
  | _ => L"-"
  end.

Definition empty_types : types := mktypes 0 [] [] [] [] [] [].

Definition show_model (r : dres rst) : str :=
  match r with
  | DOk s =>
    let t := r_types s in
    match map_snd (unfold (total_size t) t) (r_defs s) with
    | Some l => L"OK " ++ show_defs l ++ L" ## " ++
                sep L" | " [] (map (fun kv => fst kv ++ L":" ++ show_meta t (snd kv)) (r_defs s))
    | None => L"UNFOLD-FAILED"
    end
  | DErr e => L"ERR " ++ show_derr e
  | DPanic n => L"PANIC " ++ show_N n
  | DUnmodelled => L"UNMODELLED"
  | DFuel => L"FUEL"
  end.

Definition parse (src : str) : option Ast.document :=
  match parse_document impl_flags impl_cfg src with POk d _ => Some d | _ => None end.

(** A dependency package is given as its own source text (WIT text is WAC text): it is resolved / denoted
    first and its interfaces and worlds become the table of external items, keyed by the path text
    [ns:pkg/name@version]. *)
Definition dep_model (dsrc : str) : option (list (str * ty) * types) :=
  match dsrc with
  | [] => Some ([], empty_types)
  | _ =>
    match parse dsrc with
    | Some d =>
      match resolve_document [] empty_types d with
      | DOk s =>
        let pn := Ast.pd_package (Ast.doc_directive d) in
        Some (flat_map (fun kv => match snd kv with
                                  | TInterface _ | TWorld _ => [(item_id pn (fst kv), snd kv)]
                                  | _ => []
                                  end) (r_root s), r_types s)
      | _ => None
      end
    | None => None
    end
  end.
Definition dep_den (dsrc : str) : option env :=
  match dsrc with
  | [] => Some []
  | _ =>
    match parse dsrc with
    | Some d =>
      match den_document [] d with
      | Some l =>
        let pn := Ast.pd_package (Ast.doc_directive d) in
        Some (flat_map (fun kv => match snd kv with
                                  | XTInst e => [(wit_id pn (fst kv), SIface (Some (wit_id pn (fst kv))) e)]
                                  | XTComp i e => [(wit_id pn (fst kv), SWorld i e)]
                                  | _ => []
                                  end) l)
      | None => None
      end
    | None => None
    end
  end.

Definition run_model (dsrc src : str) : str :=
  match dep_model dsrc with
  | None => L"BAD-DEP"
  | Some (ext, t0) =>
    match parse src with
    | Some d => show_model (resolve_document ext t0 d)
    | None => L"PARSE-ERR"
    end
  end.
Definition run_den (dsrc src : str) : str :=
  match dep_den dsrc with
  | None => L"BAD-DEP"
  | Some ext =>
    match parse src with
    | Some d => match den_document ext d with Some l => L"OK " ++ show_defs l | None => L"NONE" end
    | None => L"PARSE-ERR"
    end
  end.

Extraction "../build/c05/model.ml" run_model run_den N.of_nat.
