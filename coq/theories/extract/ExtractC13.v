(** Extraction for the C13 correspondence: parse (the C12 parser model), print under the repaired and
    the unrepaired printer, re-parse, compare the normalised trees, print again. One observation per
    document; the driver encodes it on one line. *)
From Coq Require Import ExtrOcamlBasic String.
From WacV Require Import Str StrLit Show Token Lexer LexTables LexImpl Semver Ast Parser AstJson Printer PrintSpec.
Extraction Language OCaml.

(** The canonical JSON of [strip (norm_docs d)] (all spans print as [@0+0]). *)
Definition tree_json (d : document) : str := show_json (j_document (sn d)).

Definition show_fail (r : pres document) : str :=
  match r with
  | POk _ _ => L"trailing-input"
  | PErr (PE_Lexer _ sp) => L"lexer-error@" ++ show_N (off sp)
  | PErr (PE_Expected _ _ sp) => L"expected@" ++ show_N (off sp)
  | PErr (PE_EmptyType _ sp) => L"empty-type@" ++ show_N (off sp)
  | PErr (PE_InvalidVersion _ sp) => L"invalid-version@" ++ show_N (off sp)
  | PErr (PE_DocRestriction _) => L"doc-restriction"
  | PPanic n => L"panic-" ++ show_N n
  | PUnmodelled => L"unmodelled"
  | PFuel => L"fuel"
  end.

(** (printed text, verdict) of the specification predicate on the model, for one setting of the fixes. *)
Definition verdict (fx : fixes) (src : str) (d : document) : str * str :=
  match print fx src d with
  | None => ([], L"print-panic")
  | Some text =>
      (text,
       match reparse text with
       | POk d' [] =>
           if str_eqb (tree_json d') (tree_json d) then
             match print fx text d' with
             | Some text2 => if str_eqb text2 text then L"ok" else L"not-idempotent"
             | None => L"second-print-panic"
             end
           else L"tree-differs"
       | other => L"reparse-fails:" ++ show_fail other
       end)
  end.

Inductive c13_obs : Set :=
| ObsReject (why : str)
| ObsOk (tree : str) (text_rep verdict_rep text_cur verdict_cur : str) (kwc : bool).

(** [cur]: the fixes the implementation under test has (determined by the check from three witness
    documents); the observation carries the printer's output and verdict under [repaired] and under [cur]. *)
Definition run_c13 (cur : fixes) (src : str) : c13_obs :=
  match parse_document impl_flags impl_cfg src with
  | POk d [] =>
      let '(t1, v1) := verdict repaired src d in
      let '(t0, v0) := verdict cur src d in
      ObsOk (tree_json d) t1 v1 t0 v0
        (match print_pieces repaired src d with Some ps => kwcb ps | None => false end)
  | other => ObsReject (show_fail other)
  end.

Extraction "../build/c13/model.ml" run_c13 N.of_nat.
