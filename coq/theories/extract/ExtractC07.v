From Coq Require Import ExtrOcamlBasic.
From WacV Require Import Str Types C07Flags Checker SubSpec.
Extraction Language OCaml.
Extraction "../build/c07/model.ml"
  N.of_nat mktypes mkid mkres mkfunc mkif mkworld mkmod mkcf mkref
  is_subtype check run_checks st0 unfold resfree sub_b sub_names_b psl_default_normalised.
