From Coq Require Import ExtrOcamlBasic.
From WacV Require Import Str Ord Semver Names NamesSpec Targets TargetsSpec.
Extraction Language OCaml.
Extraction "../build/c11/model.ml"
  N.of_nat resolve_target resolve_target_sv standalone_target report_ok
  spec_first conforms_b spec_not_in_target spec_missing spec_mismatched consistent_b exact_names_b wtable
  compat same_track.
