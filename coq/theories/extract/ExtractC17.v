(** Extraction for the C17 correspondence: parse the source text with the model of the real parser
    (C12), then run the model of [packages()] ([visit], with spans), the resolver skeleton's
    [requests] (with the offsets of the requesting spans) and the specification predicate
    [has_self_new]; one observation line per document, fields separated by TAB. *)
From Coq Require Import ExtrOcamlBasic String.
From WacV Require Import Str StrLit Show Token Lexer LexImpl Semver Ast Parser Visitor ResolveSkel.
Extraction Language OCaml.

Definition tab_ : str := [9].
Definition sp_ : str := [32].

Definition show_version (v : version) : str :=
  show_N (major v) ++ [c_dot] ++ show_N (minor v) ++ [c_dot] ++ show_N (patch v)
  ++ (if is_nil (pre v) then [] else c_dash :: pre v)
  ++ (if is_nil (build v) then [] else c_plus :: build v).

Definition show_key (k : pkgkey) : str :=
  fst k ++ match snd k with Some v => c_at :: show_version v | None => [] end.

Fixpoint join_sp (l : list str) : str :=
  match l with
  | [] => []
  | [x] => x
  | x :: r => x ++ sp_ ++ join_sp r
  end.

Definition show_entry (e : pkgkey * span) : str :=
  show_key (fst e) ++ 35 :: show_N (off (snd e)) ++ 43 :: show_N (slen (snd e)).

Definition show_packages (r : vres keymap) : str :=
  match r with
  | VOk m => match m with [] => L"OK" | _ => L"OK " ++ join_sp (map show_entry m) end
  | VErr (CannotInstantiateSelf sp) =>
      L"ERR CannotInstantiateSelf " ++ show_N (off sp) ++ sp_ ++ show_N (slen sp)
  end.

(** Every [resolve_package] call when nothing fails: key and offset of the requesting span; the walk
    ends at a self-[new] (printed as [!name#offset]). *)
Fixpoint show_actions (acts : list action) : list str :=
  match acts with
  | [] => []
  | AReq n v sp :: r => (show_key (n, v) ++ 35 :: show_N (off sp)) :: show_actions r
  | ASelfNew n sp :: _ => [33 :: n ++ 35 :: show_N (off sp)]
  end.

Definition run_c17 (src : str) : str :=
  match parse_document impl_flags impl_cfg src with
  | POk d _ =>
      L"P=OK" ++ tab_ ++ L"D=" ++ show_packages (packages d)
      ++ tab_ ++ L"S=" ++ (if has_self_new d then L"1" else L"0")
      ++ tab_ ++ L"R=" ++ join_sp (show_actions (actions d))
      ++ tab_ ++ L"X=" ++ own_name d
  | PErr _ => L"P=ERR"
  | PPanic n => L"P=PANIC"
  | PUnmodelled => L"P=UNMODELLED"
  | PFuel => L"P=FUEL"
  end.

Extraction "../build/c17/model.ml" run_c17 N.of_nat.
