(** Extraction for the C12 correspondence: the parser model under the implementation's tables and
    flags, and the same parser under the documented tables with a given set of deviation flags; both
    print one canonical observation line. *)
From Coq Require Import ExtrOcamlBasic String.
From WacV Require Import Str StrLit Show Token Lexer LexTables LexImpl LexSpec Semver Ast Parser AstJson.
Extraction Language OCaml.

Fixpoint token_name_in (k : token) (l : list (token * str)) : str :=
  match l with
  | [] => L"?"
  | (t, n) :: r => if token_eqb t k then n else token_name_in k r
  end.
Definition token_name (k : token) : str := token_name_in k gen_variant_names.

Definition sp_ : str := [32].
Fixpoint join_names (l : list token) : str :=
  match l with
  | [] => []
  | [k] => token_name k
  | k :: r => token_name k ++ 44 :: join_names r
  end.

Definition show_lexerr (e : lexerr) : str :=
  match e with
  | UnexpectedToken => L"UnexpectedToken"
  | UnterminatedString => L"UnterminatedString"
  | UnterminatedComment => L"UnterminatedComment"
  | DisallowedBidirectionalOverride c => L"DisallowedBidirectionalOverride:" ++ show_N c
  | DiscouragedUnicodeCodepoint c => L"DiscouragedUnicodeCodepoint:" ++ show_N c
  | DisallowedControlCode c => L"DisallowedControlCode:" ++ show_N c
  end.

Definition show_err_line (variant : str) (sp : span) (detail : str) : str :=
  L"ERR " ++ variant ++ sp_ ++ show_N (off sp) ++ sp_ ++ show_N (slen sp) ++ sp_ ++ detail.

Definition show_perror (e : perror) : str :=
  match e with
  | PE_Lexer le sp => show_err_line (L"Lexer:" ++ show_lexerr le) sp (L"-")
  | PE_Expected attempts found sp =>
      show_err_line
        (match attempts with
         | [_] => L"Expected" | [_; _] => L"ExpectedEither" | _ => L"ExpectedMultiple" end)
        sp
        (L"expected=" ++ join_names (firstn 10 attempts) ++ L";count=" ++ show_N (N.of_nat (length attempts))
         ++ L";found=" ++ match found with Some k => token_name k | None => L"none" end)
  | PE_EmptyType w sp =>
      show_err_line (L"EmptyType") sp
        (if w =? 0 then L"variant" else if w =? 1 then L"record" else if w =? 2 then L"flags" else L"enum")
  | PE_InvalidVersion text sp => show_err_line (L"InvalidVersion") sp (esc text)
  | PE_DocRestriction w => L"ERR DocRestriction 0 0 " ++ show_N w
  end.

Definition show_pres (r : pres document) : str :=
  match r with
  | POk d _ => L"OK " ++ show_json (j_document d)
  | PErr e => show_perror e
  | PPanic n => L"PANIC " ++ show_N n
  | PUnmodelled => L"UNMODELLED"
  | PFuel => L"FUEL"
  end.

Fixpoint show_lex (l : list lexitem) : str :=
  match l with
  | [] => []
  | LTok t :: r => token_name (tk t) ++ show_span (tsp t) ++ sp_ ++ show_lex r
  | LErr e sp :: r => 33 :: show_lexerr e ++ 64 :: show_N (off sp) ++ sp_ ++ show_lex r
  | LUnmodelled sp :: r => L"!UNMODELLED@" ++ show_N (off sp) ++ sp_ ++ show_lex r
  | LPanic :: r => L"!PANIC " ++ show_lex r
  | LFuel :: r => L"!FUEL " ++ show_lex r
  end.

Definition flags_of_bits (b : list bool) : deviations :=
  let g := fun n => nth n b false in
  {| arrow_empty_results := g 0%nat; result_underscore_forms := g 1%nat; uppercase_words := g 2%nat;
     empty_new_args := g 3%nat; fill_alone := g 4%nat; fill_anywhere := g 5%nat;
     empty_use_items := g 6%nat; empty_include_with := g 7%nat; named_results := g 8%nat;
     borrow_any_type := g 9%nat; dangling_dash := g 10%nat; keyword_colon := g 11%nat;
     pkg_separator_zone := g 12%nat |}.

(** The model of the implementation. *)
Definition run_impl (src : str) : str := show_pres (parse_document impl_flags impl_cfg src).
Definition run_lex (src : str) : str := show_lex (lex impl_cfg src).
(** The documented language, with the given deviation flags switched to the implementation's side. *)
Definition run_doc (bits : list bool) (src : str) : str :=
  show_pres (parse_document (flags_of_bits bits) doc_cfg src).

Extraction "../build/c12/model.ml" run_impl run_lex run_doc N.of_nat.
