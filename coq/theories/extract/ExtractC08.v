From Coq Require Import ExtrOcamlBasic.
From WacV Require Import Str Types Convert ConvertSpec.
Extraction Language OCaml.
Extraction "../build/c08/model.ml"
  N.of_nat prim_idx unfold from_graph
  lists_exactly_b spec_tree walk_package maps_of ids_one_to_one_b res_pairs resources_agree_b
  sites_of expected_uses uses_agree_b wt_graph_b shares_created_b.
