(** Property C19 — the CLI does what the library does with the flags as documented.
    Statements only; every proof is an application of a lemma of proofs/CliProofs.v.

    Reading guide.  A "world" ([cworld], [pworld], [tworld], [aworld], model/CliWorlds.v) bundles
    ALL stage oracles of one subcommand: what the file system, the parser, the resolvers, the
    encoder, the printer, the registry and the terminal answer (value / error / panic).  Every
    theorem is quantified over every world and every flag record, i.e. over all flag combinations
    and all stage behaviours.  [cli_flags], [opts_of_flags], [plug_opts], the terminal guards,
    [plug_grouping], [targets_default_counts_all_exports] and [readme_examples] are GENERATED from
    the sources on every run (gen/CliTable.v). *)
From Coq Require Import Permutation.
From WacV Require Import Str Show CliTypes CliTable Semver Cli CliWorlds CliSpec CliProofs.

(** * The tie to the sources *)

(** The generated flag table is the documented one. *)
Theorem flags_eq_documented : cli_flags = documented_flags.
Proof. exact flags_table_is_documented. Qed.
Print Assumptions flags_eq_documented.

(** Dependencies are embedded unless --import-dependencies; the output is validated unless
    --no-validate; `wac plug` always embeds and validates.  Stated against the GENERATED
    [opts_of_flags] / [plug_opts] / [encode_default]. *)
Theorem opts_of_flags_documented :
  (forall sw, opts_of_flags sw = documented_opts sw) /\
  (forall sw, plug_opts sw = documented_plug_opts) /\
  encode_default = documented_plug_opts.
Proof. exact (conj opts_of_flags_is_documented (conj plug_opts_is_documented eq_refl)). Qed.
Print Assumptions opts_of_flags_documented.

(** Binary output is refused exactly when no -t, no -o and stdout is a terminal; the check sits
    before the encoder in compose and after it in plug (as modelled). *)
Theorem terminal_guard_documented :
  (forall sw ho tty, compose_terminal_guard sw ho tty = refuses_terminal (sw_wat sw) ho tty) /\
  (forall sw ho tty, plug_terminal_guard sw ho tty = refuses_terminal (psw_wat sw) ho tty) /\
  compose_guard_before_encode = true /\ plug_guard_before_encode = false.
Proof.
  exact (conj compose_guard_is_documented (conj plug_guard_is_documented guard_positions)).
Qed.
Print Assumptions terminal_guard_documented.

(** `--dep PKG=PATH`: split at the first `=`, blanks around either side ignored; no `=` is a usage
    error; for a repeated package the last value wins; `wac resolve` parses it the same way. *)
Theorem dep_flag_documented :
  (forall s kv, parse_dep s = Some kv <-> dep_means s kv) /\
  (forall s, parse_dep s = None <-> ~ In 61 s) /\
  (forall raw deps, parse_deps raw = Some deps <-> deps_mean raw deps) /\
  (forall deps name, overrides_get deps name = override_of deps name) /\
  resolve_dep_parser_same_as_compose = true.
Proof.
  exact (conj parse_dep_means (conj parse_dep_none (conj parse_deps_mean (conj overrides_get_is_documented eq_refl)))).
Qed.
Print Assumptions dep_flag_documented.

(** * wac compose *)

Definition pipeline_in (w : cworld) : compose_flags -> str -> Prop :=
  pipeline_ok (cw_Doc w) (cw_Keys w) (cw_Pkgs w) (cw_Res w) (cw_Client w) (cw_read_file w) (cw_parse_doc w)
              (cw_registry_new w) (cw_discover w) (cw_fs_resolve w) (cw_keys_missing w) (cw_keys_is_empty w)
              (cw_registry_resolve w) (cw_pkgs_extend w) (cw_resolve_doc w) (cw_encode w).

(** Exit status 0 exactly when the documented library pipeline (with the documented options)
    produces a component and the sink accepts it. *)
Theorem exit_zero_iff_pipeline_ok : forall (w : cworld) (f : compose_flags),
  fs_lookup_only w ->
  (exit_code (compose_in w f) = 0 <->
   exists b, pipeline_in w f b /\
             sink_ok (cw_print_text w) (cw_write_ok w) (sw_wat (cf_sw f)) (cf_output f) (cw_tty w) b).
Proof.
  intros w f X. unfold compose_in, pipeline_in. now apply compose_exit_zero_iff_pipeline_ok.
Qed.
Print Assumptions exit_zero_iff_pipeline_ok.

(** Any failing run (error or panic, at any stage, of any subcommand) leaves stdout empty and
    writes no file; every run reports on stderr exactly when it fails. *)
Theorem no_output_on_failure :
  (forall w f, exit_code (compose_in w f) <> 0 -> o_stdout (compose_in w f) = [] /\ o_writes (compose_in w f) = []) /\
  (forall w f, exit_code (plug_in w f) <> 0 -> o_stdout (plug_in w f) = [] /\ o_writes (plug_in w f) = []) /\
  (forall w p, exit_code (parse_in w p) <> 0 -> o_stdout (parse_in w p) = [] /\ o_writes (parse_in w p) = []) /\
  (forall w f, o_stdout (targets_in w f) = [] /\ o_writes (targets_in w f) = []) /\
  (forall o, stderr_nonempty o = true <-> exit_code o <> 0).
Proof.
  split; [|split; [|split; [|split]]].
  - intros w f. apply compose_no_output_on_failure.
  - intros w f. apply plug_no_output_on_failure.
  - intros w p. apply parse_no_output_on_failure.
  - intros w f. apply targets_never_writes.
  - intros o. rewrite exit_zero_iff_success. unfold stderr_nonempty.
    destruct (o_status o); split; congruence.
Qed.
Print Assumptions no_output_on_failure.

(** `-o p` writes exactly the bytes otherwise sent to stdout (text on stdout is followed by one
    newline, see [o_equals_stdout_literal_refuted]); a failing run fails identically. *)
Theorem o_equals_stdout :
  (forall w f p,
     cw_write_ok w p = true -> refuses_terminal (sw_wat (cf_sw f)) false (cw_tty w) = false ->
     (exists out, compose_in w (with_output f (Some p)) = delivered (Some p) out (newline_after (sw_wat (cf_sw f))) /\
                  compose_in w (with_output f None) = delivered None out (newline_after (sw_wat (cf_sw f))))
     \/ (exit_code (compose_in w (with_output f (Some p))) <> 0 /\
         compose_in w (with_output f None) = compose_in w (with_output f (Some p)))) /\
  (forall w f p,
     pw_write_ok w p = true -> refuses_terminal (psw_wat (pf_sw f)) false (pw_tty w) = false ->
     (exists out, plug_in w (with_poutput f (Some p)) = delivered (Some p) out (newline_after (psw_wat (pf_sw f))) /\
                  plug_in w (with_poutput f None) = delivered None out (newline_after (psw_wat (pf_sw f))))
     \/ (exit_code (plug_in w (with_poutput f (Some p))) <> 0 /\
         plug_in w (with_poutput f None) = plug_in w (with_poutput f (Some p)))).
Proof.
  split.
  - intros w f p. apply compose_o_equals_stdout.
  - intros w f p. apply plug_o_equals_stdout.
Qed.
Print Assumptions o_equals_stdout.

(** The file named by `-o` holds EXACTLY the output afterwards, whatever it held before ([prev] is
    universally quantified: absent, shorter, longer -- no byte of the old content survives), and no
    other path changes; a failing run changes no file at all. *)
Theorem o_overwrites_previous_content :
  (forall w f p (prev : fs_state),
     cw_write_ok w p = true -> refuses_terminal (sw_wat (cf_sw f)) false (cw_tty w) = false ->
     (exists out, fs_after prev (compose_in w (with_output f (Some p))) p = Some out /\
                  (forall q, q <> p -> fs_after prev (compose_in w (with_output f (Some p))) q = prev q) /\
                  compose_in w (with_output f None) = delivered None out (newline_after (sw_wat (cf_sw f))))
     \/ (exit_code (compose_in w (with_output f (Some p))) <> 0 /\
         forall q, fs_after prev (compose_in w (with_output f (Some p))) q = prev q)) /\
  (forall w f p (prev : fs_state),
     pw_write_ok w p = true -> refuses_terminal (psw_wat (pf_sw f)) false (pw_tty w) = false ->
     (exists out, fs_after prev (plug_in w (with_poutput f (Some p))) p = Some out /\
                  (forall q, q <> p -> fs_after prev (plug_in w (with_poutput f (Some p))) q = prev q) /\
                  plug_in w (with_poutput f None) = delivered None out (newline_after (psw_wat (pf_sw f))))
     \/ (exit_code (plug_in w (with_poutput f (Some p))) <> 0 /\
         forall q, fs_after prev (plug_in w (with_poutput f (Some p))) q = prev q)).
Proof.
  split.
  - intros w f p prev Wk G. apply overwrites_from_equals.
    + apply (proj1 no_output_on_failure).
    + now apply (proj1 o_equals_stdout).
  - intros w f p prev Wk G. apply overwrites_from_equals.
    + apply (proj1 (proj2 no_output_on_failure)).
    + now apply (proj2 o_equals_stdout).
Qed.
Print Assumptions o_overwrites_previous_content.

(** Full statement of the property text: "-o writes exactly the bytes otherwise sent to stdout".
    False of the faithful model for -t: stdout carries one more byte (a newline). *)
Theorem o_equals_stdout_literal_refuted :
  exists (pt : str -> sres str) (wo : str -> bool) b p out,
    emit pt wo true (Some p) b = delivered (Some p) out [] /\
    o_stdout (emit pt wo true None b) <> out.
Proof. exact o_equals_stdout_literal_counterexample. Qed.
Print Assumptions o_equals_stdout_literal_refuted.

(** `-t` prints the text form of exactly the component that the same invocation without `-t`
    emits (same encode call, same options); that the text assembles back to a valid component with
    the same interface and wiring is a fact about wasmprinter/wat checked by the correspondence. *)
Theorem t_prints_same_component :
  (forall w f,
     refuses_terminal false (is_some (cf_output f)) (cw_tty w) = false ->
     (forall p, cf_output f = Some p -> cw_write_ok w p = true) ->
     (exists b, compose_in w (with_wat f false) = delivered (cf_output f) b [] /\
                compose_in w (with_wat f true) = match cw_print_text w b with
                                                 | SOk t => delivered (cf_output f) t [10]
                                                 | SErr => fail StPrint
                                                 | SPanic => panic StPrint
                                                 end)
     \/ (exit_code (compose_in w (with_wat f false)) <> 0 /\
         compose_in w (with_wat f true) = compose_in w (with_wat f false))) /\
  (forall w f,
     refuses_terminal false (is_some (pf_output f)) (pw_tty w) = false ->
     (forall p, pf_output f = Some p -> pw_write_ok w p = true) ->
     (exists b, plug_in w (with_pwat f false) = delivered (pf_output f) b [] /\
                plug_in w (with_pwat f true) = match pw_print_text w b with
                                               | SOk t => delivered (pf_output f) t [10]
                                               | SErr => fail StPrint
                                               | SPanic => panic StPrint
                                               end)
     \/ (exit_code (plug_in w (with_pwat f false)) <> 0 /\
         plug_in w (with_pwat f true) = plug_in w (with_pwat f false))).
Proof.
  split.
  - intros w f. apply compose_t_prints_same_component.
  - intros w f. apply plug_t_prints_same_component.
Qed.
Print Assumptions t_prints_same_component.

(** * wac plug *)

Definition plug_pipeline_in (w : pworld) : plug_flags -> str -> Prop :=
  plug_pipeline_ok (pw_G w) (pw_Id w) (pw_is_pkg_name w) (pw_download w) (pw_read_bin w) (pw_g_new w)
                   (pw_add_bytes w) (pw_add_file w) (pw_do_plug w) (pw_encode_g w).

(** Full statement: "`wac plug` produces exactly the result of the library pipeline (socket as
    `socket`, plugs as `plug:<stem>` with an index on duplicates, registered in command-line order
    of first appearance)".  Provable only when the grouping container iterates in insertion order;
    with the [HashMap] found in plug.rs see [plug_registration_order_refuted]. *)
Theorem plug_exit_zero_iff_pipeline_ok_partial : forall (w : pworld) (f : plug_flags),
  plug_grouping = GroupInsertion \/ (forall l, pw_hash_order w l = l) ->
  (exit_code (plug_in w f) = 0 <->
   exists b, plug_pipeline_in w f b /\
             sink_ok (pw_print_text w) (pw_write_ok w) (psw_wat (pf_sw f)) (pf_output f) (pw_tty w) b).
Proof. intros w f. apply plug_exit_zero_iff_pipeline_ok. Qed.
Print Assumptions plug_exit_zero_iff_pipeline_ok_partial.

Theorem plug_registrations_documented_partial : forall hash_order ks,
  plug_grouping = GroupInsertion \/ (forall l, hash_order l = l) ->
  registrations hash_order ks = documented_registrations ks.
Proof. exact registrations_documented. Qed.
Print Assumptions plug_registrations_documented_partial.

(** Whatever the hash order: the same plugs under the same documented names, in some order. *)
Theorem plug_registrations_permutation : forall hash_order ks,
  (forall l, Permutation (hash_order l) l) ->
  Permutation (registrations hash_order ks) (documented_registrations ks).
Proof. exact registrations_permutation. Qed.
Print Assumptions plug_registrations_permutation.

(** With a [HashMap] the registration order is not a function of the command line: two admissible
    hash orders register the same two plugs in different orders. *)
Theorem plug_registration_order_refuted :
  plug_grouping = GroupHash ->
  exists ks h1 h2,
    (forall l, Permutation (h1 l) l) /\ (forall l, Permutation (h2 l) l) /\
    registrations h1 ks <> registrations h2 ks.
Proof. exact registrations_hash_dependent. Qed.
Print Assumptions plug_registration_order_refuted.

(** * wac parse *)

Theorem parse_prints_json : forall (w : aworld) path,
  exit_code (parse_in w path) = 0 <->
  exists src d js, aw_read_file w path = SOk src /\ aw_parse_doc w src = SOk d /\ aw_to_json w d = SOk js /\
                   parse_in w path = delivered None js [10].
Proof. intros w path. apply parse_exit_zero_iff. Qed.
Print Assumptions parse_prints_json.

(** * wac targets *)

Theorem targets_exit_zero_iff_conforms : forall (w : tworld) f,
  exit_code (targets_in w f) = 0 <->
  exists wb exports cb c wd,
    tw_wit_encode w (tf_wit f) = SOk wb /\ tw_wit_decode w wb = SOk exports /\
    tw_read_bin w (tf_component f) = SOk cb /\ tw_comp_decode w cb = SOk c /\
    select_world exports (tf_world f) = Some wd /\ tw_validate w wd c = SOk tt.
Proof. intros w f. apply targets_exit_zero_iff. Qed.
Print Assumptions targets_exit_zero_iff_conforms.

Theorem targets_named_world : forall W (exports : list (str * wit_export W)) n,
  NoDup (map fst exports) -> select_world exports (Some n) = documented_world exports (Some n).
Proof. intros W. exact targets_named_world_documented. Qed.
Print Assumptions targets_named_world.

(** Full statement: "if the wit package only has one world definition, --world does not need to
    be specified".  Provable only if the default looks at worlds only, or the package has nothing
    but worlds; see [targets_default_world_selection_refuted]. *)
Theorem targets_default_world_partial : forall W (exports : list (str * wit_export W)),
  targets_default_counts_all_exports = false \/ forallb (fun e => is_world_export (snd e)) exports = true ->
  select_world exports None = documented_world exports None.
Proof. intros W. exact targets_default_world_documented. Qed.
Print Assumptions targets_default_world_partial.

Theorem targets_default_world_selection_refuted :
  targets_default_counts_all_exports = true ->
  exists (exports : list (str * wit_export unit)),
    NoDup (map fst exports) /\ documented_world exports None = Some tt /\ select_world exports None = None.
Proof. exact targets_default_world_refuted. Qed.
Print Assumptions targets_default_world_selection_refuted.

(** * README *)

(** Every `wac ...` line of README.md is accepted by the generated flag table, except possibly the
    known `wac targets <component> <wit>` form ... *)
Theorem readme_examples_accepted_or_known :
  forallb (fun e => accepts cli_flags e || argv_eqb e readme_targets_example) readme_examples = true.
Proof. exact readme_examples_accepted_or_known_lemma. Qed.
Print Assumptions readme_examples_accepted_or_known.

(** ... which the flag table rejects: the WIT path is the value of `--wit`, not a positional. *)
Theorem readme_targets_example_refuted : accepts cli_flags readme_targets_example = false.
Proof. exact readme_targets_example_rejected. Qed.
Print Assumptions readme_targets_example_refuted.

(** * Non-vacuity: a world in which the pipeline succeeds, one in which it fails at every stage *)

Definition ok_case : ccase := mk_ccase 0 0 0 1 0 0 0 0 2 3 4 5 0 true false.
Definition sw_default : compose_sw := mk_sw false false false.
Definition flags1 (sw : compose_sw) (o : option str) : compose_flags :=
  mk_cf [100] [[97; 61; 98]] sw o None [120].

Example compose_nonvacuous :
  (* default flags: embedded + validated result (token 2) on stdout, no newline *)
  compose_in (world_of_ccase ok_case) (flags1 sw_default None) = delivered None [2] [] /\
  (* --import-dependencies --no-validate -t -o p: text (105) of token 5 in the file, stdout empty *)
  compose_in (world_of_ccase ok_case) (flags1 (mk_sw true true true) (Some [112])) = delivered (Some [112]) [105] [10] /\
  (* -t to stdout: text + newline *)
  compose_in (world_of_ccase ok_case) (flags1 (mk_sw false true false) None) = delivered None [102] [10] /\
  (* the hypotheses of the theorems are met by this world *)
  fs_lookup_only (world_of_ccase ok_case) /\
  (exists b, pipeline_in (world_of_ccase ok_case) (flags1 sw_default None) b) /\
  (* a malformed --dep is a usage error, a failing resolve exits 1 with nothing written *)
  exit_code (compose_in (world_of_ccase ok_case) (mk_cf [100] [[97]] sw_default None None [120])) = 2 /\
  compose_in (world_of_ccase (mk_ccase 0 0 0 1 0 0 0 1 2 3 4 5 0 true false)) (flags1 sw_default (Some [112])) = fail StResolve /\
  (* binary to a terminal is refused *)
  compose_in (world_of_ccase (mk_ccase 0 0 0 1 0 0 0 0 2 3 4 5 0 true true)) (flags1 sw_default None) = fail StTerminal.
Proof.
  repeat (split; [vm_compute; reflexivity|]).
  split.
  - assert (exit_code (compose_in (world_of_ccase ok_case) (flags1 sw_default None)) = 0) as E by (vm_compute; reflexivity).
    apply exit_zero_iff_pipeline_ok in E; [|intros dir ov ov' keys Hx; reflexivity].
    destruct E as [b [P _]]. now exists b.
  - repeat split; vm_compute; reflexivity.
Qed.

(** * Full statements on the current tree

    The three `_partial` theorems above carry a hypothesis about a GENERATED fact of the source (the grouping container
    of plug.rs, the default-world rule of targets.rs, the README lines). On the current tree (after the repairs 415d296,
    9a9d9f7, 9cbb1bc) the generated facts satisfy those hypotheses, so the property's full statements hold outright.
    A change that brings one of the defects back changes the generated table, and the proof below no longer checks. *)

Theorem plug_exit_zero_iff_pipeline_ok_full : forall (w : pworld) (f : plug_flags),
  exit_code (plug_in w f) = 0 <->
  exists b, plug_pipeline_in w f b /\
            sink_ok (pw_print_text w) (pw_write_ok w) (psw_wat (pf_sw f)) (pf_output f) (pw_tty w) b.
Proof. intros w f. apply plug_exit_zero_iff_pipeline_ok_partial. left. reflexivity. Qed.
Print Assumptions plug_exit_zero_iff_pipeline_ok_full.

Theorem plug_registrations_documented_full : forall hash_order ks,
  registrations hash_order ks = documented_registrations ks.
Proof. intros h ks. apply plug_registrations_documented_partial. left. reflexivity. Qed.
Print Assumptions plug_registrations_documented_full.

Theorem targets_default_world_full : forall W (exports : list (str * wit_export W)),
  select_world exports None = documented_world exports None.
Proof. intros W exports. apply targets_default_world_partial. left. reflexivity. Qed.
Print Assumptions targets_default_world_full.

Theorem readme_examples_accepted_full :
  forallb (fun e => accepts cli_flags e) readme_examples = true.
Proof. vm_compute. reflexivity. Qed.
Print Assumptions readme_examples_accepted_full.
