(** Property C09 — merged import requirements satisfy every contributor, order-independently.

    This file holds statements only; every proof is [exact <lemma>] (proofs/Aggregator*.v).
    Model: model/Aggregator.v ([aggregate], [aggregate_all], [imports], [canonical]); specification:
    spec/AggregatorSpec.v, spec/NamesSpec.v ([compat_spec_b], [higher]), spec/SubSpec.v ([SubCM], [sub_b]).

    A *history* is a list of contributions [(name, (types, kind))] aggregated in order into the empty aggregator
    with one shared checker: [aggregate_all ord cf fuel (agg0 tag) st0 l 0 = inl (a, s)] says that all of them
    succeeded and left the aggregator [a].  [ord] is the iteration order of the [interfaces] table.

    Overview (clauses of the property -> theorems):
      canonical name = highest contributed version, one per track, idempotent, redirects total, other tracks untouched
          canonical_is_highest_partial, redirects_total_partial, canonical_idempotent_partial, canonical_is_spec_partial,
          other_tracks_untouched_partial, canonical_order_indep_partial            (owner-free histories)
          canonical_is_highest_refuted                                             (general: owned resources)
      merged type satisfies every contributor
          merge_upper_bound_partial                                                (flat histories; not nested instances)
          merge_upper_bound_refuted                                                (general: component requirements)
      instance requirements merge to the union / equal requirements merge to themselves / idempotence
          instance_merge_is_union_partial, aggregate_idempotent_partial, flat_history_invariant   (flat)
      order independence
          aggregate_order_indep_partial (flat, both orders succeed), canonical_order_indep_partial (owner-free)
          aggregate_order_indep_refuted, aggregate_order_indep_map_refuted         (general)
      fails exactly on conflict
          fails_iff_conflict_partial ("conflict => failure", flat); fails_iff_conflict_refuted (general, other direction)
    The model follows the repaired aggregator (repository commits 874f221 and 0bf540d: nested instance exports are merged
    recursively; an aliased primitive is not recorded as replacement of the primitive; and the repair of known finding
    nested-interface-with-two-parents: an interface without an identifier is copied once per mention instead of being
    shared through the remap table).  The witnesses that refuted the general statements before the repairs are kept as
    regression Examples ([repaired_witnesses], [repaired_shared_child]).
    Not proved: "failure only on conflict" and "success is order independent" for flat histories (need completeness of the
    checker at the given fuel and panic-freedom of the copy); anything about `use`d types and resources beyond the model
    itself (their behaviour is covered by the correspondence and the executable specification only). *)
From Coq Require Import Permutation.
From WacV Require Import Str Names NamesSpec Types Checker SubSpec Aggregator AggregatorSpec.
From WacV Require Import SubSpecProofs AggregatorFrame AggregatorNames AggregatorCanonical AggregatorRemap AggregatorFlat
     AggregatorHistory AggregatorWitness.

Notation history_ok ord cf fuel tag l a s := (aggregate_all ord cf fuel (agg0 tag) st0 l 0 = inl (a, s)).
(** the concrete histories of the refutations run with the identity HashMap order, checker fuel 40, fuel 60 *)
Lemma run_is : forall l, run l = aggregate_all (fun x => x) 40 60 (agg0 0) st0 l 0.
Proof. reflexivity. Qed.
Notation owner_free_history l := (Forall (fun c : str * (types * kind) => owner_free (fst (snd c))) l).

(** * 1. Canonical names

    Full statement (for every history): after any sequence of successful aggregations every contributed name maps,
    through the redirects, to ONE canonical name per semver track; that name was contributed, is an import, and no
    contributed name of the track has a higher version; [canonical] is idempotent; names of other tracks are untouched.

    FALSE of the faithful model in general ([canonical_is_highest_refuted] below, replayed on the real aggregator:
    known finding owner-import-bypasses-canonical-name).  Proved for histories in which no contributor collection
    contains a resource alias with an owning interface ([owner_free]: [remap_resource] then never touches the imports). *)
Theorem canonical_is_highest_partial : forall ord cf fuel tag l a s,
  owner_free_history l -> history_ok ord cf fuel tag l a s ->
  forall n, In n (map fst l) ->
    In (Aggregator.canonical a n) (map fst l) /\
    compat_spec_b n (Aggregator.canonical a n) = true /\
    (forall m, In m (map fst l) -> compat_spec_b n m = true -> higher m (Aggregator.canonical a n) = false) /\
    (forall m, In m (map fst l) -> compat_spec_b n m = true -> Aggregator.canonical a m = Aggregator.canonical a n).
Proof. intros ord cf fuel tag l a s OF H. exact (history_canonical_is_highest ord cf fuel tag l a s OF H). Qed.
Print Assumptions canonical_is_highest_partial.

Theorem redirects_total_partial : forall ord cf fuel tag l a s,
  owner_free_history l -> history_ok ord cf fuel tag l a s ->
  (forall n, In n (map fst l) -> In (Aggregator.canonical a n) (map fst (imports a))) /\
  (forall k, In k (map fst (imports a)) -> In k (map fst l) /\ Aggregator.canonical a k = k) /\
  (forall k1 k2, In k1 (map fst (imports a)) -> In k2 (map fst (imports a)) -> compat_spec_b k1 k2 = true -> k1 = k2).
Proof.
  intros ord cf fuel tag l a s OF H. split; [|split].
  - exact (history_redirects_total ord cf fuel tag l a s OF H).
  - exact (history_imports_contributed ord cf fuel tag l a s OF H).
  - exact (history_one_import_per_track ord cf fuel tag l a s OF H).
Qed.
Print Assumptions redirects_total_partial.

Theorem canonical_idempotent_partial : forall ord cf fuel tag l a s,
  owner_free_history l -> history_ok ord cf fuel tag l a s ->
  forall n, Aggregator.canonical a (Aggregator.canonical a n) = Aggregator.canonical a n.
Proof. intros ord cf fuel tag l a s OF H. exact (history_canonical_idempotent ord cf fuel tag l a s OF H). Qed.
Print Assumptions canonical_idempotent_partial.

(** ... and it is the name the executable specification ([spec_canonical], evaluated by the check on the implementation's
    observations) computes from the list of contributed names *)
Theorem canonical_is_spec_partial : forall ord cf fuel tag l a s,
  owner_free_history l -> history_ok ord cf fuel tag l a s ->
  forall n, In n (map fst l) -> Aggregator.canonical a n = spec_canonical (map fst l) n.
Proof. intros ord cf fuel tag l a s OF H. exact (history_canonical_is_spec ord cf fuel tag l a s OF H). Qed.
Print Assumptions canonical_is_spec_partial.

(** two successful histories over the same contributed names (any order, any HashMap order, any fuel) give every name the
    same canonical name and import the same names *)
Theorem canonical_order_indep_partial : forall ord ord' cf fuel cf' fuel' tag tag' l l' a a' s s',
  owner_free_history l -> owner_free_history l' -> (forall n, In n (map fst l) <-> In n (map fst l')) ->
  history_ok ord cf fuel tag l a s -> history_ok ord' cf' fuel' tag' l' a' s' ->
  (forall n, In n (map fst l) -> Aggregator.canonical a n = Aggregator.canonical a' n) /\
  (forall k, In k (map fst (imports a)) -> In k (map fst (imports a'))).
Proof.
  intros ord ord' cf fuel cf' fuel' tag tag' l l' a a' s s' O O' P H H'. split.
  - exact (canonical_order_indep ord ord' cf fuel cf' fuel' tag tag' l l' a a' s s' O O' P H H').
  - exact (import_names_order_indep ord ord' cf fuel cf' fuel' tag tag' l l' a a' s s' O O' P H H').
Qed.
Print Assumptions canonical_order_indep_partial.

(** one more aggregation leaves the canonical name of every name of another track alone *)
Theorem other_tracks_untouched_partial : forall ord cf fuel tag l a s name t k a' s',
  owner_free_history l -> history_ok ord cf fuel tag l a s -> owner_free t ->
  aggregate ord cf fuel a s name t k = AOk (a', s') ->
  forall m, compat m name = false -> Aggregator.canonical a' m = Aggregator.canonical a m.
Proof.
  intros ord cf fuel tag l a s name t k a' s' OF H OFt E m C.
  exact (aggregate_other_tracks ord cf fuel a s name t k a' s' _ m OFt (history_inv ord cf fuel tag l a s OF H) E C).
Qed.
Print Assumptions other_tracks_untouched_partial.

(** with owned resources: two imports on one track after a successful history, and aggregating the same
    requirements once more changes the import list (refutes [redirects_total] and [aggregate_idempotent] in general) *)
Theorem canonical_is_highest_refuted :
  exists l a s k1 k2, run l = inl (a, s) /\
    In k1 (map fst (imports a)) /\ In k2 (map fst (imports a)) /\ str_eqb k1 k2 = false /\ compat_spec_b k1 k2 = true /\
    exists a2 s2, aggregate_all (fun x => x) 40 60 a s l 0 = inl (a2, s2) /\
                  list_eqb str_eqb (map fst (imports a2)) (map fst (imports a)) = false.
Proof. exists w_owner. exact owner_witness. Qed.
Print Assumptions canonical_is_highest_refuted.

(** * 2. The merged type satisfies every contributor

    Full statement: for every successful history and every contribution (n, (t, k)) of it,
      Sub (unfold (a_types a) (imports a (canonical a n))) (unfold t k).
    FALSE of the faithful model: component requirements with different imports are merged by uniting the imports, which no
    contributor's requirement is satisfied by (replayed on the real aggregator and SubtypeChecker on every run: known finding
    component-imports-united).  (Before repository commit 0bf540d nested instances refuted it as well; see
    [repaired_witnesses].) *)
Theorem merge_upper_bound_refuted :
  exists l a s tm, run l = inl (a, s) /\ merged_tree a [102;111;111] = Some tm /\
    forall c, In c l -> exists tr, req_tree c = Some tr /\ ~ SubCM tm tr.
Proof.
  destruct upper_bound_witness_component as [a [s [tm [H1 [H2 H3]]]]].
  exists w_comp, a, s, tm. refine (conj H1 (conj H2 _)). intros c Hc. destruct (H3 c Hc) as [tr [E X]]. exists tr.
  refine (conj E _). intro Y. apply sub_b_iff in Y. congruence.
Qed.
Print Assumptions merge_upper_bound_refuted.

(** Proved for FLAT histories.  Vocabulary (proofs/AggregatorRemap.v, AggregatorFlat.v, AggregatorHistory.v):
    - [Col] is the set of contributor collections; two members with one arena tag are the same collection, and no member
      has the aggregator's tag [tag0];
    - [UnfK t k tr] := exists g, unfold g t k = Some tr        (the kind denotes the tree, at some fuel);
    - [leafk k]: k is a function, a value, or a value type      (KFunc | KValue | KType (TValue _));
    - [flat_if t x]: interface x has no uses, pairwise different export names, and every export is a leaf kind that
      denotes a resource-free tree in t;
    - [flat_contrib Col (n, (t, k))]: Col t, t has no owned resource alias, k = KInstance i with [flat_if t (t[i])], and the
      interface has no identifier or the import name itself as identifier (what world imports look like);
    - [ord] only ever yields entries of the table it is given ([forall l x, In x (ord l) -> In x l]);
    - [ckey]: the contributed interface (with its arena tag): each interface is contributed once.
    No fuel hypothesis is needed: the theorem speaks about successful histories, and an accepting checker verdict is
    sound whatever the fuel (AggregatorChecker.v).  Not covered: components (refuted above), resources,
    `use`d types, interfaces whose identifier differs from the import name, one interface contributed twice.
    Nested instances are NOT covered although the repaired aggregator merges them recursively: the invariant [HInv] tracks
    one flat interface per import; a recursive version (interfaces below interfaces, which other imports may share through
    the interface table) is a separate development. *)
Theorem merge_upper_bound_partial : forall ord cf fuel (Col : types -> Prop) tag0,
  (forall l x, In x (ord l) -> In x l) ->
  (forall t1 t2, Col t1 -> Col t2 -> t_tag t1 = t_tag t2 -> t1 = t2) -> (forall t, Col t -> t_tag t <> tag0) ->
  forall l a s, Forall (flat_contrib Col) l -> NoDup (map ckey l) -> history_ok ord cf fuel tag0 l a s ->
  forall c, In c l -> forall tr, UnfK (fst (snd c)) (snd (snd c)) tr ->
    exists merged tm, assoc (Aggregator.canonical a (fst c)) (imports a) = Some merged /\
                      UnfK (a_types a) merged tm /\ SubCM tm tr.
Proof. intros ord cf fuel Col tag0 Ho Hs Ht. exact (flat_upper_bound ord Ho cf fuel Col Hs tag0 Ht). Qed.
Print Assumptions merge_upper_bound_partial.

(** [instance_merge_is_union] (and, for a requirement whose exports are all present already, [aggregate_idempotent] /
    [equal_requirements_merge_to_self] in the form "nothing observable changes"): one successful aggregation of a flat
    requirement into the import that carries its name (exact, or the semver-compatible one) leaves that import an
    interface whose export names are the first-seen union; every export keeps its tree (see [flat_upper_bound]'s
    invariant [carried] / [grows] in AggregatorHistory.v).  Full statement for arbitrary requirements (nested instances,
    named interfaces shared between imports): stated here, not proved. *)
Theorem instance_merge_is_union_partial : forall ord cf fuel (Col : types -> Prop) tag0,
  (forall t1 t2, Col t1 -> Col t2 -> t_tag t1 = t_tag t2 -> t1 = t2) -> (forall t, Col t -> t_tag t <> tag0) ->
  forall a s done c a' s' y oid exs,
  HInv Col tag0 a s done -> flat_contrib Col c ->
  (assoc (fst c) (a_imports a) = Some (KInstance y) \/
   (assoc (fst c) (a_imports a) = None /\ exists en, find_compat (fst c) (a_imports a) = Some (en, KInstance y))) ->
  get_if (a_types a) y = Some (mkif oid [] exs) ->
  aggregate ord cf fuel a s (fst c) (fst (snd c)) (snd (snd c)) = AOk (a', s') ->
  forall i x, snd (snd c) = KInstance i -> get_if (fst (snd c)) i = Some x ->
    exists exs', get_if (a_types a') y = Some (mkif oid [] exs') /\
                 map fst exs' = first_seen_union (map fst exs) (map fst (i_exports x)).
Proof. intros ord cf fuel Col tag0 Hs Ht. exact (flat_merge_is_union ord cf fuel Col Hs tag0 Ht). Qed.
Print Assumptions instance_merge_is_union_partial.

(** [aggregate_idempotent] / [equal_requirements_merge_to_self], flat form: aggregating a requirement all of whose exports
    the import already offers leaves the export names and the tree of every export as they were (if it succeeds; that it
    does succeed for equal requirements needs the completeness of the checker at the given fuel - not proved here).
    General [aggregate_idempotent]: refuted by [canonical_is_highest_refuted] (owned resources). *)
Theorem aggregate_idempotent_partial : forall ord cf fuel (Col : types -> Prop) tag0,
  (forall t1 t2, Col t1 -> Col t2 -> t_tag t1 = t_tag t2 -> t1 = t2) -> (forall t, Col t -> t_tag t <> tag0) ->
  forall a s done c a' s' y oid exs,
  HInv Col tag0 a s done -> flat_contrib Col c ->
  (assoc (fst c) (a_imports a) = Some (KInstance y) \/
   (assoc (fst c) (a_imports a) = None /\ exists en, find_compat (fst c) (a_imports a) = Some (en, KInstance y))) ->
  get_if (a_types a) y = Some (mkif oid [] exs) ->
  aggregate ord cf fuel a s (fst c) (fst (snd c)) (snd (snd c)) = AOk (a', s') ->
  forall i x, snd (snd c) = KInstance i -> get_if (fst (snd c)) i = Some x ->
    (forall en ek, In (en, ek) (i_exports x) -> In en (map fst exs)) ->
    exists exs', get_if (a_types a') y = Some (mkif oid [] exs') /\ map fst exs' = map fst exs /\
                 forall en k tr, assoc en exs = Some k -> UnfK (a_types a) k tr ->
                                 exists k', assoc en exs' = Some k' /\ UnfK (a_types a') k' tr.
Proof. intros ord cf fuel Col tag0 Hs Ht. exact (flat_idempotent_step ord cf fuel Col Hs tag0 Ht). Qed.
Print Assumptions aggregate_idempotent_partial.

(** [HInv] is the invariant of flat histories: it holds initially and after every successful flat aggregation. *)
Theorem flat_history_invariant : forall ord cf fuel (Col : types -> Prop) tag0,
  (forall l x, In x (ord l) -> In x l) ->
  (forall t1 t2, Col t1 -> Col t2 -> t_tag t1 = t_tag t2 -> t1 = t2) -> (forall t, Col t -> t_tag t <> tag0) ->
  HInv Col tag0 (agg0 tag0) st0 [] /\
  forall a s done c a' s', HInv Col tag0 a s done -> flat_contrib Col c -> ~ In (ckey c) (map ckey done) ->
    aggregate ord cf fuel a s (fst c) (fst (snd c)) (snd (snd c)) = AOk (a', s') -> HInv Col tag0 a' s' (c :: done).
Proof.
  intros ord cf fuel Col tag0 Ho Hs Ht. split; [exact (HInv_nil Col tag0) | exact (HInv_step ord Ho cf fuel Col Hs tag0 Ht)].
Qed.
Print Assumptions flat_history_invariant.

(** * 3. Order independence and failure

    Full statements: for permutations of the contributor list success is the same and the name -> tree map is the
    same up to the order of imports and exports; aggregation fails exactly when two contributors require
    incompatible definitions of one item.  FALSE of the faithful model (known finding interface-id-under-two-import-names:
    an interface identifier contributed under two import names is unified with the first interface of that identifier, but
    only when the second name is new at that moment): *)
Theorem aggregate_order_indep_refuted :
  exists l l', Permutation l l' /\ (exists a s, run l = inl (a, s)) /\ (exists p e, run l' = inr (p, AErr e)).
Proof. exact order_witness. Qed.
Print Assumptions aggregate_order_indep_refuted.

(** Proved for flat multisets, under the hypothesis that BOTH orders succeed: the canonical names agree and the merged
    requirement of every contributed name is the same tree up to the order of its exports (each is a subtype of the
    other).  Missing for the full partial statement ("success is the same"): completeness of the checker at the given
    fuel and absence of panics in the copy, i.e. a sufficient-fuel / well-formedness development for the aggregator's
    own growing collection (the fuel a copied type needs is not bounded by the contributors' fuel: a remapped alias chain
    can be longer than the source's). *)
Theorem aggregate_order_indep_partial : forall ord cf fuel (Col : types -> Prop) tag0,
  (forall l x, In x (ord l) -> In x l) ->
  (forall t1 t2, Col t1 -> Col t2 -> t_tag t1 = t_tag t2 -> t1 = t2) -> (forall t, Col t -> t_tag t <> tag0) ->
  forall l l' a s a' s', Forall (flat_contrib Col) l -> NoDup (map ckey l) -> Permutation l l' ->
  history_ok ord cf fuel tag0 l a s -> history_ok ord cf fuel tag0 l' a' s' ->
  forall n, In n (map fst l) ->
    Aggregator.canonical a n = Aggregator.canonical a' n /\
    exists m m' tm tm', assoc (Aggregator.canonical a n) (imports a) = Some m /\
                        assoc (Aggregator.canonical a' n) (imports a') = Some m' /\
                        UnfK (a_types a) m tm /\ UnfK (a_types a') m' tm' /\ SubCM tm tm' /\ SubCM tm' tm.
Proof. intros ord cf fuel Col tag0 Ho Hs Ht. exact (flat_order_indep ord Ho cf fuel Col Hs tag0 Ht). Qed.
Print Assumptions aggregate_order_indep_partial.

(** [fails_iff_conflict], the direction "a conflict makes the aggregation fail", for flat histories: in a successful
    history two contributions of one track agree on the tree of every export they share ([exports_of c en tr]: contribution
    c requires an export en with tree tr).  The converse (failure only on conflict) is refuted in general below and is
    not proved for flat histories (it needs the completeness/totality development mentioned above). *)
Theorem fails_iff_conflict_partial : forall ord cf fuel (Col : types -> Prop) tag0,
  (forall l x, In x (ord l) -> In x l) ->
  (forall t1 t2, Col t1 -> Col t2 -> t_tag t1 = t_tag t2 -> t1 = t2) -> (forall t, Col t -> t_tag t <> tag0) ->
  forall l a s, Forall (flat_contrib Col) l -> NoDup (map ckey l) -> history_ok ord cf fuel tag0 l a s ->
  forall c1 c2, In c1 l -> In c2 l -> compat_spec_b (fst c1) (fst c2) = true ->
  forall en tr1 tr2, exports_of c1 en tr1 -> exports_of c2 en tr2 -> tr1 = tr2.
Proof. intros ord cf fuel Col tag0 Ho Hs Ht. exact (flat_success_no_conflict ord Ho cf fuel Col Hs tag0 Ht). Qed.
Print Assumptions fails_iff_conflict_partial.

(** the merged map itself can depend on the order even when every order succeeds (one interface identifier under two
    import names) *)
Theorem aggregate_order_indep_map_refuted :
  exists l l' a s a' s' n t t', Permutation l l' /\ run l = inl (a, s) /\
    run l' = inl (a', s') /\ merged_tree a n = Some t /\ merged_tree a' n = Some t' /\ ~ SubCM t' t.
Proof.
  destruct shared_id_witness as [l [l' [a [s [a' [s' [n [t [t' [P [H1 [H2 [H3 [H4 H5]]]]]]]]]]]]]].
  exists l, l', a, s, a', s', n, t, t'. refine (conj P (conj H1 (conj H2 (conj H3 (conj H4 _))))).
  intro X. apply sub_b_iff in X. congruence.
Qed.
Print Assumptions aggregate_order_indep_map_refuted.

(** failure without a conflict: three contributions, the first alone on its name, the other two under one other name with
    a merge that satisfies both - and the aggregation fails (same witness, the failing order) *)
Theorem fails_iff_conflict_refuted :
  exists l p e tb tc tm, run l = inr (p, AErr e) /\ length l = 3%nat /\
    compat_spec_b (fst (nth 0 l dflt)) (fst (nth 1 l dflt)) = false /\ fst (nth 1 l dflt) = fst (nth 2 l dflt) /\
    req_tree (nth 1 l dflt) = Some tb /\ req_tree (nth 2 l dflt) = Some tc /\
    tmerge tb tc = Some tm /\ SubCM tm tb /\ SubCM tm tc.
Proof.
  destruct failure_witness_shared as [l [p [e [tb [tc [tm [H1 [H2 [_ [H4 [H5 [H6 [H7 [H8 [H9 H10]]]]]]]]]]]]]]].
  exists l, p, e, tb, tc, tm.
  refine (conj H1 (conj H2 (conj H5 (conj _ (conj H6 (conj H7 (conj H8 (conj _ _)))))))); [|now apply sub_b_iff|now apply sub_b_iff].
  now apply SemverProofs.str_eqb_eq.
Qed.
Print Assumptions fails_iff_conflict_refuted.

(** Regression: the witnesses that refuted [merge_upper_bound], [aggregate_order_indep] and [fails_iff_conflict] before the
    repairs 0bf540d (nested instances) and 874f221 (alias of a primitive) now behave as the property demands: nested
    instances {a} + {a,b} and {a} + {b} merge to a type every contributor is satisfied by, a conflict below a nested
    instance fails in every order, and the aliased primitive no longer panics.  (The same case lines are replayed on the
    real aggregator from corpus/C09/cases.txt.) *)
Example repaired_witnesses :
  (exists a s tm, run w_nested = inl (a, s) /\ merged_tree a [102;111;111] = Some tm /\
                  forall c, In c w_nested -> exists tr, req_tree c = Some tr /\ sub_b tm tr = true) /\
  (exists a s tm, run w_disjoint = inl (a, s) /\ merged_tree a [102;111;111] = Some tm /\
                  forall c, In c w_disjoint -> exists tr, req_tree c = Some tr /\ sub_b tm tr = true) /\
  (exists a s tm, run w_panic = inl (a, s) /\ merged_tree a [102;111;111] = Some tm /\
                  forall c, In c w_panic -> exists tr, req_tree c = Some tr /\ sub_b tm tr = true) /\
  (exists p e, run w_order = inr (p, AErr e)).
Proof. exact (conj nested_now_united (conj disjoint_now_united (conj alias_primitive_no_panic (proj1 nested_conflict_fails)))). Qed.

(** Non-vacuity of the flat theorems: interfaces {f}, {g}, {f,h} identified by their import names, three versions of one
    track, merge to the union under the highest version. *)
Example flat_nonvacuous :
  Forall (flat_contrib flat_col) w_flat /\ NoDup (map ckey w_flat) /\
  (forall t1 t2, flat_col t1 -> flat_col t2 -> t_tag t1 = t_tag t2 -> t1 = t2) /\ (forall t, flat_col t -> t_tag t <> 0) /\
  exists a s, run w_flat = inl (a, s) /\ map fst (imports a) = [n_023] /\
              merged_tree a n_023 =
              Some (XInst [([102], XFunc (mkft [] None false)); ([103], XFunc (mkft [([120], VTPrim PU8)] None false));
                           ([104], XFunc (mkft [] (Some (VTPrim PString)) false))]).
Proof. exact (conj w_flat_flat (conj w_flat_distinct (conj flat_col_same (conj flat_col_tag flat_merged)))). Qed.

(** Non-vacuity of the partial theorems: three versions of one track arriving as 0.2.1, 0.2.0, 0.2.3. *)
Example canonical_nonvacuous :
  owner_free_history w_flat /\
  exists a s, run w_flat = inl (a, s) /\ map fst (imports a) = [n_023] /\
              map (Aggregator.canonical a) (map fst w_flat) = [n_023; n_023; n_023].
Proof.
  split; [exact w_flat_owner_free|]. destruct flat_run as [a [s [H1 [H2 [H3 _]]]]]. exists a, s. exact (conj H1 (conj H2 H3)).
Qed.

(** * 4. NESTED instance requirements (instance exports below instance exports; repository commit 0bf540d)

    Scope of this section ([nested_contrib Col c], proofs/AggregatorNestedDen.v, AggregatorNestedHistory.v): the contribution is
    [KInstance i] and [i] is the root of a nest of interfaces of its collection: no `use`s, pairwise different export
    names, every export is a leaf (function, value, value type with a resource-free tree) or again an instance whose
    interface is ANONYMOUS ([SIDen]); the root has no identifier or the import name as identifier; no owned resource
    aliases.  Nothing is assumed about SHARING: one anonymous interface may be mentioned under several exports of one
    contribution, by several contributions, under several import names, and one contribution may occur several times in
    a history (before the repair of known finding nested-interface-with-two-parents every nested interface had to have
    exactly one parent and no interface could be reached from two contributions - hypotheses [shaped] on the contributor and
    [once]/[apart] on the history, both gone).  The executable form of the hypothesis is [ncontrib_b]
    ([nested_contrib_decidable]).

    Invariant [NestInv Col tag0 a s done] (the tree-shaped generalisation of [HInv]):
      - the names bookkeeping [NInv] and the remap/memo invariant [MInv] as before;
      - OWNERSHIP: every import is the root of a TREE in the aggregator's collection ([IDen]: inside one tree no interface has
        two parents, [shaped] - the aggregator copies an anonymous interface once per mention) and the trees of different
        imports share no interface; hence a merge below one import, or below one export, leaves every other one alone
        ([MFrame]): nothing asked of one name leaks into another;
      - SEMANTICS: the tree of import [n] is the left-to-right [tmerge] (spec/AggregatorSpec.v: recursive first-seen union,
        equal leaves) of the trees of the contributions whose canonical name is [n], in arrival order ([MergedOf]).
    The link model -> specification is [ML_all] (proofs/AggregatorNestedMerge.v): a successful [merge_interface] of a
    nested requirement into a nested interface computes [union_with (tmerge_f n)]; no fuel hypothesis is needed (all
    statements are about successful aggregations; [deep_run] shows that fuel 60 suffices for a depth-3 history, and
    results other than out-of-fuel do not depend on the fuel).
    NOT covered: nested interfaces WITH an identifier (they are unified through the interface table: refuted below),
    `use`d types, resources, components. *)
From WacV Require Import AggregatorNestedSpec AggregatorNestedDen AggregatorNestedMerge AggregatorNestedHistory
     AggregatorNestedTheorems AggregatorNestedWitness.

(** [NestInv] holds initially and after every successful aggregation of a nested contribution. *)
Theorem nested_history_invariant : forall ord cf fuel (Col : types -> Prop) tag0,
  (forall l x, In x (ord l) -> In x l) ->
  (forall t1 t2, Col t1 -> Col t2 -> t_tag t1 = t_tag t2 -> t1 = t2) -> (forall t, Col t -> t_tag t <> tag0) ->
  NestInv Col tag0 (agg0 tag0) st0 [] /\
  forall a s done c a' s', NestInv Col tag0 a s done -> nested_contrib Col c ->
    aggregate ord cf fuel a s (fst c) (fst (snd c)) (snd (snd c)) = AOk (a', s') -> NestInv Col tag0 a' s' (c :: done).
Proof.
  intros ord cf fuel Col tag0 Ho Hs Ht. split; [exact (NestInv_nil Col tag0)|].
  intros a s done c a' s' HI [tr [ids Hc]]. exact (NestInv_step ord Ho cf fuel Col Hs tag0 Ht a s done c tr ids a' s' HI Hc).
Qed.
Print Assumptions nested_history_invariant.

(** [merge_upper_bound] for nested histories: merged <: required, in the declarative relation, for every contributor. *)
Theorem merge_upper_bound_nested_partial : forall ord cf fuel (Col : types -> Prop) tag0,
  (forall l x, In x (ord l) -> In x l) ->
  (forall t1 t2, Col t1 -> Col t2 -> t_tag t1 = t_tag t2 -> t1 = t2) -> (forall t, Col t -> t_tag t <> tag0) ->
  forall l a s, Forall (nested_contrib Col) l -> history_ok ord cf fuel tag0 l a s ->
  forall c, In c l -> forall tr, UnfK (fst (snd c)) (snd (snd c)) tr ->
    exists merged tm, assoc (Aggregator.canonical a (fst c)) (imports a) = Some merged /\
                      UnfK (a_types a) merged tm /\ SubCM tm tr.
Proof. intros ord cf fuel Col tag0 Ho Hs Ht. exact (nested_upper_bound ord Ho cf fuel Col Hs tag0 Ht). Qed.
Print Assumptions merge_upper_bound_nested_partial.

(** [instance_merge_is_union], recursively: one successful aggregation of a nested requirement (tree [tb]) into the import
    that carries its name (exact, or the semver-compatible one; tree [ta]) leaves that import with the specification's
    [tmerge ta tb]: the export names are the first-seen union, an export only one side has keeps its tree, an export both
    have is their [tmerge] - and so on below every nested instance.  In particular (known finding
    nested-interface-with-two-parents, repaired) an export that only the import has keeps its tree even when the interface
    behind it was, in its contributor's collection, the same interface as one that is merged now: what is asked of one
    export does not leak into another. *)
Theorem instance_merge_is_union_nested_partial : forall ord cf fuel (Col : types -> Prop) tag0,
  (forall t1 t2, Col t1 -> Col t2 -> t_tag t1 = t_tag t2 -> t1 = t2) -> (forall t, Col t -> t_tag t <> tag0) ->
  forall a s done c a' s' y,
  NestInv Col tag0 a s done -> nested_contrib Col c ->
  (assoc (fst c) (a_imports a) = Some (KInstance y) \/
   (assoc (fst c) (a_imports a) = None /\ exists en, find_compat (fst c) (a_imports a) = Some (en, KInstance y))) ->
  aggregate ord cf fuel a s (fst c) (fst (snd c)) (snd (snd c)) = AOk (a', s') ->
  forall ta tb, UnfK (a_types a) (KInstance y) ta -> UnfK (fst (snd c)) (snd (snd c)) tb ->
    exists ea eb em, ta = XInst ea /\ tb = XInst eb /\ UnfK (a_types a') (KInstance y) (XInst em) /\
      tmerge ta tb = Some (XInst em) /\
      map fst em = first_seen_union (map fst ea) (map fst eb) /\
      forall k, match assoc k ea, assoc k eb with
                | Some x, Some z => exists m, tmerge x z = Some m /\ assoc k em = Some m
                | Some x, None => assoc k em = Some x
                | None, Some z => assoc k em = Some z
                | None, None => assoc k em = None
                end.
Proof. intros ord cf fuel Col tag0 Hs Ht. exact (nested_merge_is_union ord cf fuel Col Hs tag0 Ht). Qed.
Print Assumptions instance_merge_is_union_nested_partial.

(** [aggregate_idempotent] / [equal_requirements_merge_to_self]: a requirement that the import already satisfies
    ([SubCM ta tb]; in particular the same requirement contributed again from another collection) leaves the import's
    whole tree as it was. *)
Theorem aggregate_idempotent_nested_partial : forall ord cf fuel (Col : types -> Prop) tag0,
  (forall t1 t2, Col t1 -> Col t2 -> t_tag t1 = t_tag t2 -> t1 = t2) -> (forall t, Col t -> t_tag t <> tag0) ->
  forall a s done c a' s' y,
  NestInv Col tag0 a s done -> nested_contrib Col c ->
  (assoc (fst c) (a_imports a) = Some (KInstance y) \/
   (assoc (fst c) (a_imports a) = None /\ exists en, find_compat (fst c) (a_imports a) = Some (en, KInstance y))) ->
  aggregate ord cf fuel a s (fst c) (fst (snd c)) (snd (snd c)) = AOk (a', s') ->
  forall ta tb, UnfK (a_types a) (KInstance y) ta -> UnfK (fst (snd c)) (snd (snd c)) tb -> SubCM ta tb ->
    UnfK (a_types a') (KInstance y) ta.
Proof. intros ord cf fuel Col tag0 Hs Ht. exact (nested_idempotent ord cf fuel Col Hs tag0 Ht). Qed.
Print Assumptions aggregate_idempotent_nested_partial.

(** [fails_iff_conflict], direction "a conflict makes the aggregation fail": if the specification has no merge of the
    import's tree and the requirement ([tmerge] = None: somewhere below, a same-named export is a leaf on one side and an
    instance on the other, or two different leaves) the aggregation does not succeed; and in a successful history any two
    contributions of one track are mergeable.  (The converse direction is refuted in section 3 for interfaces with
    identifiers; for nested contributions it needs the completeness/totality development mentioned in section 3.) *)
Theorem fails_iff_conflict_nested_partial : forall ord cf fuel (Col : types -> Prop) tag0,
  (forall l x, In x (ord l) -> In x l) ->
  (forall t1 t2, Col t1 -> Col t2 -> t_tag t1 = t_tag t2 -> t1 = t2) -> (forall t, Col t -> t_tag t <> tag0) ->
  (forall a s done c y,
    NestInv Col tag0 a s done -> nested_contrib Col c ->
    (assoc (fst c) (a_imports a) = Some (KInstance y) \/
     (assoc (fst c) (a_imports a) = None /\ exists en, find_compat (fst c) (a_imports a) = Some (en, KInstance y))) ->
    forall ta tb, UnfK (a_types a) (KInstance y) ta -> UnfK (fst (snd c)) (snd (snd c)) tb -> tmerge ta tb = None ->
      forall r, aggregate ord cf fuel a s (fst c) (fst (snd c)) (snd (snd c)) <> AOk r) /\
  (forall l a s, Forall (nested_contrib Col) l -> history_ok ord cf fuel tag0 l a s ->
    forall c1 c2, In c1 l -> In c2 l -> compat_spec_b (fst c1) (fst c2) = true ->
    forall tr1 tr2, UnfK (fst (snd c1)) (snd (snd c1)) tr1 -> UnfK (fst (snd c2)) (snd (snd c2)) tr2 ->
      exists tm, tmerge tr1 tr2 = Some tm).
Proof.
  intros ord cf fuel Col tag0 Ho Hs Ht. split.
  - exact (nested_conflict_fails ord cf fuel Col Hs tag0 Ht).
  - exact (nested_success_no_conflict ord Ho cf fuel Col Hs tag0 Ht).
Qed.
Print Assumptions fails_iff_conflict_nested_partial.

(** [aggregate_order_indep] for nested multisets, under the hypothesis that BOTH orders succeed (as in the flat case:
    "success is the same" needs the completeness/totality development): same canonical names, and the merged trees are
    mutual subtypes (equal up to the order of exports at every level). *)
Theorem aggregate_order_indep_nested_partial : forall ord cf fuel (Col : types -> Prop) tag0,
  (forall l x, In x (ord l) -> In x l) ->
  (forall t1 t2, Col t1 -> Col t2 -> t_tag t1 = t_tag t2 -> t1 = t2) -> (forall t, Col t -> t_tag t <> tag0) ->
  forall l l' a s a' s', Forall (nested_contrib Col) l -> Permutation l l' ->
  history_ok ord cf fuel tag0 l a s -> history_ok ord cf fuel tag0 l' a' s' ->
  forall n, In n (map fst l) ->
    Aggregator.canonical a n = Aggregator.canonical a' n /\
    exists m m' tm tm', assoc (Aggregator.canonical a n) (imports a) = Some m /\
                        assoc (Aggregator.canonical a' n) (imports a') = Some m' /\
                        UnfK (a_types a) m tm /\ UnfK (a_types a') m' tm' /\ SubCM tm tm' /\ SubCM tm' tm.
Proof. intros ord cf fuel Col tag0 Ho Hs Ht. exact (nested_order_indep ord Ho cf fuel Col Hs tag0 Ht). Qed.
Print Assumptions aggregate_order_indep_nested_partial.

(** the specification's merge on nested-flat trees ([wt d]): a lower bound of both arguments, the greatest one, absorbs
    what it already satisfies, and exists whenever the two have any common refinement *)
Theorem tmerge_is_meet : forall d a b,
  wt d a -> wt d b ->
  (forall m, tmerge a b = Some m -> wt d m /\ SubCM m a /\ SubCM m b /\ forall z, SubCM z a -> SubCM z b -> SubCM z m) /\
  (SubCM a b -> tmerge a b = Some a) /\
  (forall z, SubCM z a -> SubCM z b -> exists m, tmerge a b = Some m).
Proof.
  intros d a b Wa Wb. split; [|split].
  - intros m H. destruct (tmerge_upper d a b m Wa Wb H) as [Wm [Ma [Mb _]]]. split; auto. split; auto. split; auto.
    intros z. exact (tmerge_glb d a b m z Wa Wb H).
  - exact (tmerge_absorb d a b Wa Wb).
  - intros z. exact (tmerge_total d a b z Wa Wb).
Qed.
Print Assumptions tmerge_is_meet.

(** the hypothesis is decidable ([ncontrib_b G d c]: fuel [G] for the leaves, depth [d]; it does not look at how the
    interfaces are shared) *)
Theorem nested_contrib_decidable : forall (Col : types -> Prop) G d c,
  Col (fst (snd c)) -> owner_free (fst (snd c)) -> ncontrib_b G d c = true -> nested_contrib Col c.
Proof. exact ncontrib_b_sound. Qed.
Print Assumptions nested_contrib_decidable.

(** Regression (known finding nested-interface-with-two-parents, repaired; before the repair these two histories refuted
    [instance_merge_is_union] and [fails_iff_conflict] for nested requirements).
    (a) An interface with two parents INSIDE one contributor - foo: {n: I, m: I}, I = {f}, then foo: {n: {g}}: every mention of
    I is copied, the merge below [n] leaves [m] alone, the merged requirement IS the union [tmerge ta tb] =
    {n: {f, g}, m: {f}}.  Both contributions are nested contributions.
    (b) ... and with a third contribution {m: {g: func(x: u8)}}, which conflicts with nothing anybody required, the history
    succeeds in the order 1,2,3 as well as in the order 2,3,1, with the specification's merged tree.
    The theorems above apply to these histories ([w_dag3_nested]); the same case lines are replayed on the real aggregator
    from corpus/C09/cases.txt. *)
Example repaired_shared_child :
  (exists a s tm ta tb, run w_dag = inl (a, s) /\ merged_tree a [102;111;111] = Some tm /\
     req_tree (nth 0 w_dag dflt) = Some ta /\ req_tree (nth 1 w_dag dflt) = Some tb /\ tmerge ta tb = Some tm /\
     tm = XInst [([110], XInst [([102], XFunc (mkft [] None false)); ([103], XFunc (mkft [] None false))]);
                 ([109], XInst [([102], XFunc (mkft [] None false))])] /\
     SubCM tm ta /\ SubCM tm tb /\
     ncontrib_b 4 3 (nth 0 w_dag dflt) = true /\ ncontrib_b 4 3 (nth 1 w_dag dflt) = true) /\
  (exists l' a s a' s' ta tb tc tab tabc, Permutation w_dag3 l' /\ run w_dag3 = inl (a, s) /\ run l' = inl (a', s') /\
     req_tree (nth 0 w_dag3 dflt) = Some ta /\ req_tree (nth 1 w_dag3 dflt) = Some tb /\ req_tree (nth 2 w_dag3 dflt) = Some tc /\
     tmerge ta tb = Some tab /\ tmerge tab tc = Some tabc /\ merged_tree a [102;111;111] = Some tabc /\
     exists t', merged_tree a' [102;111;111] = Some t' /\ SubCM t' tabc /\ SubCM tabc t') /\
  Forall (nested_contrib dag_col) w_dag3 /\
  (forall t1 t2, dag_col t1 -> dag_col t2 -> t_tag t1 = t_tag t2 -> t1 = t2) /\ (forall t, dag_col t -> t_tag t <> 0).
Proof.
  split; [|split; [|exact (conj w_dag3_nested (conj dag_col_same dag_col_tag))]].
  - destruct shared_child_now_union as [a [s [tm [ta [tb [H1 [H2 [H3 [H4 [H5 [H6 [H7 [H8 [H9 H10]]]]]]]]]]]]]].
    exists a, s, tm, ta, tb. refine (conj H1 (conj H2 (conj H3 (conj H4 (conj H5 (conj H6 (conj _ (conj _ (conj H9 H10))))))))).
    + now apply sub_b_iff.
    + now apply sub_b_iff.
  - destruct shared_child_order_independent
      as [l' [a [s [a' [s' [ta [tb [tc [tab [tabc [P [H1 [H2 [H3 [H4 [H5 [H6 [H7 [H8 [t' [H9 [H10 H11]]]]]]]]]]]]]]]]]]]]]].
    exists l', a, s, a', s', ta, tb, tc, tab, tabc.
    refine (conj P (conj H1 (conj H2 (conj H3 (conj H4 (conj H5 (conj H6 (conj H7 (conj H8 _))))))))).
    exists t'. refine (conj H9 (conj _ _)); now apply sub_b_iff.
Qed.

(** Full statements (nested interfaces WITH an identifier): FALSE of the faithful model. *)
(** Sharing through the interface table: a nested interface WITH an identifier is unified with the interface of that
    identifier already registered - foo: {n: d{f}}, bar: {n: d{g}} on different tracks: afterwards foo requires [g] below
    [n] (merged foo is not satisfied by foo's only contributor's own tree; the contributor is satisfied by merged).
    Known finding interface-id-under-two-import-names, nested form.  Restored by anonymous nested interfaces ([IDen]). *)
Theorem nested_interface_table_refuted :
  exists l a s tm ta, run l = inl (a, s) /\ length l = 2%nat /\ compat_spec_b (fst (nth 0 l dflt)) (fst (nth 1 l dflt)) = false /\
    merged_tree a (fst (nth 0 l dflt)) = Some tm /\ req_tree (nth 0 l dflt) = Some ta /\ ~ SubCM ta tm /\ SubCM tm ta.
Proof.
  destruct table_shared_child_not_union as [l [a [s [tm [ta [H1 [H2 [H3 [H4 [H5 [H6 H7]]]]]]]]]]].
  exists l, a, s, tm, ta. refine (conj H1 (conj H2 (conj H3 (conj H4 (conj H5 (conj _ _)))))).
  - intro X. apply sub_b_iff in X. congruence.
  - now apply sub_b_iff.
Qed.
Print Assumptions nested_interface_table_refuted.

(** Non-vacuity of the nested theorems: three versions of one track, interfaces named by their import names, two levels
    of nesting, overlapping and disjoint nested exports; the merged tree equals the executable specification [spec_merge]. *)
Example nested_nonvacuous :
  Forall (nested_contrib deep_col) w_deep /\
  (forall t1 t2, deep_col t1 -> deep_col t2 -> t_tag t1 = t_tag t2 -> t1 = t2) /\ (forall t, deep_col t -> t_tag t <> 0) /\
  exists a s tm, run w_deep = inl (a, s) /\ map fst (imports a) = [n_023] /\ merged_tree a n_021 = Some tm /\
                 spec_merge (map (fun c => (fst c, match req_tree c with Some t => t | None => XInst [] end)) w_deep) = Some [(n_023, tm)].
Proof.
  refine (conj w_deep_nested (conj deep_col_same (conj deep_col_tag _))).
  eexists _, _, _. split; [vm_compute; reflexivity|]. split; [vm_compute; reflexivity|]. split; vm_compute; reflexivity.
Qed.

(** * 5. Fuel

    The recursion of the Rust code over nested instance exports ([merge_interface] <-> [remap_interface]) is on explicit fuel
    in the model.  (a) Fuel is only a bound: every outcome other than "out of fuel" - success with its final state, or the
    position and class of the first failure - is the same for every larger fuel.  (b) The fuel the NESTED recursion needs is
    bounded by the depth [d] of the contributor's requirement ([SDen]/[SIDen]: interfaces may be shared): with fuel >= 2*d + L + 2 a merge (2*d + L: a copy) can only run out
    of fuel because a LEAF (function, value, value type) of the contributor could not be copied with fuel >= L, or
    because the SubtypeChecker (its fuel [cf] is a separate parameter) answered OutOfFuel - in whatever state the
    aggregator is.  The leaf copies are bounded as well ([nested_fuel_suffices]); NOT proved: a bound for the checker's own
    fuel [cf] (the flat development has none either: the aggregator's growing collection would need a
    well-formedness/ranking invariant). *)
From WacV Require Import AggregatorFuelMono AggregatorNestedFuel AggregatorNestedLeafFuel.

Theorem aggregate_fuel_monotone : forall ord cf f f',
  (f <= f')%nat ->
  (forall a s name t k r, aggregate ord cf f a s name t k = r -> r <> AOof -> aggregate ord cf f' a s name t k = r) /\
  (forall l a s pos res, aggregate_all ord cf f a s l pos = res -> (forall p, res <> inr (p, AOof)) ->
                         aggregate_all ord cf f' a s l pos = res).
Proof.
  intros ord cf f f' Lf. split.
  - intros a s name t k r. exact (aggregate_fuel_mono ord cf f f' a s name t k r Lf).
  - exact (aggregate_all_fuel_mono ord cf f f' Lf).
Qed.
Print Assumptions aggregate_fuel_monotone.

Theorem nested_fuel_bound : forall ord cf t L d,
  (forall i oid e ids, SIDen d t i oid e ids -> forall F y c, (2 * d + L + 2 <= F)%nat ->
     merge_interface ord cf F y t i c = AOof -> LeafOof ord cf t L \/ ChkOof cf t) /\
  (forall k tr ids, SDen d t k tr ids -> forall F c, (2 * d + L <= F)%nat ->
     remap_item_kind ord cf F t k c = AOof -> LeafOof ord cf t L).
Proof.
  intros ord cf t L d. split.
  - intros i oid e ids. exact (nested_merge_fuel_bound ord cf t L d i oid e ids).
  - intros k tr ids. exact (nested_copy_fuel_bound ord cf t L d k tr ids).
Qed.
Print Assumptions nested_fuel_bound.

(** ... and the leaf clause is empty once [L >= 2*g + 2], [g] a fuel at which [unfold] computes the tree of every
    resource-free leaf kind of the contributor's collection: a nested requirement of depth [d] is copied with fuel
    2*d + 2*g + 2 whatever the state; it is merged with fuel 2*d + 2*g + 4 unless the checker runs out of ITS fuel. *)
Theorem nested_fuel_suffices : forall ord cf t g d,
  (forall k0 tr0, leaf_den t k0 tr0 -> unfold g t k0 = Some tr0) ->
  (forall k tr ids, SDen d t k tr ids -> forall F c, (2 * d + 2 * g + 2 <= F)%nat -> remap_item_kind ord cf F t k c <> AOof) /\
  (forall i oid e ids, SIDen d t i oid e ids -> forall F y c, (2 * d + 2 * g + 4 <= F)%nat ->
     merge_interface ord cf F y t i c = AOof -> ChkOof cf t).
Proof.
  intros ord cf t g d Hg. split.
  - intros k tr ids. exact (nested_copy_total ord cf t g d k tr ids Hg).
  - intros i oid e ids. exact (nested_merge_total ord cf t g d i oid e ids Hg).
Qed.
Print Assumptions nested_fuel_suffices.
