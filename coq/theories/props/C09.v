(** Property C09 — merged import requirements satisfy every contributor, order-independently.

    This file holds statements only; every proof is [exact <lemma>] (proofs/Aggregator*.v).
    Model: model/Aggregator.v ([aggregate], [aggregate_all], [imports], [canonical]); specification:
    spec/AggregatorSpec.v, spec/NamesSpec.v ([compat_spec_b], [higher]), spec/SubSpec.v ([SubCM], [sub_b]).

    A *history* is a list of contributions [(name, (types, kind))] aggregated in order into the empty aggregator
    with one shared checker: [aggregate_all ord cf fuel (agg0 tag) st0 l 0 = inl (a, s)] says that all of them
    succeeded and left the aggregator [a].  [ord] is the iteration order of the [interfaces] table.

    Overview (clauses of the property -> theorems):
      canonical name = highest contributed version, one per track, idempotent, redirects total, other tracks untouched
          canonical_is_highest_partial, redirects_total_partial, canonical_idempotent_partial, canonical_is_spec_partial,
          other_tracks_untouched_partial, canonical_order_indep_partial            (owner-free histories)
          canonical_is_highest_refuted                                             (general: owned resources)
      merged type satisfies every contributor
          merge_upper_bound_partial                                                (flat histories; not nested instances)
          merge_upper_bound_refuted                                                (general: component requirements)
      instance requirements merge to the union / equal requirements merge to themselves / idempotence
          instance_merge_is_union_partial, aggregate_idempotent_partial, flat_history_invariant   (flat)
      order independence
          aggregate_order_indep_partial (flat, both orders succeed), canonical_order_indep_partial (owner-free)
          aggregate_order_indep_refuted, aggregate_order_indep_map_refuted         (general)
      fails exactly on conflict
          fails_iff_conflict_partial ("conflict => failure", flat); fails_iff_conflict_refuted (general, other direction)
    The model follows the repaired aggregator (repository commits 874f221 and 0bf540d: nested instance exports are merged
    recursively; an aliased primitive is not recorded as replacement of the primitive).  The witnesses that refuted the
    general statements before the repairs are kept as regression Examples ([repaired_witnesses]).
    Not proved: "failure only on conflict" and "success is order independent" for flat histories (need completeness of the
    checker at the given fuel and panic-freedom of the copy); anything about `use`d types and resources beyond the model
    itself (their behaviour is covered by the correspondence and the executable specification only). *)
From Coq Require Import Permutation.
From WacV Require Import Str Names NamesSpec Types Checker SubSpec Aggregator AggregatorSpec.
From WacV Require Import SubSpecProofs AggregatorFrame AggregatorNames AggregatorCanonical AggregatorRemap AggregatorFlat
     AggregatorHistory AggregatorWitness.

Notation history_ok ord cf fuel tag l a s := (aggregate_all ord cf fuel (agg0 tag) st0 l 0 = inl (a, s)).
(** the concrete histories of the refutations run with the identity HashMap order, checker fuel 40, fuel 60 *)
Lemma run_is : forall l, run l = aggregate_all (fun x => x) 40 60 (agg0 0) st0 l 0.
Proof. reflexivity. Qed.
Notation owner_free_history l := (Forall (fun c : str * (types * kind) => owner_free (fst (snd c))) l).

(** * 1. Canonical names

    Full statement (for every history): after any sequence of successful aggregations every contributed name maps,
    through the redirects, to ONE canonical name per semver track; that name was contributed, is an import, and no
    contributed name of the track has a higher version; [canonical] is idempotent; names of other tracks are untouched.

    FALSE of the faithful model in general ([canonical_is_highest_refuted] below, replayed on the real aggregator:
    known finding owner-import-bypasses-canonical-name).  Proved for histories in which no contributor collection
    contains a resource alias with an owning interface ([owner_free]: [remap_resource] then never touches the imports). *)
Theorem canonical_is_highest_partial : forall ord cf fuel tag l a s,
  owner_free_history l -> history_ok ord cf fuel tag l a s ->
  forall n, In n (map fst l) ->
    In (Aggregator.canonical a n) (map fst l) /\
    compat_spec_b n (Aggregator.canonical a n) = true /\
    (forall m, In m (map fst l) -> compat_spec_b n m = true -> higher m (Aggregator.canonical a n) = false) /\
    (forall m, In m (map fst l) -> compat_spec_b n m = true -> Aggregator.canonical a m = Aggregator.canonical a n).
Proof. intros ord cf fuel tag l a s OF H. exact (history_canonical_is_highest ord cf fuel tag l a s OF H). Qed.
Print Assumptions canonical_is_highest_partial.

Theorem redirects_total_partial : forall ord cf fuel tag l a s,
  owner_free_history l -> history_ok ord cf fuel tag l a s ->
  (forall n, In n (map fst l) -> In (Aggregator.canonical a n) (map fst (imports a))) /\
  (forall k, In k (map fst (imports a)) -> In k (map fst l) /\ Aggregator.canonical a k = k) /\
  (forall k1 k2, In k1 (map fst (imports a)) -> In k2 (map fst (imports a)) -> compat_spec_b k1 k2 = true -> k1 = k2).
Proof.
  intros ord cf fuel tag l a s OF H. split; [|split].
  - exact (history_redirects_total ord cf fuel tag l a s OF H).
  - exact (history_imports_contributed ord cf fuel tag l a s OF H).
  - exact (history_one_import_per_track ord cf fuel tag l a s OF H).
Qed.
Print Assumptions redirects_total_partial.

Theorem canonical_idempotent_partial : forall ord cf fuel tag l a s,
  owner_free_history l -> history_ok ord cf fuel tag l a s ->
  forall n, Aggregator.canonical a (Aggregator.canonical a n) = Aggregator.canonical a n.
Proof. intros ord cf fuel tag l a s OF H. exact (history_canonical_idempotent ord cf fuel tag l a s OF H). Qed.
Print Assumptions canonical_idempotent_partial.

(** ... and it is the name the executable specification ([spec_canonical], evaluated by the check on the implementation's
    observations) computes from the list of contributed names *)
Theorem canonical_is_spec_partial : forall ord cf fuel tag l a s,
  owner_free_history l -> history_ok ord cf fuel tag l a s ->
  forall n, In n (map fst l) -> Aggregator.canonical a n = spec_canonical (map fst l) n.
Proof. intros ord cf fuel tag l a s OF H. exact (history_canonical_is_spec ord cf fuel tag l a s OF H). Qed.
Print Assumptions canonical_is_spec_partial.

(** two successful histories over the same contributed names (any order, any HashMap order, any fuel) give every name the
    same canonical name and import the same names *)
Theorem canonical_order_indep_partial : forall ord ord' cf fuel cf' fuel' tag tag' l l' a a' s s',
  owner_free_history l -> owner_free_history l' -> (forall n, In n (map fst l) <-> In n (map fst l')) ->
  history_ok ord cf fuel tag l a s -> history_ok ord' cf' fuel' tag' l' a' s' ->
  (forall n, In n (map fst l) -> Aggregator.canonical a n = Aggregator.canonical a' n) /\
  (forall k, In k (map fst (imports a)) -> In k (map fst (imports a'))).
Proof.
  intros ord ord' cf fuel cf' fuel' tag tag' l l' a a' s s' O O' P H H'. split.
  - exact (canonical_order_indep ord ord' cf fuel cf' fuel' tag tag' l l' a a' s s' O O' P H H').
  - exact (import_names_order_indep ord ord' cf fuel cf' fuel' tag tag' l l' a a' s s' O O' P H H').
Qed.
Print Assumptions canonical_order_indep_partial.

(** one more aggregation leaves the canonical name of every name of another track alone *)
Theorem other_tracks_untouched_partial : forall ord cf fuel tag l a s name t k a' s',
  owner_free_history l -> history_ok ord cf fuel tag l a s -> owner_free t ->
  aggregate ord cf fuel a s name t k = AOk (a', s') ->
  forall m, compat m name = false -> Aggregator.canonical a' m = Aggregator.canonical a m.
Proof.
  intros ord cf fuel tag l a s name t k a' s' OF H OFt E m C.
  exact (aggregate_other_tracks ord cf fuel a s name t k a' s' _ m OFt (history_inv ord cf fuel tag l a s OF H) E C).
Qed.
Print Assumptions other_tracks_untouched_partial.

(** with owned resources: two imports on one track after a successful history, and aggregating the same
    requirements once more changes the import list (refutes [redirects_total] and [aggregate_idempotent] in general) *)
Theorem canonical_is_highest_refuted :
  exists l a s k1 k2, run l = inl (a, s) /\
    In k1 (map fst (imports a)) /\ In k2 (map fst (imports a)) /\ str_eqb k1 k2 = false /\ compat_spec_b k1 k2 = true /\
    exists a2 s2, aggregate_all (fun x => x) 40 60 a s l 0 = inl (a2, s2) /\
                  list_eqb str_eqb (map fst (imports a2)) (map fst (imports a)) = false.
Proof. exists w_owner. exact owner_witness. Qed.
Print Assumptions canonical_is_highest_refuted.

(** * 2. The merged type satisfies every contributor

    Full statement: for every successful history and every contribution (n, (t, k)) of it,
      Sub (unfold (a_types a) (imports a (canonical a n))) (unfold t k).
    FALSE of the faithful model: component requirements with different imports are merged by uniting the imports, which no
    contributor's requirement is satisfied by (replayed on the real aggregator and SubtypeChecker on every run: known finding
    component-imports-united).  (Before repository commit 0bf540d nested instances refuted it as well; see
    [repaired_witnesses].) *)
Theorem merge_upper_bound_refuted :
  exists l a s tm, run l = inl (a, s) /\ merged_tree a [102;111;111] = Some tm /\
    forall c, In c l -> exists tr, req_tree c = Some tr /\ ~ SubCM tm tr.
Proof.
  destruct upper_bound_witness_component as [a [s [tm [H1 [H2 H3]]]]].
  exists w_comp, a, s, tm. refine (conj H1 (conj H2 _)). intros c Hc. destruct (H3 c Hc) as [tr [E X]]. exists tr.
  refine (conj E _). intro Y. apply sub_b_iff in Y. congruence.
Qed.
Print Assumptions merge_upper_bound_refuted.

(** Proved for FLAT histories.  Vocabulary (proofs/AggregatorRemap.v, AggregatorFlat.v, AggregatorHistory.v):
    - [Col] is the set of contributor collections; two members with one arena tag are the same collection, and no member
      has the aggregator's tag [tag0];
    - [UnfK t k tr] := exists g, unfold g t k = Some tr        (the kind denotes the tree, at some fuel);
    - [leafk k]: k is a function, a value, or a value type      (KFunc | KValue | KType (TValue _));
    - [flat_if t x]: interface x has no uses, pairwise different export names, and every export is a leaf kind that
      denotes a resource-free tree in t;
    - [flat_contrib Col (n, (t, k))]: Col t, t has no owned resource alias, k = KInstance i with [flat_if t (t[i])], and the
      interface has no identifier or the import name itself as identifier (what world imports look like);
    - [ord] only ever yields entries of the table it is given ([forall l x, In x (ord l) -> In x l]);
    - [ckey]: the contributed interface (with its arena tag): each interface is contributed once.
    No fuel hypothesis is needed: the theorem speaks about successful histories, and an accepting checker verdict is
    sound whatever the fuel (AggregatorChecker.v).  Not covered: components (refuted above), resources,
    `use`d types, interfaces whose identifier differs from the import name, one interface contributed twice.
    Nested instances are NOT covered although the repaired aggregator merges them recursively: the invariant [HInv] tracks
    one flat interface per import; a recursive version (interfaces below interfaces, which other imports may share through
    the interface table) is a separate development. *)
Theorem merge_upper_bound_partial : forall ord cf fuel (Col : types -> Prop) tag0,
  (forall l x, In x (ord l) -> In x l) ->
  (forall t1 t2, Col t1 -> Col t2 -> t_tag t1 = t_tag t2 -> t1 = t2) -> (forall t, Col t -> t_tag t <> tag0) ->
  forall l a s, Forall (flat_contrib Col) l -> NoDup (map ckey l) -> history_ok ord cf fuel tag0 l a s ->
  forall c, In c l -> forall tr, UnfK (fst (snd c)) (snd (snd c)) tr ->
    exists merged tm, assoc (Aggregator.canonical a (fst c)) (imports a) = Some merged /\
                      UnfK (a_types a) merged tm /\ SubCM tm tr.
Proof. intros ord cf fuel Col tag0 Ho Hs Ht. exact (flat_upper_bound ord Ho cf fuel Col Hs tag0 Ht). Qed.
Print Assumptions merge_upper_bound_partial.

(** [instance_merge_is_union] (and, for a requirement whose exports are all present already, [aggregate_idempotent] /
    [equal_requirements_merge_to_self] in the form "nothing observable changes"): one successful aggregation of a flat
    requirement into the import that carries its name (exact, or the semver-compatible one) leaves that import an
    interface whose export names are the first-seen union; every export keeps its tree (see [flat_upper_bound]'s
    invariant [carried] / [grows] in AggregatorHistory.v).  Full statement for arbitrary requirements (nested instances,
    named interfaces shared between imports): stated here, not proved. *)
Theorem instance_merge_is_union_partial : forall ord cf fuel (Col : types -> Prop) tag0,
  (forall t1 t2, Col t1 -> Col t2 -> t_tag t1 = t_tag t2 -> t1 = t2) -> (forall t, Col t -> t_tag t <> tag0) ->
  forall a s done c a' s' y oid exs,
  HInv Col tag0 a s done -> flat_contrib Col c ->
  (assoc (fst c) (a_imports a) = Some (KInstance y) \/
   (assoc (fst c) (a_imports a) = None /\ exists en, find_compat (fst c) (a_imports a) = Some (en, KInstance y))) ->
  get_if (a_types a) y = Some (mkif oid [] exs) ->
  aggregate ord cf fuel a s (fst c) (fst (snd c)) (snd (snd c)) = AOk (a', s') ->
  forall i x, snd (snd c) = KInstance i -> get_if (fst (snd c)) i = Some x ->
    exists exs', get_if (a_types a') y = Some (mkif oid [] exs') /\
                 map fst exs' = first_seen_union (map fst exs) (map fst (i_exports x)).
Proof. intros ord cf fuel Col tag0 Hs Ht. exact (flat_merge_is_union ord cf fuel Col Hs tag0 Ht). Qed.
Print Assumptions instance_merge_is_union_partial.

(** [aggregate_idempotent] / [equal_requirements_merge_to_self], flat form: aggregating a requirement all of whose exports
    the import already offers leaves the export names and the tree of every export as they were (if it succeeds; that it
    does succeed for equal requirements needs the completeness of the checker at the given fuel - not proved here).
    General [aggregate_idempotent]: refuted by [canonical_is_highest_refuted] (owned resources). *)
Theorem aggregate_idempotent_partial : forall ord cf fuel (Col : types -> Prop) tag0,
  (forall t1 t2, Col t1 -> Col t2 -> t_tag t1 = t_tag t2 -> t1 = t2) -> (forall t, Col t -> t_tag t <> tag0) ->
  forall a s done c a' s' y oid exs,
  HInv Col tag0 a s done -> flat_contrib Col c ->
  (assoc (fst c) (a_imports a) = Some (KInstance y) \/
   (assoc (fst c) (a_imports a) = None /\ exists en, find_compat (fst c) (a_imports a) = Some (en, KInstance y))) ->
  get_if (a_types a) y = Some (mkif oid [] exs) ->
  aggregate ord cf fuel a s (fst c) (fst (snd c)) (snd (snd c)) = AOk (a', s') ->
  forall i x, snd (snd c) = KInstance i -> get_if (fst (snd c)) i = Some x ->
    (forall en ek, In (en, ek) (i_exports x) -> In en (map fst exs)) ->
    exists exs', get_if (a_types a') y = Some (mkif oid [] exs') /\ map fst exs' = map fst exs /\
                 forall en k tr, assoc en exs = Some k -> UnfK (a_types a) k tr ->
                                 exists k', assoc en exs' = Some k' /\ UnfK (a_types a') k' tr.
Proof. intros ord cf fuel Col tag0 Hs Ht. exact (flat_idempotent_step ord cf fuel Col Hs tag0 Ht). Qed.
Print Assumptions aggregate_idempotent_partial.

(** [HInv] is the invariant of flat histories: it holds initially and after every successful flat aggregation. *)
Theorem flat_history_invariant : forall ord cf fuel (Col : types -> Prop) tag0,
  (forall l x, In x (ord l) -> In x l) ->
  (forall t1 t2, Col t1 -> Col t2 -> t_tag t1 = t_tag t2 -> t1 = t2) -> (forall t, Col t -> t_tag t <> tag0) ->
  HInv Col tag0 (agg0 tag0) st0 [] /\
  forall a s done c a' s', HInv Col tag0 a s done -> flat_contrib Col c -> ~ In (ckey c) (map ckey done) ->
    aggregate ord cf fuel a s (fst c) (fst (snd c)) (snd (snd c)) = AOk (a', s') -> HInv Col tag0 a' s' (c :: done).
Proof.
  intros ord cf fuel Col tag0 Ho Hs Ht. split; [exact (HInv_nil Col tag0) | exact (HInv_step ord Ho cf fuel Col Hs tag0 Ht)].
Qed.
Print Assumptions flat_history_invariant.

(** * 3. Order independence and failure

    Full statements: for permutations of the contributor list success is the same and the name -> tree map is the
    same up to the order of imports and exports; aggregation fails exactly when two contributors require
    incompatible definitions of one item.  FALSE of the faithful model (known finding interface-id-under-two-import-names:
    an interface identifier contributed under two import names is unified with the first interface of that identifier, but
    only when the second name is new at that moment): *)
Theorem aggregate_order_indep_refuted :
  exists l l', Permutation l l' /\ (exists a s, run l = inl (a, s)) /\ (exists p e, run l' = inr (p, AErr e)).
Proof. exact order_witness. Qed.
Print Assumptions aggregate_order_indep_refuted.

(** Proved for flat multisets, under the hypothesis that BOTH orders succeed: the canonical names agree and the merged
    requirement of every contributed name is the same tree up to the order of its exports (each is a subtype of the
    other).  Missing for the full partial statement ("success is the same"): completeness of the checker at the given
    fuel and absence of panics in the copy, i.e. a sufficient-fuel / well-formedness development for the aggregator's
    own growing collection (the fuel a copied type needs is not bounded by the contributors' fuel: a remapped alias chain
    can be longer than the source's). *)
Theorem aggregate_order_indep_partial : forall ord cf fuel (Col : types -> Prop) tag0,
  (forall l x, In x (ord l) -> In x l) ->
  (forall t1 t2, Col t1 -> Col t2 -> t_tag t1 = t_tag t2 -> t1 = t2) -> (forall t, Col t -> t_tag t <> tag0) ->
  forall l l' a s a' s', Forall (flat_contrib Col) l -> NoDup (map ckey l) -> Permutation l l' ->
  history_ok ord cf fuel tag0 l a s -> history_ok ord cf fuel tag0 l' a' s' ->
  forall n, In n (map fst l) ->
    Aggregator.canonical a n = Aggregator.canonical a' n /\
    exists m m' tm tm', assoc (Aggregator.canonical a n) (imports a) = Some m /\
                        assoc (Aggregator.canonical a' n) (imports a') = Some m' /\
                        UnfK (a_types a) m tm /\ UnfK (a_types a') m' tm' /\ SubCM tm tm' /\ SubCM tm' tm.
Proof. intros ord cf fuel Col tag0 Ho Hs Ht. exact (flat_order_indep ord Ho cf fuel Col Hs tag0 Ht). Qed.
Print Assumptions aggregate_order_indep_partial.

(** [fails_iff_conflict], the direction "a conflict makes the aggregation fail", for flat histories: in a successful
    history two contributions of one track agree on the tree of every export they share ([exports_of c en tr]: contribution
    c requires an export en with tree tr).  The converse (failure only on conflict) is refuted in general below and is
    not proved for flat histories (it needs the completeness/totality development mentioned above). *)
Theorem fails_iff_conflict_partial : forall ord cf fuel (Col : types -> Prop) tag0,
  (forall l x, In x (ord l) -> In x l) ->
  (forall t1 t2, Col t1 -> Col t2 -> t_tag t1 = t_tag t2 -> t1 = t2) -> (forall t, Col t -> t_tag t <> tag0) ->
  forall l a s, Forall (flat_contrib Col) l -> NoDup (map ckey l) -> history_ok ord cf fuel tag0 l a s ->
  forall c1 c2, In c1 l -> In c2 l -> compat_spec_b (fst c1) (fst c2) = true ->
  forall en tr1 tr2, exports_of c1 en tr1 -> exports_of c2 en tr2 -> tr1 = tr2.
Proof. intros ord cf fuel Col tag0 Ho Hs Ht. exact (flat_success_no_conflict ord Ho cf fuel Col Hs tag0 Ht). Qed.
Print Assumptions fails_iff_conflict_partial.

(** the merged map itself can depend on the order even when every order succeeds (one interface identifier under two
    import names) *)
Theorem aggregate_order_indep_map_refuted :
  exists l l' a s a' s' n t t', Permutation l l' /\ run l = inl (a, s) /\
    run l' = inl (a', s') /\ merged_tree a n = Some t /\ merged_tree a' n = Some t' /\ ~ SubCM t' t.
Proof.
  destruct shared_id_witness as [l [l' [a [s [a' [s' [n [t [t' [P [H1 [H2 [H3 [H4 H5]]]]]]]]]]]]]].
  exists l, l', a, s, a', s', n, t, t'. refine (conj P (conj H1 (conj H2 (conj H3 (conj H4 _))))).
  intro X. apply sub_b_iff in X. congruence.
Qed.
Print Assumptions aggregate_order_indep_map_refuted.

(** failure without a conflict: three contributions, the first alone on its name, the other two under one other name with
    a merge that satisfies both - and the aggregation fails (same witness, the failing order) *)
Theorem fails_iff_conflict_refuted :
  exists l p e tb tc tm, run l = inr (p, AErr e) /\ length l = 3%nat /\
    compat_spec_b (fst (nth 0 l dflt)) (fst (nth 1 l dflt)) = false /\ fst (nth 1 l dflt) = fst (nth 2 l dflt) /\
    req_tree (nth 1 l dflt) = Some tb /\ req_tree (nth 2 l dflt) = Some tc /\
    tmerge tb tc = Some tm /\ SubCM tm tb /\ SubCM tm tc.
Proof.
  destruct failure_witness_shared as [l [p [e [tb [tc [tm [H1 [H2 [_ [H4 [H5 [H6 [H7 [H8 [H9 H10]]]]]]]]]]]]]]].
  exists l, p, e, tb, tc, tm.
  refine (conj H1 (conj H2 (conj H5 (conj _ (conj H6 (conj H7 (conj H8 (conj _ _)))))))); [|now apply sub_b_iff|now apply sub_b_iff].
  now apply SemverProofs.str_eqb_eq.
Qed.
Print Assumptions fails_iff_conflict_refuted.

(** Regression: the witnesses that refuted [merge_upper_bound], [aggregate_order_indep] and [fails_iff_conflict] before the
    repairs 0bf540d (nested instances) and 874f221 (alias of a primitive) now behave as the property demands: nested
    instances {a} + {a,b} and {a} + {b} merge to a type every contributor is satisfied by, a conflict below a nested
    instance fails in every order, and the aliased primitive no longer panics.  (The same case lines are replayed on the
    real aggregator from corpus/C09/cases.txt.) *)
Example repaired_witnesses :
  (exists a s tm, run w_nested = inl (a, s) /\ merged_tree a [102;111;111] = Some tm /\
                  forall c, In c w_nested -> exists tr, req_tree c = Some tr /\ sub_b tm tr = true) /\
  (exists a s tm, run w_disjoint = inl (a, s) /\ merged_tree a [102;111;111] = Some tm /\
                  forall c, In c w_disjoint -> exists tr, req_tree c = Some tr /\ sub_b tm tr = true) /\
  (exists a s tm, run w_panic = inl (a, s) /\ merged_tree a [102;111;111] = Some tm /\
                  forall c, In c w_panic -> exists tr, req_tree c = Some tr /\ sub_b tm tr = true) /\
  (exists p e, run w_order = inr (p, AErr e)).
Proof. exact (conj nested_now_united (conj disjoint_now_united (conj alias_primitive_no_panic (proj1 nested_conflict_fails)))). Qed.

(** Non-vacuity of the flat theorems: interfaces {f}, {g}, {f,h} identified by their import names, three versions of one
    track, merge to the union under the highest version. *)
Example flat_nonvacuous :
  Forall (flat_contrib flat_col) w_flat /\ NoDup (map ckey w_flat) /\
  (forall t1 t2, flat_col t1 -> flat_col t2 -> t_tag t1 = t_tag t2 -> t1 = t2) /\ (forall t, flat_col t -> t_tag t <> 0) /\
  exists a s, run w_flat = inl (a, s) /\ map fst (imports a) = [n_023] /\
              merged_tree a n_023 =
              Some (XInst [([102], XFunc (mkft [] None false)); ([103], XFunc (mkft [([120], VTPrim PU8)] None false));
                           ([104], XFunc (mkft [] (Some (VTPrim PString)) false))]).
Proof. exact (conj w_flat_flat (conj w_flat_distinct (conj flat_col_same (conj flat_col_tag flat_merged)))). Qed.

(** Non-vacuity of the partial theorems: three versions of one track arriving as 0.2.1, 0.2.0, 0.2.3. *)
Example canonical_nonvacuous :
  owner_free_history w_flat /\
  exists a s, run w_flat = inl (a, s) /\ map fst (imports a) = [n_023] /\
              map (Aggregator.canonical a) (map fst w_flat) = [n_023; n_023; n_023].
Proof.
  split; [exact w_flat_owner_free|]. destruct flat_run as [a [s [H1 [H2 [H3 _]]]]]. exists a, s. exact (conj H1 (conj H2 H3)).
Qed.
