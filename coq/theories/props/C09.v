(** Property C09 — merged import requirements satisfy every contributor, order-independently.
    Statements only; proofs live in proofs/Aggregator*.v.  (work in progress: first the refutations) *)
From WacV Require Import Str Names NamesSpec Types Checker SubSpec Aggregator AggregatorSpec.

Theorem placeholder_c09 : True.
Proof. exact I. Qed.
Print Assumptions placeholder_c09.
