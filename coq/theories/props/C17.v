(** Property C17 — package discovery finds every package resolution will ask for.
    Statements only; the proofs are in proofs/VisitorProofs.v.

    [visit]    : model of [wac_resolver::packages] (PackageVisitor + the closure of [packages()]),
    [requests] : every [resolve_package] call the resolver of resolution.rs makes when nothing
                 fails (the resolver always performs a prefix of it: [log_is_prefix]),
    [resolve_skel lookup abort] : the resolver reduced to its package requests; [lookup] is the
                 package map supplied by the caller, [abort] decides every other question. *)
From Coq Require Import String.
From WacV Require Import Str StrLit Token Lexer LexImpl Semver Ast Parser Visitor ResolveSkel VisitorProofs.

(** 1. Completeness, for every syntactic position: whatever the resolver can request (name AND
       version) has been discovered. *)
Theorem requests_incl_discovered : forall d ks, visit d = VOk ks -> incl (requests d) ks.
Proof. exact requests_incl_discovered. Qed.
Print Assumptions requests_incl_discovered.

(** 2. The document's own package is never reported. *)
Theorem self_never_discovered : forall d ks, visit d = VOk ks -> forall k, In k ks -> fst k <> own_name d.
Proof. exact self_never_discovered. Qed.
Print Assumptions self_never_discovered.

(** 3. A document that instantiates its own package (in a [let] or [export], at any nesting of
       named arguments and parentheses) is rejected at discovery, and discovery fails for no
       other reason. *)
Theorem self_new_rejected : forall d, has_self_new d = true -> exists sp, visit d = VErr (CannotInstantiateSelf sp).
Proof. exact self_new_rejected. Qed.
Print Assumptions self_new_rejected.

Theorem visit_error_only_self_new : forall d e, visit d = VErr e -> has_self_new d = true.
Proof. exact visit_error_only_self_new. Qed.
Print Assumptions visit_error_only_self_new.

(** 4. Two package maps that agree on [requests d] resolve alike, for every behaviour of the rest of
       the resolver ... *)
Theorem superset_same_result :
  forall (content : Type) (abort : list (pkgkey * content) -> nat -> option N)
         (lookup1 lookup2 : pkgkey -> option content) d,
  (forall k, In k (requests d) -> lookup1 k = lookup2 k) ->
  resolve_skel lookup1 abort d = resolve_skel lookup2 abort d.
Proof. exact @superset_same_result. Qed.
Print Assumptions superset_same_result.

(** ... hence supplying exactly the discovered packages ([ks' = ks]) or any superset gives the same
    result as supplying everything. *)
Theorem discovered_suffice :
  forall (content : Type) (abort : list (pkgkey * content) -> nat -> option N)
         (lookup : pkgkey -> option content) d ks ks',
  visit d = VOk ks -> incl ks ks' ->
  resolve_skel (restrict ks' lookup) abort d = resolve_skel lookup abort d.
Proof. exact @discovered_suffice. Qed.
Print Assumptions discovered_suffice.

(** 5. What the resolver actually looks up is a prefix of [requests d], wherever it stops. *)
Theorem log_is_prefix :
  forall (content : Type) (abort : list (pkgkey * content) -> nat -> option N)
         (lookup : pkgkey -> option content) d,
  exists rest, requests d = o_log (resolve_skel lookup abort d) ++ rest.
Proof. exact @log_is_prefix. Qed.
Print Assumptions log_is_prefix.

(** 6. Discovery is exact: one entry per (name, version), and nothing the resolver would not
       request if nothing failed. *)
Theorem discovered_nodup : forall d ks, visit d = VOk ks -> NoDup ks.
Proof. exact discovered_nodup. Qed.
Print Assumptions discovered_nodup.

Theorem discovered_all_requested : forall d ks, visit d = VOk ks -> incl ks (requests d).
Proof. exact discovered_all_requested. Qed.
Print Assumptions discovered_all_requested.

(** 7. The visitor itself, for ANY callback (early stop included), delivers the flattened event
       list in order. *)
Theorem visitor_flat :
  forall (S : Type) (cb : S -> str -> option version -> span -> S * bool) s d,
  gvisit cb s d = interp cb (own_name d) s (ev_document d).
Proof. exact @visitor_flat. Qed.
Print Assumptions visitor_flat.

(** Non-vacuity: a document (parsed by the model of the real parser) with a package reference in
    every syntactic position — targets clause, import path, [use] inside an interface, an inline
    interface of an import, and of a world item, world import/export paths, include, [new] nested in
    named arguments and parentheses, an export expression — with and without versions, two versions
    of one name, and references to its own package.  Discovery succeeds, reports 13 keys, none of
    them the own package, and they are exactly the resolver's requests. *)
Definition w_every : str :=
  L"package t:own targets l:t/w@0.1.0; import a: l:a/i@1.0.0; import b: interface { use l:b/j.{t}; }; interface i { use l:c/j.{t}; use t:own/h.{u}; } world w { include l:g/w2; use l:d/j.{t}; import l:e/k; export l:e/k@2.0.0; import x: interface { use l:f/m.{u}; }; import t:own/i; } let x = new c:one { dep: (new c:two@2.0.0 { a: new c:leaf { }, ... }), }; export new c:leaf@3.0.0-rc.1+b { ... }...;".

Fixpoint keys_have_own (own : str) (ks : list pkgkey) : bool :=
  match ks with [] => false | k :: r => str_eqb (fst k) own || keys_have_own own r end.
Fixpoint all_in (a b : list pkgkey) : bool :=
  match a with [] => true | k :: r => existsb (pkgkey_eqb k) b && all_in r b end.

Example every_position_discovered :
  match parse_document impl_flags impl_cfg w_every with
  | POk d [] =>
      match visit d with
      | VOk ks =>
          (N.of_nat (List.length ks) =? 13) && negb (keys_have_own (own_name d) ks)
          && all_in (requests d) ks && all_in ks (requests d)
          && (N.of_nat (List.length (requests d)) =? 13) && negb (has_self_new d)
          && str_eqb (own_name d) (L"t:own")
      | VErr _ => false
      end
  | _ => false
  end = true.
Proof. vm_compute. reflexivity. Qed.

Definition w_self : str :=
  L"package t:own; let x = new c:one { dep: (new c:two { a: new t:own { ... } }) };".

Example nested_self_new_rejected :
  match parse_document impl_flags impl_cfg w_self with
  | POk d [] =>
      has_self_new d && match visit d with VErr (CannotInstantiateSelf sp) => off sp =? 60 | VOk _ => false end
      && (N.of_nat (List.length (requests d)) =? 2)
  | _ => false
  end = true.
Proof. vm_compute. reflexivity. Qed.
