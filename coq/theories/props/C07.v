(** Property C07 — argument type checking agrees with the component-model subtype relation.
    Statements only; every proof is [exact <lemma>].  (Work in progress: the item-level theorems are added below as
    they are proved.) *)
From WacV Require Import Str Types Checker SubSpec CheckerEq SubSpecProofs CheckerValue.

(** The executable specification printed by the driver decides the declarative relation. *)
Theorem spec_decision_procedure : forall a b, sub_b a b = true <-> SubCM a b.
Proof. exact sub_b_iff. Qed.
Print Assumptions spec_decision_procedure.

(** Value and defined types are invariant: the declarative rules relate exactly equal trees. *)
Theorem value_subtyping_is_equality : forall a b, VSub eq a b <-> a = b.
Proof. exact VSub_eq_iff. Qed.
Print Assumptions value_subtyping_is_equality.

(** The value-level rule of the checker decides equality of the unfolded trees (aliases resolved), whatever
    the variance; it neither panics nor runs out of fuel once the fuel covers the depth of the two types. *)
Theorem value_rule_decides_tree_equality :
  forall at_ bt, (t_tag at_ = t_tag bt -> at_ = bt) ->
  forall g F k a b ta tb, (g <= F)%nat ->
    unfold_vt g at_ a = Some ta -> unfold_vt g bt b = Some tb ->
    decides (value_type F k at_ a bt b) (ta = tb).
Proof. exact value_type_spec. Qed.
Print Assumptions value_rule_decides_tree_equality.
